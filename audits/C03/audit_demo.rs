// Audit demonstration for the property
//
//   "A snapshot or iterator sees exactly the state at its creation, forever"
//
// DEFECT DEMONSTRATED HERE
// ------------------------
// One read of a table file fails once (a transient I/O error: EIO/EINTR on a flaky or network
// disk, EMFILE when the level iterator opens its next table file, ...) while a database iterator
// is stepping backwards. The failed child iterator drops out of the merge without the database
// iterator becoming invalid, and the failure is reported through `RainDbIterator::status()` only
// until the iterator is next re-positioned internally: the first `next()` after the backward
// steps re-seeks the children, which wipes the recorded error. The database iterator however keeps
// the logical position it derived from the truncated merge, so it now hands out entries that
// contradict the state it was created on (it repeats an entry it is already standing on, i.e.
// `next()` does not advance) while `is_valid()` is true and `status()` is `None`, and `status()`
// is still `None` when the end of the iteration is reached.
//
// A reader can therefore not tell a correct scan from a corrupted one, neither by polling
// `status()` together with each delivered entry nor by the documented protocol of checking
// `status()` when the iteration ends.
//
// The tests use only the public API plus a `FileSystem` wrapper around `InMemoryFileSystem` that
// fails exactly one chosen read.

use std::collections::BTreeMap;
use std::io::{self, Read, Seek, SeekFrom};
use std::path::{Path, PathBuf};
use std::sync::atomic::{AtomicI64, AtomicU64, Ordering};
use std::sync::Arc;

use raindb::fs::{FileLock, FileSystem, InMemoryFileSystem, RandomAccessFile, ReadonlyRandomAccessFile};
use raindb::{DbOptions, RainDbIterator, ReadOptions, WriteOptions, DB};

/// Fails the `fail_at`-th read (block read or open) of a table file counted from the moment it is
/// armed, exactly once. Everything else is passed through.
#[derive(Default)]
struct FaultCtl {
    reads: AtomicU64,
    fail_at: AtomicI64,
    fired: AtomicU64,
}

impl FaultCtl {
    fn disarm(&self) {
        self.fail_at.store(-1, Ordering::SeqCst);
    }

    fn arm(&self, nth_read_from_now: i64) {
        self.reads.store(0, Ordering::SeqCst);
        self.fired.store(0, Ordering::SeqCst);
        self.fail_at.store(nth_read_from_now, Ordering::SeqCst);
    }

    fn fired(&self) -> u64 {
        self.fired.load(Ordering::SeqCst)
    }

    fn on_read(&self) -> io::Result<()> {
        let target = self.fail_at.load(Ordering::SeqCst);
        if target < 0 {
            return Ok(());
        }
        let index = self.reads.fetch_add(1, Ordering::SeqCst) as i64;
        if index == target {
            self.fired.fetch_add(1, Ordering::SeqCst);
            return Err(io::Error::new(io::ErrorKind::Other, "injected transient read error"));
        }
        Ok(())
    }
}

struct FaultFile {
    inner: Box<dyn ReadonlyRandomAccessFile>,
    ctl: Arc<FaultCtl>,
}

impl Read for FaultFile {
    fn read(&mut self, buf: &mut [u8]) -> io::Result<usize> {
        self.inner.read(buf)
    }
}

impl Seek for FaultFile {
    fn seek(&mut self, pos: SeekFrom) -> io::Result<u64> {
        self.inner.seek(pos)
    }
}

impl ReadonlyRandomAccessFile for FaultFile {
    fn read_from(&self, buf: &mut [u8], offset: usize) -> io::Result<usize> {
        self.ctl.on_read()?;
        self.inner.read_from(buf, offset)
    }

    fn len(&self) -> io::Result<u64> {
        self.inner.len()
    }
}

struct FaultFs {
    inner: InMemoryFileSystem,
    ctl: Arc<FaultCtl>,
}

impl FileSystem for FaultFs {
    fn get_name(&self) -> String {
        "FaultFs".to_string()
    }
    fn create_dir(&self, path: &Path) -> io::Result<()> {
        self.inner.create_dir(path)
    }
    fn create_dir_all(&self, path: &Path) -> io::Result<()> {
        self.inner.create_dir_all(path)
    }
    fn list_dir(&self, path: &Path) -> io::Result<Vec<PathBuf>> {
        self.inner.list_dir(path)
    }
    fn open_file(&self, path: &Path) -> io::Result<Box<dyn ReadonlyRandomAccessFile>> {
        if path.extension().map_or(false, |ext| ext == "rdb") {
            self.ctl.on_read()?;
            let inner = self.inner.open_file(path)?;
            return Ok(Box::new(FaultFile {
                inner,
                ctl: Arc::clone(&self.ctl),
            }));
        }
        self.inner.open_file(path)
    }
    fn rename(&self, from: &Path, to: &Path) -> io::Result<()> {
        self.inner.rename(from, to)
    }
    fn create_file(&self, path: &Path, append: bool) -> io::Result<Box<dyn RandomAccessFile>> {
        self.inner.create_file(path, append)
    }
    fn remove_file(&self, path: &Path) -> io::Result<()> {
        self.inner.remove_file(path)
    }
    fn remove_dir(&self, path: &Path) -> io::Result<()> {
        self.inner.remove_dir(path)
    }
    fn remove_dir_all(&self, path: &Path) -> io::Result<()> {
        self.inner.remove_dir_all(path)
    }
    fn get_file_size(&self, path: &Path) -> io::Result<u64> {
        self.inner.get_file_size(path)
    }
    fn is_dir(&self, path: &Path) -> io::Result<bool> {
        self.inner.is_dir(path)
    }
    fn lock_file(&self, path: &Path) -> io::Result<FileLock> {
        self.inner.lock_file(path)
    }
}

fn text(bytes: &[u8]) -> String {
    let s = String::from_utf8_lossy(bytes).to_string();
    if s.len() > 16 {
        format!("{}..", &s[..16])
    } else {
        s
    }
}

fn open_db(ctl: &Arc<FaultCtl>, name: &str) -> DB {
    let mut options = DbOptions::with_memory_env();
    options.filesystem_provider = Arc::new(FaultFs {
        inner: InMemoryFileSystem::new(),
        ctl: Arc::clone(ctl),
    });
    options.create_if_missing = true;
    options.db_path = format!("/audit-demo-{name}");
    // Small blocks: every entry below gets a data block of its own, so stepping from one entry to
    // the next reads a block from the table file.
    options.max_block_size = 64;
    DB::open(options).unwrap()
}

/// What the caller can observe of an iterator position.
fn observe<I>(iter: &I) -> Option<(Vec<u8>, Vec<u8>)>
where
    I: RainDbIterator<Key = Vec<u8>, Error = raindb::RainDBError>,
{
    if iter.is_valid() {
        iter.current().map(|(key, value)| (key.clone(), value.clone()))
    } else {
        None
    }
}

/// The minimal scenario.
///
/// State at the snapshot: a c d e f (b was written and then deleted), all of it in one table file
/// below level 0. Afterwards more writes happen (they only ever reach the memtable).
///
/// The iterator at the snapshot does: seek_to_last (f), prev (e), prev (d), prev (c) and during
/// that last prev the read of the block that holds the older entries fails once. Then next, next,
/// next, next, which must yield d, e, f, end.
#[test]
fn transient_read_error_in_a_backward_step_is_forgotten_and_the_iterator_then_contradicts_its_snapshot() {
    let ctl = Arc::new(FaultCtl::default());
    ctl.disarm();
    let db = open_db(&ctl, "minimal");
    let wo = WriteOptions::default;

    let mut model: BTreeMap<Vec<u8>, Vec<u8>> = BTreeMap::new();
    for key in ["a", "b", "c", "d", "e", "f"] {
        let value = format!("{key}-value-{}", "v".repeat(90)).into_bytes();
        db.put(wo(), key.as_bytes().to_vec(), value.clone()).unwrap();
        model.insert(key.as_bytes().to_vec(), value);
    }
    db.delete(wo(), b"b".to_vec()).unwrap();
    model.remove(b"b".as_slice());
    // Move everything into a table file (the flush of a lone memtable lands below level 0).
    db.compact_range(None..None);

    let snapshot = db.get_snapshot();
    let state_at_snapshot: Vec<(Vec<u8>, Vec<u8>)> =
        model.iter().map(|(key, value)| (key.clone(), value.clone())).collect();
    let mut iter = db
        .new_iterator(ReadOptions {
            fill_cache: false,
            snapshot: Some(snapshot.clone()),
        })
        .unwrap();

    // Later writes, which the iterator and the snapshot must never show.
    db.put(wo(), b"c".to_vec(), b"c-overwritten-later".to_vec()).unwrap();
    db.put(wo(), b"dd".to_vec(), b"dd-added-later".to_vec()).unwrap();
    db.delete(wo(), b"e".to_vec()).unwrap();

    // get at the snapshot, for the "get and iteration agree" half of the property
    for (key, value) in &state_at_snapshot {
        let got = db
            .get(
                ReadOptions {
                    fill_cache: false,
                    snapshot: Some(snapshot.clone()),
                },
                key,
            )
            .unwrap();
        assert_eq!(&got, value, "get({}) at the snapshot", text(key));
    }

    let expect = |index: Option<usize>| index.map(|i| state_at_snapshot[i].clone());
    let mut log: Vec<String> = vec![];
    let mut violations: Vec<String> = vec![];
    let mut check = |step: &str,
                     iter_obs: Option<(Vec<u8>, Vec<u8>)>,
                     status: Option<String>,
                     want: Option<(Vec<u8>, Vec<u8>)>| {
        let show = |entry: &Option<(Vec<u8>, Vec<u8>)>| match entry {
            Some((key, value)) => format!("{}={}", text(key), text(value)),
            None => "<end>".to_string(),
        };
        log.push(format!(
            "{step:<14} iterator: {:<24} state at snapshot: {:<24} status(): {}",
            show(&iter_obs),
            show(&want),
            status.as_deref().unwrap_or("None")
        ));
        if iter_obs != want && status.is_none() {
            violations.push(format!(
                "after {step} the iterator shows {} but the state it was created on has {} at \
                 that position, and status() reports no error",
                show(&iter_obs),
                show(&want)
            ));
        }
    };

    // state_at_snapshot indexes: a=0 c=1 d=2 e=3 f=4
    iter.seek_to_last().unwrap();
    check("seek_to_last", observe(&iter), iter.status().map(|e| e.to_string()), expect(Some(4)));
    iter.prev();
    check("prev", observe(&iter), iter.status().map(|e| e.to_string()), expect(Some(3)));
    iter.prev();
    check("prev", observe(&iter), iter.status().map(|e| e.to_string()), expect(Some(2)));

    // The next block read of the table file fails, once.
    ctl.arm(0);
    iter.prev();
    assert_eq!(ctl.fired(), 1, "the scenario is built so that this step reads a block");
    ctl.disarm();
    check("prev (fault)", observe(&iter), iter.status().map(|e| e.to_string()), expect(Some(1)));

    let mut position = 1usize;
    for _ in 0..6 {
        if !iter.is_valid() {
            break;
        }
        iter.next();
        position += 1;
        let want = if position < state_at_snapshot.len() {
            expect(Some(position))
        } else {
            None
        };
        check("next", observe(&iter), iter.status().map(|e| e.to_string()), want);
    }
    let status_at_end = iter.status();

    for line in &log {
        eprintln!("{line}");
    }
    eprintln!("status() once the iteration has ended: {:?}", status_at_end.as_ref().map(|e| e.to_string()));

    drop(iter);
    db.release_snapshot(snapshot);

    assert!(
        violations.is_empty(),
        "An iterator at a snapshot must show exactly the state of the snapshot or report that it \
         could not (status()). One table read failed once during a backward step; after that:\n  \
         {}\n  status() at the end of the iteration: {:?}\nFull trace:\n  {}",
        violations.join("\n  "),
        status_at_end.map(|e| e.to_string()),
        log.join("\n  ")
    );
}

/// The same defect seen through the documented protocol: walk, and when the iteration has ended
/// ask `status()` whether everything could be read. The reader first scans backwards from the end
/// to the middle, then forwards to the end again (a "show the previous page / next page" reader).
/// Every single block read of the whole walk is failed once, in turn. For each of them the walk
/// either must have delivered exactly the entries of the snapshot, or `status()` must be an error
/// at the end (or have been an error at the moment a wrong entry was delivered).
#[test]
fn every_single_transient_read_error_during_a_back_and_forth_scan_is_either_harmless_or_reported() {
    let ctl = Arc::new(FaultCtl::default());
    ctl.disarm();
    let db = open_db(&ctl, "sweep");
    let wo = WriteOptions::default;

    let mut model: BTreeMap<Vec<u8>, Vec<u8>> = BTreeMap::new();
    for i in 0..24 {
        let key = format!("key{i:02}").into_bytes();
        let value = format!("first-{i:02}-{}", "v".repeat(60)).into_bytes();
        db.put(wo(), key.clone(), value.clone()).unwrap();
        model.insert(key, value);
    }
    for i in (1..24).step_by(4) {
        let key = format!("key{i:02}").into_bytes();
        db.delete(wo(), key.clone()).unwrap();
        model.remove(&key);
    }
    db.compact_range(None..None);
    let snapshot = db.get_snapshot();
    let state: Vec<(Vec<u8>, Vec<u8>)> = model.iter().map(|(k, v)| (k.clone(), v.clone())).collect();
    // later writes that must stay invisible
    for i in (0..24).step_by(5) {
        db.put(wo(), format!("key{i:02}").into_bytes(), b"later".to_vec()).unwrap();
    }

    // The walk: from the last entry back to the middle, then forward to the end.
    let middle = state.len() / 2;
    let walk = |fail_read: i64| -> (Vec<Option<(Vec<u8>, Vec<u8>)>>, Vec<bool>, bool, u64) {
        let mut iter = db
            .new_iterator(ReadOptions {
                fill_cache: false,
                snapshot: Some(snapshot.clone()),
            })
            .unwrap();
        ctl.arm(fail_read);
        let mut seen = vec![];
        let mut status_seen = vec![];
        let _ = iter.seek_to_last();
        seen.push(observe(&iter));
        status_seen.push(iter.status().is_some());
        for _ in middle..state.len() - 1 {
            if !iter.is_valid() {
                break;
            }
            iter.prev();
            seen.push(observe(&iter));
            status_seen.push(iter.status().is_some());
        }
        while iter.is_valid() {
            iter.next();
            seen.push(observe(&iter));
            status_seen.push(iter.status().is_some());
        }
        let error_at_end = iter.status().is_some();
        let reads = ctl.reads.load(Ordering::SeqCst);
        ctl.disarm();
        (seen, status_seen, error_at_end, reads)
    };

    let mut expected: Vec<Option<(Vec<u8>, Vec<u8>)>> = vec![];
    for i in (middle..state.len()).rev() {
        expected.push(Some(state[i].clone()));
    }
    for i in middle + 1..state.len() {
        expected.push(Some(state[i].clone()));
    }
    expected.push(None);

    let (clean, _, clean_error, reads_needed) = walk(i64::MAX);
    assert_eq!(clean, expected, "without faults the walk shows the state of the snapshot");
    assert!(!clean_error);

    let mut silent: Vec<String> = vec![];
    for fail_read in 0..reads_needed as i64 {
        let (seen, status_seen, error_at_end, _) = walk(fail_read);
        if seen == expected || error_at_end {
            continue;
        }
        // not reported at the end; was it at least reported when the first wrong entry came out?
        let first_wrong = seen
            .iter()
            .zip(expected.iter())
            .position(|(got, want)| got != want)
            .unwrap_or(seen.len().min(expected.len()));
        let reported_then = status_seen.get(first_wrong).copied().unwrap_or(false);
        let show = |entry: Option<&Option<(Vec<u8>, Vec<u8>)>>| match entry {
            Some(Some((key, _))) => text(key),
            Some(None) => "<end>".to_string(),
            None => "<nothing>".to_string(),
        };
        silent.push(format!(
            "read #{fail_read} of {reads_needed} fails once: step {first_wrong} delivered {} \
             instead of {}; status() was {} at that moment and None at the end of the iteration",
            show(seen.get(first_wrong)),
            show(expected.get(first_wrong)),
            if reported_then { "an error" } else { "None" }
        ));
    }
    db.release_snapshot(snapshot);

    assert!(
        silent.is_empty(),
        "{} of {} single transient read errors made the iterator deliver entries that contradict \
         its snapshot without status() reporting an error when the iteration ended:\n  {}",
        silent.len(),
        reads_needed,
        silent.join("\n  ")
    );
}
