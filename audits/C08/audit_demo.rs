//! Audit of the property "I/O failures are reported, never swallowed; nothing acknowledged is
//! lost".
//!
//! Run with `cargo test --offline --features verif --test audit_demo -- --nocapture`
//! (the tests serialise themselves because the `verif` hook handler is process wide; the whole
//! file takes about ten minutes on a busy machine).
//!
//! The tests use their own in-memory file system (`FaultFs`, per-handle cursors, POSIX-like
//! unlink/rename semantics) that can make any single file system call fail, either once
//! (transient) or from that call on (sticky). A failing call has no effect on the file system.
//!
//! Tests that FAIL on the audited code (= demonstrated violations):
//!
//! * `demo_manifest_append_fails_half_way_during_flush_inside_compaction` (defect D1) and its
//!   generalisation `sweep_flush_inside_compaction_long_keys`
//! * `demo_wal_append_fails_during_manual_compaction` (defect D2)
//!
//! All the other tests are attacks that did not break the property (they pass) or control
//! experiments for the demonstrations (same schedule, no fault: they pass).
#![cfg(feature = "verif")]

use std::collections::{BTreeMap, HashMap, HashSet};
use std::io::{self, Read, Seek, SeekFrom, Write};
use std::path::{Path, PathBuf};
use std::sync::atomic::{AtomicUsize, Ordering};
use std::sync::{Arc, Condvar, Mutex};
use std::time::{Duration, Instant};

use raindb::fs::{
    FileLock, FileSystem, RandomAccessFile, ReadonlyRandomAccessFile, UnlockableFile,
};
use raindb::{Batch, DbOptions, RainDBError, RainDbIterator, ReadOptions, WriteOptions, DB};

// ---------------------------------------------------------------------------------------------
// Fault injecting in-memory file system
// ---------------------------------------------------------------------------------------------

/// Decides whether the file system call `(operation, path)` fails.
type Rule = Box<dyn FnMut(&str, &Path) -> bool + Send>;

#[derive(Default)]
struct FaultCtl {
    rule: Mutex<Option<Rule>>,
    /// Number of fault-eligible calls seen since creation.
    calls: AtomicUsize,
    /// Descriptions of the calls that were made to fail.
    fired: Mutex<Vec<String>>,
    /// If set, every eligible call is recorded here.
    trace: Mutex<Option<Vec<String>>>,
}

impl FaultCtl {
    fn hit(&self, operation: &'static str, path: &Path) -> io::Result<()> {
        let call_number = self.calls.fetch_add(1, Ordering::SeqCst);
        if let Some(trace) = self.trace.lock().unwrap().as_mut() {
            trace.push(format!("{operation} {}", path.display()));
        }
        let mut rule = self.rule.lock().unwrap();
        if let Some(rule) = rule.as_mut() {
            if rule(operation, path) {
                self.fired.lock().unwrap().push(format!(
                    "call #{call_number}: {operation} {}",
                    path.display()
                ));
                return Err(io::Error::new(
                    io::ErrorKind::Other,
                    format!("injected fault at {operation} {}", path.display()),
                ));
            }
        }
        Ok(())
    }

    fn set_rule(&self, rule: Option<Rule>) {
        *self.rule.lock().unwrap() = rule;
    }

    fn fired(&self) -> Vec<String> {
        self.fired.lock().unwrap().clone()
    }
}

type Inode = Arc<Mutex<Vec<u8>>>;

#[derive(Default)]
struct FsState {
    files: HashMap<PathBuf, Inode>,
    dirs: HashSet<PathBuf>,
    locked: HashSet<PathBuf>,
}

struct FaultFs {
    state: Arc<Mutex<FsState>>,
    ctl: Arc<FaultCtl>,
}

impl FaultFs {
    fn new() -> Self {
        FaultFs {
            state: Arc::new(Mutex::new(FsState::default())),
            ctl: Arc::new(FaultCtl::default()),
        }
    }

    /// A copy of the contents of a file (no fault injection).
    fn peek(&self, path: &Path) -> Option<Vec<u8>> {
        let state = self.state.lock().unwrap();
        state.files.get(path).map(|inode| inode.lock().unwrap().clone())
    }

    /// All file paths (no fault injection).
    fn all_files(&self) -> Vec<PathBuf> {
        let mut paths: Vec<PathBuf> = self.state.lock().unwrap().files.keys().cloned().collect();
        paths.sort();
        paths
    }
}

struct MemFile {
    inode: Inode,
    cursor: u64,
    path: PathBuf,
    ctl: Arc<FaultCtl>,
    append_mode: bool,
}

impl Read for MemFile {
    fn read(&mut self, buf: &mut [u8]) -> io::Result<usize> {
        self.ctl.hit("read", &self.path)?;
        let data = self.inode.lock().unwrap();
        let start = (self.cursor as usize).min(data.len());
        let count = buf.len().min(data.len() - start);
        buf[..count].copy_from_slice(&data[start..start + count]);
        self.cursor += count as u64;
        Ok(count)
    }
}

impl Seek for MemFile {
    fn seek(&mut self, pos: SeekFrom) -> io::Result<u64> {
        let len = self.inode.lock().unwrap().len() as i64;
        let new_position = match pos {
            SeekFrom::Start(offset) => offset as i64,
            SeekFrom::Current(offset) => self.cursor as i64 + offset,
            SeekFrom::End(offset) => len + offset,
        };
        if new_position < 0 {
            return Err(io::Error::new(io::ErrorKind::InvalidInput, "negative seek"));
        }
        self.cursor = new_position as u64;
        Ok(self.cursor)
    }
}

impl Write for MemFile {
    fn write(&mut self, buf: &[u8]) -> io::Result<usize> {
        self.ctl.hit("write", &self.path)?;
        let mut data = self.inode.lock().unwrap();
        if self.append_mode {
            self.cursor = data.len() as u64;
        }
        let start = self.cursor as usize;
        if data.len() < start {
            data.resize(start, 0);
        }
        let overlap = buf.len().min(data.len() - start);
        data[start..start + overlap].copy_from_slice(&buf[..overlap]);
        data.extend_from_slice(&buf[overlap..]);
        self.cursor += buf.len() as u64;
        Ok(buf.len())
    }

    fn flush(&mut self) -> io::Result<()> {
        Ok(())
    }
}

impl ReadonlyRandomAccessFile for MemFile {
    fn read_from(&self, buf: &mut [u8], offset: usize) -> io::Result<usize> {
        self.ctl.hit("read", &self.path)?;
        let data = self.inode.lock().unwrap();
        let start = offset.min(data.len());
        let count = buf.len().min(data.len() - start);
        buf[..count].copy_from_slice(&data[start..start + count]);
        Ok(count)
    }

    fn len(&self) -> io::Result<u64> {
        self.ctl.hit("size", &self.path)?;
        Ok(self.inode.lock().unwrap().len() as u64)
    }
}

impl RandomAccessFile for MemFile {
    fn append(&mut self, buf: &[u8]) -> io::Result<usize> {
        self.ctl.hit("append", &self.path)?;
        let mut data = self.inode.lock().unwrap();
        data.extend_from_slice(buf);
        self.cursor = data.len() as u64;
        Ok(buf.len())
    }
}

struct MemLock {
    state: Arc<Mutex<FsState>>,
    path: PathBuf,
}

impl UnlockableFile for MemLock {
    fn unlock(&self) -> io::Result<()> {
        self.state.lock().unwrap().locked.remove(&self.path);
        Ok(())
    }
}

impl FileSystem for FaultFs {
    fn get_name(&self) -> String {
        "FaultFs".to_string()
    }

    fn create_dir(&self, path: &Path) -> io::Result<()> {
        self.state.lock().unwrap().dirs.insert(path.to_path_buf());
        Ok(())
    }

    fn create_dir_all(&self, path: &Path) -> io::Result<()> {
        let mut state = self.state.lock().unwrap();
        for ancestor in path.ancestors() {
            state.dirs.insert(ancestor.to_path_buf());
        }
        Ok(())
    }

    fn list_dir(&self, path: &Path) -> io::Result<Vec<PathBuf>> {
        let state = self.state.lock().unwrap();
        let mut children: Vec<PathBuf> = state
            .files
            .keys()
            .chain(state.dirs.iter())
            .filter(|candidate| candidate.parent() == Some(path))
            .cloned()
            .collect();
        children.sort();
        children.dedup();
        Ok(children)
    }

    fn open_file(&self, path: &Path) -> io::Result<Box<dyn ReadonlyRandomAccessFile>> {
        // A missing file is reported as such before the fault injection so that a fault never
        // looks like `NotFound`.
        let inode = match self.state.lock().unwrap().files.get(path) {
            Some(inode) => Arc::clone(inode),
            None => {
                return Err(io::Error::new(
                    io::ErrorKind::NotFound,
                    format!("no such file {}", path.display()),
                ))
            }
        };
        self.ctl.hit("open", path)?;
        Ok(Box::new(MemFile {
            inode,
            cursor: 0,
            path: path.to_path_buf(),
            ctl: Arc::clone(&self.ctl),
            append_mode: false,
        }))
    }

    fn rename(&self, from: &Path, to: &Path) -> io::Result<()> {
        self.ctl.hit("rename", from)?;
        let mut state = self.state.lock().unwrap();
        match state.files.remove(from) {
            Some(inode) => {
                state.files.insert(to.to_path_buf(), inode);
                Ok(())
            }
            None => Err(io::Error::new(io::ErrorKind::NotFound, "rename: no such file")),
        }
    }

    fn create_file(&self, path: &Path, append: bool) -> io::Result<Box<dyn RandomAccessFile>> {
        self.ctl.hit("create", path)?;
        let mut state = self.state.lock().unwrap();
        let inode = Arc::clone(
            state
                .files
                .entry(path.to_path_buf())
                .or_insert_with(|| Arc::new(Mutex::new(vec![]))),
        );
        let cursor = {
            let mut data = inode.lock().unwrap();
            if !append {
                data.clear();
            }
            data.len() as u64
        };
        Ok(Box::new(MemFile {
            inode,
            cursor,
            path: path.to_path_buf(),
            ctl: Arc::clone(&self.ctl),
            append_mode: append,
        }))
    }

    fn remove_file(&self, path: &Path) -> io::Result<()> {
        self.ctl.hit("remove", path)?;
        match self.state.lock().unwrap().files.remove(path) {
            Some(_) => Ok(()),
            None => Err(io::Error::new(io::ErrorKind::NotFound, "remove: no such file")),
        }
    }

    fn remove_dir(&self, path: &Path) -> io::Result<()> {
        let mut state = self.state.lock().unwrap();
        if state.files.keys().any(|file| file.starts_with(path)) {
            return Err(io::Error::new(io::ErrorKind::Other, "directory not empty"));
        }
        state.dirs.remove(path);
        Ok(())
    }

    fn remove_dir_all(&self, path: &Path) -> io::Result<()> {
        let mut state = self.state.lock().unwrap();
        state.files.retain(|file, _| !file.starts_with(path));
        state.dirs.retain(|dir| !dir.starts_with(path));
        Ok(())
    }

    fn get_file_size(&self, path: &Path) -> io::Result<u64> {
        let inode = match self.state.lock().unwrap().files.get(path) {
            Some(inode) => Arc::clone(inode),
            None => return Err(io::Error::new(io::ErrorKind::NotFound, "size: no such file")),
        };
        self.ctl.hit("size", path)?;
        let size = inode.lock().unwrap().len() as u64;
        Ok(size)
    }

    fn is_dir(&self, path: &Path) -> io::Result<bool> {
        let state = self.state.lock().unwrap();
        Ok(state.dirs.contains(path) && !state.files.contains_key(path))
    }

    fn lock_file(&self, path: &Path) -> io::Result<FileLock> {
        let mut state = self.state.lock().unwrap();
        if !state.locked.insert(path.to_path_buf()) {
            return Err(io::Error::new(io::ErrorKind::WouldBlock, "already locked"));
        }
        state
            .files
            .entry(path.to_path_buf())
            .or_insert_with(|| Arc::new(Mutex::new(vec![])));
        Ok(FileLock::new(Box::new(MemLock {
            state: Arc::clone(&self.state),
            path: path.to_path_buf(),
        })))
    }
}

// ---------------------------------------------------------------------------------------------
// Helpers
// ---------------------------------------------------------------------------------------------

const DB_PATH: &str = "/auditdb";

/// The hook handler of `raindb::verif` is process wide, so the tests must not overlap.
static SERIAL: Mutex<()> = Mutex::new(());

fn serial() -> std::sync::MutexGuard<'static, ()> {
    SERIAL.lock().unwrap_or_else(|poisoned| poisoned.into_inner())
}

#[derive(Clone, Copy, Debug)]
struct Config {
    max_memtable_size: usize,
    max_file_size: u64,
    max_block_size: usize,
    reuse_log_files: bool,
}

fn options(fs: &Arc<FaultFs>, config: Config) -> DbOptions {
    let filesystem: Arc<dyn FileSystem> = Arc::clone(fs) as Arc<dyn FileSystem>;
    DbOptions {
        db_path: DB_PATH.to_string(),
        max_memtable_size: config.max_memtable_size,
        max_file_size: config.max_file_size,
        max_block_size: config.max_block_size,
        filesystem_provider: filesystem,
        create_if_missing: true,
        error_if_exists: false,
        reuse_log_files: config.reuse_log_files,
        ..DbOptions::default()
    }
}

/// Wait until no background work is scheduled or running.
fn quiesce(db: &DB) {
    let deadline = Instant::now() + Duration::from_secs(60);
    loop {
        let probe = db.verif_probe();
        if !probe.background_compaction_scheduled {
            return;
        }
        assert!(
            Instant::now() < deadline,
            "HARNESS: the background work did not finish within 60s: {probe:?}"
        );
        std::thread::sleep(Duration::from_micros(200));
    }
}

/// What a key may map to. `None` stands for "absent".
type Val = Option<Vec<u8>>;

/// Oracle for the property. Per key: the value established by the last write that returned Ok,
/// plus the values of the writes that returned an error after it (such a write may have been
/// applied completely, or not at all).
#[derive(Default, Clone)]
struct Model {
    keys: BTreeMap<Vec<u8>, (Val, Vec<Val>)>,
    /// Batches that returned an error: all of their entries must be applied, or none.
    failed_batches: Vec<Vec<(Vec<u8>, Val)>>,
}

impl Model {
    fn record(&mut self, entries: &[(Vec<u8>, Val)], ok: bool) {
        for (key, value) in entries {
            let slot = self.keys.entry(key.clone()).or_insert((None, vec![]));
            if ok {
                *slot = (value.clone(), vec![]);
            } else {
                slot.1.push(value.clone());
            }
        }
        if !ok && entries.len() > 1 {
            self.failed_batches.push(entries.to_vec());
        }
    }

    fn allowed(&self, key: &[u8]) -> Vec<Val> {
        match self.keys.get(key) {
            Some((acked, maybes)) => {
                let mut allowed = vec![acked.clone()];
                allowed.extend(maybes.iter().cloned());
                allowed
            }
            None => vec![None],
        }
    }
}

fn show(value: &Val) -> String {
    match value {
        None => "<absent>".to_string(),
        Some(bytes) if bytes.len() > 24 => format!(
            "{:?}..({} bytes)",
            String::from_utf8_lossy(&bytes[..24]),
            bytes.len()
        ),
        Some(bytes) => format!("{:?}", String::from_utf8_lossy(bytes)),
    }
}

fn show_key(key: &[u8]) -> String {
    if key.len() > 24 {
        format!("{:?}..({} bytes)", String::from_utf8_lossy(&key[..24]), key.len())
    } else {
        format!("{:?}", String::from_utf8_lossy(key))
    }
}

/// Read `key`. `Ok(None)` means KeyNotFound.
fn read(db: &DB, key: &[u8]) -> Result<Val, RainDBError> {
    match db.get(ReadOptions::default(), key) {
        Ok(value) => Ok(Some(value)),
        Err(RainDBError::KeyNotFound) => Ok(None),
        Err(error) => Err(error),
    }
}

/// Check every key of the model with point reads. `errors_allowed` is true while a fault may
/// still be active (a read may fail then, but it must not return something wrong).
fn check_reads(db: &DB, model: &Model, errors_allowed: bool, context: &str) -> Result<(), String> {
    for key in model.keys.keys() {
        let allowed = model.allowed(key);
        match read(db, key) {
            Ok(actual) => {
                if !allowed.contains(&actual) {
                    return Err(format!(
                        "{context}: get({}) returned {} but the property requires one of [{}]",
                        show_key(key),
                        show(&actual),
                        allowed.iter().map(show).collect::<Vec<_>>().join(", ")
                    ));
                }
            }
            Err(error) => {
                if !errors_allowed {
                    return Err(format!(
                        "{context}: get({}) failed with `{error}` although no fault is active \
                        anymore",
                        show_key(key)
                    ));
                }
            }
        }
    }
    Ok(())
}

/// A forward scan of the whole database. `Err` if the scan reported an error (through the
/// `Result` of the positioning call or through `status()`).
fn scan(db: &DB) -> Result<BTreeMap<Vec<u8>, Vec<u8>>, String> {
    let mut scanned: BTreeMap<Vec<u8>, Vec<u8>> = BTreeMap::new();
    let mut iter = db
        .new_iterator(ReadOptions::default())
        .map_err(|error| format!("new_iterator failed with `{error}`"))?;
    iter.seek_to_first()
        .map_err(|error| format!("seek_to_first failed with `{error}`"))?;
    while iter.is_valid() {
        let (key, value) = iter.current().unwrap();
        scanned.insert(key.clone(), value.clone());
        iter.next();
    }
    if let Some(error) = iter.status() {
        return Err(format!("the scan ended with the error `{error}`"));
    }
    Ok(scanned)
}

/// Check a scan against the model. A scan that reports an error is acceptable while a fault may
/// be active; a scan that reports no error must be complete and current.
fn check_scan(db: &DB, model: &Model, errors_allowed: bool, context: &str) -> Result<BTreeMap<Vec<u8>, Vec<u8>>, String> {
    let scanned = match scan(db) {
        Ok(scanned) => scanned,
        Err(message) => {
            if errors_allowed {
                return Ok(BTreeMap::new());
            }
            return Err(format!("{context}: {message} although no fault is active anymore"));
        }
    };
    for key in model.keys.keys() {
        let actual = scanned.get(key).cloned();
        let allowed = model.allowed(key);
        if !allowed.contains(&actual) {
            return Err(format!(
                "{context}: a scan (that reported no error) yields {} for key {} but the property \
                requires one of [{}]",
                show(&actual),
                show_key(key),
                allowed.iter().map(show).collect::<Vec<_>>().join(", ")
            ));
        }
    }
    for key in scanned.keys() {
        if !model.keys.contains_key(key) {
            return Err(format!(
                "{context}: a scan yields the key {} that was never written",
                show_key(key)
            ));
        }
    }
    Ok(scanned)
}

/// Full check after the faults are gone: point reads, a forward scan and batch atomicity.
fn check_final(db: &DB, model: &Model, context: &str) -> Result<(), String> {
    check_reads(db, model, false, context)?;
    let scanned = check_scan(db, model, false, context)?;

    // Batches that failed: all or nothing. Only decidable for keys whose candidate values are
    // distinguishable, which the workloads guarantee by using batch-private keys.
    for batch in &model.failed_batches {
        let mut applied = 0;
        for (key, value) in batch {
            if &scanned.get(key).cloned() == value && model.keys[key].0 != *value {
                applied += 1;
            }
        }
        if applied != 0 && applied != batch.len() {
            return Err(format!(
                "{context}: a batch that returned an error was applied partially ({applied} of \
                {} entries)",
                batch.len()
            ));
        }
    }

    Ok(())
}

// ---------------------------------------------------------------------------------------------
// Attack 1: exhaustive single fault sweep over a (quiesced, hence deterministic) workload
// ---------------------------------------------------------------------------------------------

struct Run {
    fs: Arc<FaultFs>,
    config: Config,
    model: Model,
    db: Option<DB>,
    /// Whether the faults may still be active.
    faults_possible: bool,
    quiesce_after_each_op: bool,
    op_counter: usize,
    log: Vec<String>,
}

impl Run {
    fn open(&mut self) -> Result<(), String> {
        assert!(self.db.is_none());
        match DB::open(options(&self.fs, self.config)) {
            Ok(db) => {
                self.log.push("open -> Ok".to_string());
                if self.quiesce_after_each_op {
                    quiesce(&db);
                }
                // Everything acknowledged so far must be there
                check_reads(&db, &self.model, self.faults_possible, "after an open that returned Ok")?;
                self.db = Some(db);
                Ok(())
            }
            Err(error) => {
                self.log.push(format!("open -> Err({error})"));
                Ok(())
            }
        }
    }

    fn close(&mut self) {
        if let Some(db) = self.db.take() {
            drop(db);
            self.log.push("close".to_string());
        }
    }

    /// Apply a write. Returns false if there is no open database.
    fn write(&mut self, entries: Vec<(Vec<u8>, Val)>) -> Result<bool, String> {
        let db = match self.db.as_ref() {
            Some(db) => db,
            None => return Ok(false),
        };
        self.op_counter += 1;
        let mut batch = Batch::new();
        for (key, value) in &entries {
            match value {
                Some(value) => batch.add_put(key.clone(), value.clone()),
                None => batch.add_delete(key.clone()),
            };
        }
        let result = db.apply(WriteOptions::default(), batch);
        self.log.push(format!(
            "write #{} [{}] -> {}",
            self.op_counter,
            entries
                .iter()
                .map(|(key, value)| format!("{}={}", show_key(key), show(value)))
                .collect::<Vec<_>>()
                .join(", "),
            match &result {
                Ok(_) => "Ok".to_string(),
                Err(error) => format!("Err({error})"),
            }
        ));
        self.model.record(&entries, result.is_ok());
        if self.quiesce_after_each_op {
            quiesce(db);
        }
        check_reads(
            db,
            &self.model,
            self.faults_possible,
            &format!("after write #{}", self.op_counter),
        )?;
        check_scan(
            db,
            &self.model,
            self.faults_possible,
            &format!("after write #{}", self.op_counter),
        )?;

        if result.is_err() {
            // Behave like an application that restarts after an error
            self.close();
            self.open()?;
        }
        Ok(true)
    }

    fn compact_all(&mut self) -> Result<(), String> {
        if let Some(db) = self.db.as_ref() {
            db.compact_range(None..None);
            self.log.push("compact_range(..)".to_string());
            if self.quiesce_after_each_op {
                quiesce(db);
            }
            check_reads(db, &self.model, self.faults_possible, "after compact_range")?;
        }
        Ok(())
    }
}

fn value_for(op: usize, len: usize) -> Vec<u8> {
    let mut value = format!("v{op:05}-").into_bytes();
    while value.len() < len {
        value.push(b'a' + (value.len() % 23) as u8);
    }
    value
}

/// The workload of the sweep. Deterministic when `quiesce_after_each_op` is set.
fn workload(run: &mut Run) -> Result<(), String> {
    run.open()?;
    let mut op = 0;
    // Phase 1: overwrites that fill the memtable several times (flushes + level 0 compactions)
    for round in 0..4 {
        for index in 0..9 {
            op += 1;
            let key = format!("key{:02}", (index * 3 + round) % 12).into_bytes();
            run.write(vec![(key, Some(value_for(op, 90 + (op % 5) * 30)))])?;
        }
        op += 1;
        run.write(vec![(format!("key{:02}", round).into_bytes(), None)])?;
        op += 1;
        run.write(vec![
            (format!("batch{op}-a").into_bytes(), Some(value_for(op, 40))),
            (format!("batch{op}-b").into_bytes(), Some(value_for(op, 300))),
            (format!("batch{op}-c").into_bytes(), Some(value_for(op, 40))),
        ])?;
    }
    run.compact_all()?;
    // Phase 2: clean restart, then more of the same
    run.close();
    run.open()?;
    for round in 0..3 {
        for index in 0..7 {
            op += 1;
            let key = format!("key{:02}", (index * 5 + round) % 12).into_bytes();
            run.write(vec![(key, Some(value_for(op, 120)))])?;
        }
        op += 1;
        run.write(vec![(format!("key{:02}", 11 - round).into_bytes(), None)])?;
    }
    // A value larger than a log block (multi fragment WAL record)
    op += 1;
    run.write(vec![(b"huge".to_vec(), Some(value_for(op, 40_000)))])?;
    // A key larger than a log block: it is the smallest key of its table, so the manifest record of
    // the flush needs several fragments as well
    op += 1;
    run.write(vec![(
        [b"a-long-key-".to_vec(), vec![b'x'; 34_000]].concat(),
        Some(value_for(op, 50)),
    )])?;
    op += 1;
    run.write(vec![(b"key05".to_vec(), Some(value_for(op, 64)))])?;
    run.close();
    run.open()?;
    op += 1;
    run.write(vec![(b"key06".to_vec(), Some(value_for(op, 64)))])?;
    run.close();
    Ok(())
}

/// Execute the workload with the `fault_index`-th eligible file system call failing (`None`: no
/// fault), then take the fault away, reopen and check.
fn run_with_fault(
    config: Config,
    fault_index: Option<usize>,
    sticky: bool,
    quiesce_after_each_op: bool,
    include_reads: bool,
) -> (Result<(), String>, usize, Vec<String>, Vec<String>) {
    let fs = Arc::new(FaultFs::new());
    if let Some(fault_index) = fault_index {
        let mut seen = 0usize;
        fs.ctl.set_rule(Some(Box::new(move |operation, _path| {
            if operation == "read" && !include_reads {
                return false;
            }
            let index = seen;
            seen += 1;
            if sticky {
                index >= fault_index
            } else {
                index == fault_index
            }
        })));
    }
    let eligible = Arc::new(AtomicUsize::new(0));
    if fault_index.is_none() {
        // Count the eligible calls
        let eligible = Arc::clone(&eligible);
        fs.ctl.set_rule(Some(Box::new(move |operation, _path| {
            if operation == "read" && !include_reads {
                return false;
            }
            eligible.fetch_add(1, Ordering::SeqCst);
            false
        })));
    }

    let mut run = Run {
        fs: Arc::clone(&fs),
        config,
        model: Model::default(),
        db: None,
        faults_possible: fault_index.is_some(),
        quiesce_after_each_op,
        op_counter: 0,
        log: vec![],
    };
    let mut result = workload(&mut run);
    run.close();

    // The fault is gone now
    fs.ctl.set_rule(None);
    run.faults_possible = false;
    if result.is_ok() {
        result = match DB::open(options(&fs, config)) {
            Err(error) => Err(format!(
                "after the fault was gone, reopening the database failed with `{error}`; the \
                property requires it to open and to contain every acknowledged write"
            )),
            Ok(db) => {
                let outcome = check_final(&db, &run.model, "after the final fault-free reopen");
                // One more clean restart must not change anything either
                drop(db);
                outcome.and_then(|_| match DB::open(options(&fs, config)) {
                    Err(error) => Err(format!("second fault-free reopen failed with `{error}`")),
                    Ok(db) => check_final(&db, &run.model, "after the second fault-free reopen"),
                })
            }
        };
    }

    (
        result,
        eligible.load(Ordering::SeqCst),
        fs.ctl.fired(),
        run.log,
    )
}

/// "write MANIFEST", "create table", ... for the statistics of a sweep.
fn classify(fired: &str) -> String {
    let operation = fired.split_whitespace().nth(2).unwrap_or("?");
    let kind = if fired.contains("MANIFEST") {
        "manifest"
    } else if fired.contains("/wal/") {
        "wal"
    } else if fired.contains("/data/") {
        "table"
    } else if fired.contains("CURRENT") {
        "CURRENT"
    } else if fired.contains("dbtemp") {
        "temp"
    } else {
        "other"
    };
    format!("{operation} {kind}")
}

fn sweep(config: Config, sticky: bool, include_reads: bool) {
    let _serial = serial();
    let (baseline, eligible_calls, _, log) = run_with_fault(config, None, false, true, include_reads);
    if let Err(message) = &baseline {
        panic!("HARNESS: the fault-free run fails: {message}\n{}", log.join("\n"));
    }
    assert!(eligible_calls > 500, "HARNESS: suspiciously few calls: {eligible_calls}");
    eprintln!("sweep {config:?} sticky={sticky}: {eligible_calls} eligible calls in the baseline");

    let workers = 8;
    let next = Arc::new(AtomicUsize::new(0));
    let failures: Arc<Mutex<Vec<String>>> = Arc::new(Mutex::new(vec![]));
    let runs_with_api_errors = Arc::new(AtomicUsize::new(0));
    let fired_kinds: Arc<Mutex<BTreeMap<String, usize>>> = Arc::new(Mutex::new(BTreeMap::new()));
    let handles: Vec<_> = (0..workers)
        .map(|_| {
            let next = Arc::clone(&next);
            let failures = Arc::clone(&failures);
            let runs_with_api_errors = Arc::clone(&runs_with_api_errors);
            let fired_kinds = Arc::clone(&fired_kinds);
            std::thread::spawn(move || loop {
                let fault_index = next.fetch_add(1, Ordering::SeqCst);
                // A little beyond the baseline because failures lengthen the run
                if fault_index >= eligible_calls + 50 {
                    break;
                }
                let (result, _, fired, log) =
                    run_with_fault(config, Some(fault_index), sticky, true, include_reads);
                if log.iter().any(|line| line.contains("Err(")) {
                    runs_with_api_errors.fetch_add(1, Ordering::SeqCst);
                }
                if let Some(first) = fired.first() {
                    *fired_kinds.lock().unwrap().entry(classify(first)).or_insert(0) += 1;
                }
                if let Err(message) = result {
                    let tail: Vec<String> = log.iter().rev().take(12).rev().cloned().collect();
                    failures.lock().unwrap().push(format!(
                        "fault index {fault_index} ({}), first failed call: {:?}\n  VIOLATION: \
                        {message}\n  last operations:\n    {}",
                        if sticky { "sticky" } else { "transient" },
                        fired.first(),
                        tail.join("\n    ")
                    ));
                }
            })
        })
        .collect();
    for handle in handles {
        handle.join().unwrap();
    }

    eprintln!(
        "  runs in which some API call returned an error: {}; first failed call by kind: {:?}",
        runs_with_api_errors.load(Ordering::SeqCst),
        fired_kinds.lock().unwrap()
    );
    let failures = failures.lock().unwrap();
    assert!(
        failures.is_empty(),
        "{} of {} fault positions violate the property ({config:?}). The first ones:\n{}",
        failures.len(),
        eligible_calls + 50,
        failures.iter().take(5).cloned().collect::<Vec<_>>().join("\n")
    );
}

const SMALL: Config = Config {
    max_memtable_size: 1200,
    max_file_size: 1500,
    max_block_size: 256,
    reuse_log_files: true,
};

#[test]
fn sweep_transient_reuse_logs() {
    sweep(SMALL, false, false);
}

#[test]
fn sweep_sticky_reuse_logs() {
    sweep(SMALL, true, false);
}

#[test]
fn sweep_transient_no_reuse() {
    sweep(
        Config {
            reuse_log_files: false,
            ..SMALL
        },
        false,
        false,
    );
}

#[test]
fn sweep_sticky_no_reuse() {
    sweep(
        Config {
            reuse_log_files: false,
            ..SMALL
        },
        true,
        false,
    );
}

/// Beyond the stated scope (data reads are not listed there): also fail `read` calls.
#[test]
fn sweep_transient_including_reads() {
    sweep(SMALL, false, true);
}

// ---------------------------------------------------------------------------------------------
// Attack 2: a memtable flush that runs inside a table compaction and whose manifest append fails
// half way (the record needs two log fragments, the second write fails once)
// ---------------------------------------------------------------------------------------------

/// Parks the first thread that reaches `point` until it is released.
struct Gate {
    point: &'static str,
    state: Mutex<GateState>,
    changed: Condvar,
    /// Notes seen, for diagnostics.
    notes: Mutex<Vec<String>>,
}

#[derive(Default)]
struct GateState {
    armed: bool,
    parked: bool,
    released: bool,
}

impl Gate {
    fn new(point: &'static str) -> Arc<Self> {
        Arc::new(Gate {
            point,
            state: Mutex::new(GateState::default()),
            changed: Condvar::new(),
            notes: Mutex::new(vec![]),
        })
    }

    fn arm(&self) {
        self.state.lock().unwrap().armed = true;
    }

    fn wait_until_parked(&self) {
        let deadline = Instant::now() + Duration::from_secs(60);
        let mut state = self.state.lock().unwrap();
        while !state.parked {
            let (guard, timeout) = self
                .changed
                .wait_timeout(state, Duration::from_millis(100))
                .unwrap();
            state = guard;
            assert!(
                !(timeout.timed_out() && Instant::now() > deadline),
                "HARNESS: no thread reached the scheduling point {}",
                self.point
            );
        }
    }

    fn release(&self) {
        let mut state = self.state.lock().unwrap();
        state.released = true;
        state.armed = false;
        self.changed.notify_all();
    }
}

impl raindb::verif::Handler for Gate {
    fn pause(&self, point: &'static str, _args: &[u64]) {
        if point != self.point {
            return;
        }
        let mut state = self.state.lock().unwrap();
        if !state.armed || state.parked {
            return;
        }
        state.parked = true;
        self.changed.notify_all();
        while !state.released {
            state = self.changed.wait(state).unwrap();
        }
    }

    fn note(&self, point: &'static str, args: &[u64]) {
        self.notes.lock().unwrap().push(format!("{point}{args:?}"));
    }
}

/// Releases the gate (so that no thread stays parked when a test bails out) and uninstalls the
/// handler.
struct HandlerGuard(Arc<Gate>);

impl Drop for HandlerGuard {
    fn drop(&mut self) {
        self.0.release();
        raindb::verif::set_handler(None);
    }
}

/// The physical records of a log file as "(type, payload length)" (no fault injection).
fn log_fragments(fs: &FaultFs, path: &Path) -> String {
    let data = match fs.peek(path) {
        Some(data) => data,
        None => return "<missing>".to_string(),
    };
    let mut position = 0usize;
    let mut out = vec![];
    while position + 7 <= data.len() {
        let block_left = 32 * 1024 - position % (32 * 1024);
        if block_left < 7 {
            position += block_left;
            continue;
        }
        let length = u16::from_le_bytes([data[position + 4], data[position + 5]]) as usize;
        let kind = match data[position + 6] {
            0 => "FULL",
            1 => "FIRST",
            2 => "MIDDLE",
            3 => "LAST",
            _ => "?",
        };
        let complete = position + 7 + length <= data.len();
        out.push(format!("{kind}({length}{})", if complete { "" } else { ",cut" }));
        position += 7 + length;
    }
    format!("{} bytes: {}", data.len(), out.join(" "))
}

fn layout(db: &DB) -> String {
    db.verif_files()
        .iter()
        .map(|file| format!("L{}:#{}", file.level, file.number))
        .collect::<Vec<_>>()
        .join(" ")
}

/// The fault injected once the table compaction continues (with an immutable memtable waiting).
#[derive(Clone, Copy, Debug, PartialEq)]
enum NestedFault {
    /// Control experiment.
    None,
    /// The second physical write to the manifest fails once.
    SecondManifestWrite,
    /// The n-th eligible file system call (reads excluded) after the release fails.
    Nth { n: usize, sticky: bool },
    /// Instead of the two acknowledged writes: a write whose WAL append fails once (no flush
    /// inside the compaction then, but a sticky error that is set while the compaction runs).
    WalWriteWhileParked,
}

/// Returns the number of eligible calls made after the compaction thread was released.
fn flush_inside_compaction(fault: NestedFault, big_keys: bool, verbose: bool) -> Result<usize, String> {
    let second_manifest_write_fails = fault == NestedFault::SecondManifestWrite;
    let config = Config {
        max_memtable_size: 4096,
        max_file_size: 2 * 1024 * 1024,
        max_block_size: 4096,
        reuse_log_files: true,
    };
    let fs = Arc::new(FaultFs::new());
    let gate = Gate::new("compact.step");
    raindb::verif::set_handler(Some(Arc::clone(&gate) as Arc<dyn raindb::verif::Handler>));

    let mut model = Model::default();
    let db = Arc::new(DB::open(options(&fs, config)).map_err(|error| format!("HARNESS: {error}"))?);
    // Declared after `db`: dropped before it, so that closing never waits for a parked thread
    let _handler_guard = HandlerGuard(Arc::clone(&gate));
    let put = |db: &DB, model: &mut Model, entries: Vec<(Vec<u8>, Val)>| -> Result<(), RainDBError> {
        let mut batch = Batch::new();
        for (key, value) in &entries {
            match value {
                Some(value) => batch.add_put(key.clone(), value.clone()),
                None => batch.add_delete(key.clone()),
            };
        }
        let result = db.apply(WriteOptions::default(), batch);
        model.record(&entries, result.is_ok());
        result
    };

    // Six flushes of the same key range: they land at level 2, level 1 and then four times at
    // level 0, which triggers an automatic compaction of level 0 into level 1. The compaction
    // thread is parked at the first key of that merge.
    for round in 0..6 {
        if round == 5 {
            gate.arm();
        }
        put(&db, &mut model, vec![(b"a".to_vec(), Some(value_for(round * 3 + 1, 3000)))])
            .map_err(|error| format!("HARNESS: {error}"))?;
        put(&db, &mut model, vec![(b"z".to_vec(), Some(value_for(round * 3 + 2, 3000)))])
            .map_err(|error| format!("HARNESS: {error}"))?;
        // The memtable is over its limit now, this write rotates it
        put(&db, &mut model, vec![(b"m".to_vec(), Some(value_for(round * 3 + 3, 10)))])
            .map_err(|error| format!("HARNESS: {error}"))?;
        if round < 5 {
            quiesce(&db);
        }
    }
    gate.wait_until_parked();
    let levels: Vec<usize> = db.verif_files().iter().map(|file| file.level).collect();
    if levels != vec![0, 0, 0, 0, 1, 2] {
        return Err(format!("HARNESS: unexpected file layout {}", layout(&db)));
    }
    if db.verif_probe().has_immutable_memtable {
        return Err("HARNESS: did not expect an immutable memtable yet".to_string());
    }

    if fault == NestedFault::WalWriteWhileParked {
        let mut done = false;
        fs.ctl.set_rule(Some(Box::new(move |operation, path| {
            if !done && operation == "write" && path.to_string_lossy().contains("/wal/") {
                done = true;
                return true;
            }
            false
        })));
        if put(&db, &mut model, vec![(b"q".to_vec(), Some(b"fails".to_vec()))]).is_ok() {
            return Err("a write whose WAL append failed returned Ok".to_string());
        }
        let fired = fs.ctl.fired();
        gate.release();
        quiesce(&db);
        check_reads(&db, &model, true, "while the database is still open")?;
        drop(_handler_guard);
        let db = Arc::try_unwrap(db).map_err(|_| "HARNESS: the database is still shared".to_string())?;
        drop(db);
        fs.ctl.set_rule(None);
        return match DB::open(options(&fs, config)) {
            Err(error) => Err(format!("reopening after the fault ({fired:?}) failed: `{error}`")),
            Ok(db) => check_final(&db, &model, "after the fault-free reopen").map(|_| 0),
        };
    }

    // While the table compaction is in flight: two acknowledged writes. The first one has keys
    // of 20 KiB, the second one rotates the memtable (there is an immutable memtable now).
    // (They sort before and after the other key of that memtable, "m", so both end up in the
    // manifest record of the flush as the smallest and the largest key of the new table.)
    let key_length = if big_keys { 20 * 1024 } else { 20 };
    let big_key_1 = [b"big-".to_vec(), vec![b'k'; key_length]].concat();
    let big_key_2 = [b"y-big-".to_vec(), vec![b'k'; key_length]].concat();
    put(
        &db,
        &mut model,
        vec![
            (big_key_1.clone(), Some(value_for(101, if big_keys { 13 } else { 3000 }))),
            (big_key_2.clone(), Some(value_for(102, if big_keys { 13 } else { 3000 }))),
        ],
    )
    .map_err(|error| format!("HARNESS: the write of the big keys failed: {error}"))?;
    put(&db, &mut model, vec![(b"n".to_vec(), Some(b"rotates the memtable".to_vec()))])
        .map_err(|error| format!("HARNESS: the rotating write failed: {error}"))?;
    if !db.verif_probe().has_immutable_memtable {
        return Err("HARNESS: expected an immutable memtable".to_string());
    }

    // The fault: the next manifest record (the flush of the immutable memtable, ~40 KiB because it
    // names the smallest and the largest key of the new table) takes two physical writes. The
    // second one fails, once.
    if second_manifest_write_fails {
        let mut manifest_writes = 0;
        fs.ctl.set_rule(Some(Box::new(move |operation, path| {
            if operation == "write" && path.to_string_lossy().contains("MANIFEST") {
                manifest_writes += 1;
                return manifest_writes == 2;
            }
            false
        })));
    }
    let calls_after_release = Arc::new(AtomicUsize::new(0));
    if !second_manifest_write_fails {
        let calls_after_release = Arc::clone(&calls_after_release);
        fs.ctl.set_rule(Some(Box::new(move |operation, _path| {
            if operation == "read" {
                return false;
            }
            let index = calls_after_release.fetch_add(1, Ordering::SeqCst);
            match fault {
                NestedFault::Nth { n, sticky: true } => index >= n,
                NestedFault::Nth { n, sticky: false } => index == n,
                _ => false,
            }
        })));
    }

    gate.release();
    quiesce(&db);

    let fired = fs.ctl.fired();
    if second_manifest_write_fails && fired.len() != 1 {
        return Err(format!("HARNESS: expected exactly one injected fault, got {fired:?}"));
    }
    let calls_after_release = calls_after_release.load(Ordering::SeqCst);
    if verbose {
        let probe = db.verif_probe();
        eprintln!(
            "  injected: {fired:?}\n  sticky error: {:?}\n  immutable memtable left: {}\n  \
            layout: {}",
            probe.bad_state,
            probe.has_immutable_memtable,
            layout(&db)
        );
        for path in fs.all_files() {
            if path.to_string_lossy().contains("MANIFEST") {
                eprintln!("  {}: {}", path.display(), log_fragments(&fs, &path));
            }
        }
    }

    // A later write either fails or takes effect
    let _ = put(&db, &mut model, vec![(b"late".to_vec(), Some(b"late value".to_vec()))]);
    // The single fault is over, reads must be right already
    check_reads(&db, &model, true, "while the database is still open")?;

    let db = Arc::try_unwrap(db).map_err(|_| "HARNESS: the database is still shared".to_string())?;
    drop(db);
    fs.ctl.set_rule(None);

    match DB::open(options(&fs, config)) {
        Err(error) => Err(format!(
            "after the fault ({:?}) was gone the database cannot be reopened anymore: `{error}`. \
            The property requires that it opens and contains every write that returned Ok ({} \
            keys were acknowledged, among them the two keys written during the compaction).",
            fired.first(),
            model.keys.len()
        )),
        Ok(db) => check_final(&db, &model, "after the fault-free reopen").map(|_| calls_after_release),
    }
}

/// Control experiment: the schedule of the demonstration without any fault.
#[test]
fn control_flush_inside_compaction_without_fault() {
    let _serial = serial();
    for big_keys in [false, true] {
        if let Err(message) = flush_inside_compaction(NestedFault::None, big_keys, true) {
            panic!("{message}");
        }
    }
}

fn sweep_flush_inside_compaction(big_keys: bool) {
    let calls = flush_inside_compaction(NestedFault::None, big_keys, false)
        .unwrap_or_else(|message| panic!("HARNESS: {message}"));
    eprintln!("flush inside compaction: {calls} eligible calls after the release");
    let mut failures = vec![];
    for sticky in [false, true] {
        for n in 0..calls + 5 {
            if let Err(message) =
                flush_inside_compaction(NestedFault::Nth { n, sticky }, big_keys, false)
            {
                failures.push(format!("n={n} sticky={sticky}: {message}"));
            }
        }
    }
    assert!(
        failures.is_empty(),
        "{} fault positions violate the property:\n{}",
        failures.len(),
        failures.iter().take(8).cloned().collect::<Vec<_>>().join("\n")
    );
}

/// Every single fault (transient and sticky) while a flush runs inside a table compaction. With
/// short keys every manifest record is a single fragment, so a manifest append fails cleanly.
#[test]
fn sweep_flush_inside_compaction_short_keys() {
    let _serial = serial();
    sweep_flush_inside_compaction(false);
}

/// A foreground write fails while an automatic table compaction is in flight.
#[test]
fn wal_append_fails_during_automatic_compaction() {
    let _serial = serial();
    if let Err(message) = flush_inside_compaction(NestedFault::WalWriteWhileParked, false, false) {
        panic!("{message}");
    }
}

/// The same with 20 KiB keys: the manifest record of the flush takes two fragments.
/// DEMONSTRATION (the generalisation of the next test to all fault positions).
#[test]
fn sweep_flush_inside_compaction_long_keys() {
    let _serial = serial();
    sweep_flush_inside_compaction(true);
}

/// DEMONSTRATION. A single transient failure of a manifest append makes the database unopenable.
#[test]
fn demo_manifest_append_fails_half_way_during_flush_inside_compaction() {
    let _serial = serial();
    if let Err(message) = flush_inside_compaction(NestedFault::SecondManifestWrite, true, true) {
        panic!("{message}");
    }
}

// ---------------------------------------------------------------------------------------------
// Attack 3: a foreground write fails (WAL append) while a manual compaction is in flight
// ---------------------------------------------------------------------------------------------

fn wal_failure_during_manual_compaction(wal_write_fails: bool) -> Result<(), String> {
    let config = Config {
        max_memtable_size: 4096,
        max_file_size: 2 * 1024 * 1024,
        max_block_size: 4096,
        reuse_log_files: true,
    };
    let fs = Arc::new(FaultFs::new());
    let gate = Gate::new("compact.step");
    raindb::verif::set_handler(Some(Arc::clone(&gate) as Arc<dyn raindb::verif::Handler>));

    let mut model = Model::default();
    let db = Arc::new(DB::open(options(&fs, config)).map_err(|error| format!("HARNESS: {error}"))?);
    // Declared after `db`: dropped before it, so that closing never waits for a parked thread
    let _handler_guard = HandlerGuard(Arc::clone(&gate));
    let put = |db: &DB, model: &mut Model, key: &[u8], value: Vec<u8>| -> Result<(), RainDBError> {
        let result = db.put(WriteOptions::default(), key.to_vec(), value.clone());
        model.record(&[(key.to_vec(), Some(value))], result.is_ok());
        result
    };

    // Three flushes of the same key range: they land at level 2, level 1 and level 0
    for round in 0..3 {
        put(&db, &mut model, b"a", value_for(round * 3 + 1, 3000)).map_err(|e| format!("HARNESS: {e}"))?;
        put(&db, &mut model, b"z", value_for(round * 3 + 2, 3000)).map_err(|e| format!("HARNESS: {e}"))?;
        // The memtable is over its limit now, this write rotates it
        put(&db, &mut model, b"m", value_for(round * 3 + 3, 10)).map_err(|e| format!("HARNESS: {e}"))?;
        quiesce(&db);
    }
    let levels: Vec<usize> = db.verif_files().iter().map(|file| file.level).collect();
    if levels != vec![0, 1, 2] {
        return Err(format!("HARNESS: unexpected file layout {}", layout(&db)));
    }

    // compact_range: flushes the memtable, then merges level 0 into level 1 as a manual
    // compaction. The compaction thread is parked at the first key of that merge.
    gate.arm();
    let compactor = {
        let db = Arc::clone(&db);
        std::thread::spawn(move || db.compact_range(None..None))
    };
    gate.wait_until_parked();

    // The fault: one append to the write-ahead log fails. The write must report it.
    if wal_write_fails {
        let mut done = false;
        fs.ctl.set_rule(Some(Box::new(move |operation, path| {
            if !done && operation == "write" && path.to_string_lossy().contains("/wal/") {
                done = true;
                return true;
            }
            false
        })));
    }
    let result = put(&db, &mut model, b"q", b"written during the manual compaction".to_vec());
    if wal_write_fails && result.is_ok() {
        return Err("a write whose WAL append failed returned Ok".to_string());
    }
    let fired = fs.ctl.fired();

    if wal_write_fails {
        // The sticky error wakes up compact_range, which gives up (that is fine)
        compactor.join().map_err(|_| "HARNESS: compact_range panicked".to_string())?;
        gate.release();
    } else {
        gate.release();
        compactor.join().map_err(|_| "HARNESS: compact_range panicked".to_string())?;
    }

    // Close the database. This is an API call as well: it has to return.
    let db = Arc::try_unwrap(db).map_err(|_| "HARNESS: the database is still shared".to_string())?;
    let (closed_sender, closed_receiver) = std::sync::mpsc::channel();
    std::thread::spawn(move || {
        drop(db);
        let _ = closed_sender.send(());
    });
    if closed_receiver.recv_timeout(Duration::from_secs(20)).is_err() {
        return Err(format!(
            "after the single transient fault ({fired:?}) closing the database (dropping `DB`) \
            did not return within 20 s, so it can never be reopened by this process. The \
            property requires every API call to return an error or to take effect, and the \
            database to be reopenable with every acknowledged write."
        ));
    }
    fs.ctl.set_rule(None);

    match DB::open(options(&fs, config)) {
        Err(error) => Err(format!("reopening after the fault ({fired:?}) failed: `{error}`")),
        Ok(db) => check_final(&db, &model, "after the fault-free reopen"),
    }
}

/// Control experiment: the schedule of the demonstration without any fault.
#[test]
fn control_manual_compaction_without_fault() {
    let _serial = serial();
    if let Err(message) = wal_failure_during_manual_compaction(false) {
        panic!("{message}");
    }
}

/// DEMONSTRATION. A single failed WAL append during `compact_range` kills the compaction thread
/// (panic) and makes closing the database hang forever.
#[test]
fn demo_wal_append_fails_during_manual_compaction() {
    let _serial = serial();
    if let Err(message) = wal_failure_during_manual_compaction(true) {
        panic!("{message}");
    }
}

// ---------------------------------------------------------------------------------------------
// Attack 4: randomised single faults under a concurrent workload (no quiescing, three writer
// threads, so that flushes run inside compactions, writers queue up behind each other, ...).
// Exploratory: the schedules are not forced.
// ---------------------------------------------------------------------------------------------

/// One writer thread of the concurrent workload. Its keys are private to the thread.
fn racy_writer(
    db: &DB,
    thread_id: usize,
    first_op: usize,
    ops: usize,
    faults_possible: bool,
    mut model: Model,
) -> (Model, Result<(), String>) {
    for op in first_op..first_op + ops {
        let entries: Vec<(Vec<u8>, Val)> = if op % 7 == 6 {
            vec![(format!("t{thread_id}-key{:02}", (op / 7) % 8).into_bytes(), None)]
        } else if op % 11 == 10 {
            vec![
                (format!("t{thread_id}-batch{op}-a").into_bytes(), Some(value_for(op, 30))),
                (format!("t{thread_id}-batch{op}-b").into_bytes(), Some(value_for(op, 200))),
            ]
        } else {
            vec![(
                format!("t{thread_id}-key{:02}", (op * 5) % 8).into_bytes(),
                Some(value_for(op, 60 + (op % 4) * 50)),
            )]
        };
        let mut batch = Batch::new();
        for (key, value) in &entries {
            match value {
                Some(value) => batch.add_put(key.clone(), value.clone()),
                None => batch.add_delete(key.clone()),
            };
        }
        let result = db.apply(WriteOptions::default(), batch);
        model.record(&entries, result.is_ok());
        // Read own writes
        for (key, _) in &entries {
            let allowed = model.allowed(key);
            match read(db, key) {
                Ok(actual) => {
                    if !allowed.contains(&actual) {
                        return (
                            model,
                            Err(format!(
                                "thread {thread_id}, after write #{op} ({}): get({}) returned {} \
                                but the property requires one of [{}]",
                                if result.is_ok() { "Ok" } else { "Err" },
                                show_key(key),
                                show(&actual),
                                allowed.iter().map(show).collect::<Vec<_>>().join(", ")
                            )),
                        );
                    }
                }
                Err(error) => {
                    if !faults_possible {
                        return (model, Err(format!("get failed without a fault: {error}")));
                    }
                }
            }
        }
    }
    (model, Ok(()))
}

/// Returns the number of eligible calls and the verdict.
fn racy_run(config: Config, fault_index: Option<usize>, sticky: bool) -> (usize, Vec<String>, Result<(), String>) {
    let fs = Arc::new(FaultFs::new());
    let eligible = Arc::new(AtomicUsize::new(0));
    {
        let eligible = Arc::clone(&eligible);
        fs.ctl.set_rule(Some(Box::new(move |operation, _path| {
            if operation == "read" {
                return false;
            }
            let index = eligible.fetch_add(1, Ordering::SeqCst);
            match fault_index {
                None => false,
                Some(fault_index) if sticky => index >= fault_index,
                Some(fault_index) => index == fault_index,
            }
        })));
    }

    let mut models: Vec<Model> = vec![Model::default(); 3];
    let union = |models: &Vec<Model>| -> Model {
        let mut merged = Model::default();
        for model in models {
            merged.keys.extend(model.keys.clone());
            merged.failed_batches.extend(model.failed_batches.clone());
        }
        merged
    };
    let mut verdict: Result<(), String> = Ok(());
    // Two sessions with a restart in between
    for session in 0..2 {
        let db = match DB::open(options(&fs, config)) {
            Ok(db) => Arc::new(db),
            Err(_) => continue,
        };
        if let Err(message) = check_reads(
            &db,
            &union(&models),
            fault_index.is_some(),
            "after an open that returned Ok",
        ) {
            verdict = verdict.and(Err(message));
        }
        let handles: Vec<_> = (0..3)
            .map(|thread_id| {
                let db = Arc::clone(&db);
                let faults_possible = fault_index.is_some();
                let model = models[thread_id].clone();
                std::thread::spawn(move || {
                    racy_writer(&db, thread_id, session * 40, 40, faults_possible, model)
                })
            })
            .collect();
        for (thread_id, handle) in handles.into_iter().enumerate() {
            let (model, result) = handle.join().expect("HARNESS: a writer thread panicked");
            models[thread_id] = model;
            verdict = verdict.and(result);
        }
        // Close with a watchdog
        let db = Arc::try_unwrap(db).ok().expect("HARNESS: database still shared");
        let (closed_sender, closed_receiver) = std::sync::mpsc::channel();
        std::thread::spawn(move || {
            drop(db);
            let _ = closed_sender.send(());
        });
        if closed_receiver.recv_timeout(Duration::from_secs(60)).is_err() {
            return (
                eligible.load(Ordering::SeqCst),
                fs.ctl.fired(),
                Err("closing the database did not return within 60 s".to_string()),
            );
        }
    }

    let calls = eligible.load(Ordering::SeqCst);
    let fired = fs.ctl.fired();
    fs.ctl.set_rule(None);
    if verdict.is_ok() {
        verdict = match DB::open(options(&fs, config)) {
            Err(error) => Err(format!(
                "after the fault was gone, reopening the database failed with `{error}`"
            )),
            Ok(db) => check_final(&db, &union(&models), "after the final fault-free reopen"),
        };
    }
    (calls, fired, verdict)
}

#[test]
fn racy_random_single_faults() {
    let _serial = serial();
    let config = Config {
        max_memtable_size: 900,
        max_file_size: 1200,
        max_block_size: 256,
        reuse_log_files: true,
    };
    let (baseline_calls, _, baseline) = racy_run(config, None, false);
    if let Err(message) = baseline {
        panic!("HARNESS: the fault-free concurrent run fails: {message}");
    }
    eprintln!("racy: about {baseline_calls} eligible calls per run");

    let iterations = 1500;
    let next = Arc::new(AtomicUsize::new(0));
    let failures: Arc<Mutex<Vec<String>>> = Arc::new(Mutex::new(vec![]));
    let handles: Vec<_> = (0..6)
        .map(|_| {
            let next = Arc::clone(&next);
            let failures = Arc::clone(&failures);
            std::thread::spawn(move || loop {
                let iteration = next.fetch_add(1, Ordering::SeqCst);
                if iteration >= iterations {
                    break;
                }
                // A cheap deterministic spread of the fault positions
                let fault_index = (iteration * 7919) % baseline_calls;
                let sticky = iteration % 4 == 3;
                let config = Config {
                    reuse_log_files: iteration % 2 == 0,
                    ..config
                };
                let (_, fired, verdict) = racy_run(config, Some(fault_index), sticky);
                if let Err(message) = verdict {
                    failures.lock().unwrap().push(format!(
                        "iteration {iteration} (fault index {fault_index}, sticky={sticky}, \
                        first failed call {:?}): {message}",
                        fired.first()
                    ));
                }
            })
        })
        .collect();
    for handle in handles {
        handle.join().unwrap();
    }
    let failures = failures.lock().unwrap();
    assert!(
        failures.is_empty(),
        "{} of {iterations} randomised runs violate the property. The first ones:\n{}",
        failures.len(),
        failures.iter().take(5).cloned().collect::<Vec<_>>().join("\n")
    );
}
