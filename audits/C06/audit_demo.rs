//! Audit of the property "No reader ever observes part of a batch".
//!
//! Every test fails if and only if some snapshot, iterator or sequence-consistent read saw a state
//! in which a batch was applied partially (some of its operations visible and others not).
//!
//! Run with `cargo test --offline --features verif --test audit_demo -- --test-threads=1`.
//! (The tests serialize themselves through a global lock because the verification handler is
//! process wide, so `--test-threads=1` is not strictly needed.)

#![cfg(feature = "verif")]

use std::collections::{BTreeMap, HashMap, HashSet};
use std::sync::atomic::{AtomicBool, AtomicU64, Ordering};
use std::sync::{Arc, Condvar, Mutex, MutexGuard};
use std::thread::{self, JoinHandle};
use std::time::{Duration, Instant};

use raindb::fs::{FileSystem, InMemoryFileSystem};
use raindb::verif::{self, Handler};
use raindb::{Batch, DbOptions, RainDBError, RainDbIterator, ReadOptions, Snapshot, WriteOptions, DB};

// ---------------------------------------------------------------------------------------------
// Common helpers
// ---------------------------------------------------------------------------------------------

static SERIAL: Mutex<()> = Mutex::new(());

fn serialize_tests() -> MutexGuard<'static, ()> {
    match SERIAL.lock() {
        Ok(guard) => guard,
        Err(poisoned) => poisoned.into_inner(),
    }
}

/// Removes the handler when a test ends (also when it panics), and releases parked threads.
struct HandlerGuard(Option<Arc<Stepper>>);

impl Drop for HandlerGuard {
    fn drop(&mut self) {
        if let Some(stepper) = self.0.as_ref() {
            stepper.release_everything();
        }
        verif::set_handler(None);
    }
}

type State = BTreeMap<Vec<u8>, Vec<u8>>;

/// The client iterator type cannot be named outside of the crate.
type DbIter = Box<dyn RainDbIterator<Key = Vec<u8>, Error = RainDBError>>;

fn new_iter(db: &DB, read_options: ReadOptions) -> DbIter {
    Box::new(db.new_iterator(read_options).unwrap())
}

fn options(
    fs: Arc<dyn FileSystem>,
    path: &str,
    max_memtable_size: usize,
    max_file_size: u64,
    max_block_size: usize,
) -> DbOptions {
    DbOptions {
        db_path: path.to_string(),
        max_memtable_size,
        max_file_size,
        max_block_size,
        filesystem_provider: fs,
        create_if_missing: true,
        ..DbOptions::default()
    }
}

fn read_opts(snapshot: Option<&Snapshot>) -> ReadOptions {
    ReadOptions {
        fill_cache: true,
        snapshot: snapshot.cloned(),
    }
}

/// Scan forward over everything the iterator can see.
fn scan_forward(iter: &mut DbIter) -> Result<State, String> {
    let mut state = State::new();
    iter.seek_to_first().map_err(|err| err.to_string())?;
    while iter.is_valid() {
        let (key, value) = iter.current().unwrap();
        if state.insert(key.clone(), value.clone()).is_some() {
            return Err(format!(
                "forward scan yielded user key {:?} twice",
                String::from_utf8_lossy(key)
            ));
        }
        iter.next();
    }
    if let Some(err) = iter.status() {
        return Err(format!("iterator status after forward scan: {err}"));
    }

    Ok(state)
}

/// Scan backward over everything the iterator can see.
fn scan_backward(iter: &mut DbIter) -> Result<State, String> {
    let mut state = State::new();
    iter.seek_to_last().map_err(|err| err.to_string())?;
    while iter.is_valid() {
        let (key, value) = iter.current().unwrap();
        if state.insert(key.clone(), value.clone()).is_some() {
            return Err(format!(
                "backward scan yielded user key {:?} twice",
                String::from_utf8_lossy(key)
            ));
        }
        iter.prev();
    }
    if let Some(err) = iter.status() {
        return Err(format!("iterator status after backward scan: {err}"));
    }

    Ok(state)
}

/// Read the provided keys one by one at the provided snapshot.
fn snapshot_gets(db: &DB, snapshot: &Snapshot, keys: &[Vec<u8>]) -> Result<State, String> {
    let mut state = State::new();
    for key in keys {
        match db.get(read_opts(Some(snapshot)), key) {
            Ok(value) => {
                state.insert(key.clone(), value);
            }
            Err(RainDBError::KeyNotFound) => {}
            Err(err) => return Err(format!("get failed: {err}")),
        }
    }

    Ok(state)
}

fn show(state: &State) -> String {
    let mut out = String::from("{");
    for (key, value) in state {
        let shown = String::from_utf8_lossy(value);
        let shown: String = shown.chars().take(12).collect();
        out.push_str(&format!("{}={} ", String::from_utf8_lossy(key), shown));
    }
    out.push('}');
    out
}

/// One batch together with the state of its keys before it is applied.
#[derive(Clone)]
struct BatchSpec {
    name: String,
    /// The expected value of every key touched by the batch before the batch (None = absent).
    pre: BTreeMap<Vec<u8>, Option<Vec<u8>>>,
    /// The expected value of every key touched by the batch after the batch (None = absent).
    post: BTreeMap<Vec<u8>, Option<Vec<u8>>>,
    /// The operations in order: (key, Some(value)) is a put and (key, None) a delete.
    ops: Vec<(Vec<u8>, Option<Vec<u8>>)>,
}

impl BatchSpec {
    fn new(name: &str, base: &State, ops: Vec<(Vec<u8>, Option<Vec<u8>>)>) -> Self {
        let mut pre = BTreeMap::new();
        let mut post = BTreeMap::new();
        for (key, value) in &ops {
            pre.entry(key.clone())
                .or_insert_with(|| base.get(key).cloned());
            post.insert(key.clone(), value.clone());
        }
        for (key, value) in &post {
            assert_ne!(
                pre.get(key).unwrap(),
                value,
                "harness: the batch must change every key it touches"
            );
        }

        Self {
            name: name.to_string(),
            pre,
            post,
            ops,
        }
    }

    fn to_batch(&self) -> Batch {
        let mut batch = Batch::new();
        for (key, value) in &self.ops {
            match value {
                Some(value) => batch.add_put(key.clone(), value.clone()),
                None => batch.add_delete(key.clone()),
            };
        }
        batch
    }

    fn apply_to(&self, state: &mut State) {
        for (key, value) in &self.post {
            match value {
                Some(value) => {
                    state.insert(key.clone(), value.clone());
                }
                None => {
                    state.remove(key);
                }
            }
        }
    }
}

#[derive(Debug, PartialEq, Eq, Clone, Copy)]
enum Visibility {
    None,
    All,
}

/// Classify an observed state with regard to one batch. `Err` describes a partial observation.
fn classify(spec: &BatchSpec, observed: &State) -> Result<Visibility, String> {
    let mut as_pre: Vec<String> = vec![];
    let mut as_post: Vec<String> = vec![];
    let mut other: Vec<String> = vec![];
    for key in spec.post.keys() {
        let seen = observed.get(key).cloned();
        let shown_key = String::from_utf8_lossy(key).to_string();
        if &seen == spec.post.get(key).unwrap() {
            as_post.push(shown_key);
        } else if &seen == spec.pre.get(key).unwrap() {
            as_pre.push(shown_key);
        } else {
            other.push(format!(
                "{shown_key}={:?}",
                seen.map(|v| String::from_utf8_lossy(&v).chars().take(12).collect::<String>())
            ));
        }
    }

    if !other.is_empty() {
        return Err(format!(
            "batch {}: keys with a value that is neither the one before nor the one after the \
             batch: {:?}",
            spec.name, other
        ));
    }
    if as_pre.is_empty() {
        return Ok(Visibility::All);
    }
    if as_post.is_empty() {
        return Ok(Visibility::None);
    }

    Err(format!(
        "PARTIAL BATCH: batch {} is visible on keys {:?} but not on keys {:?}; the property \
         requires all or none",
        spec.name, as_post, as_pre
    ))
}

// ---------------------------------------------------------------------------------------------
// A handler that parks named threads at chosen scheduling points
// ---------------------------------------------------------------------------------------------

#[derive(Default)]
struct Slot {
    stops: HashSet<&'static str>,
    parked: Option<(&'static str, Vec<u64>)>,
    go: bool,
}

#[derive(Default)]
struct StepState {
    slots: HashMap<String, Slot>,
    notes: Vec<(String, &'static str, Vec<u64>)>,
    free_run: bool,
}

#[derive(Default)]
struct Stepper {
    state: Mutex<StepState>,
    cv: Condvar,
}

impl Stepper {
    fn set_stops(&self, thread_name: &str, stops: &[&'static str]) {
        let mut state = self.state.lock().unwrap();
        let slot = state.slots.entry(thread_name.to_string()).or_default();
        slot.stops = stops.iter().copied().collect();
    }

    /// Wait until the thread is parked. Returns the point and its arguments.
    fn wait_parked(&self, thread_name: &str, timeout: Duration) -> Option<(&'static str, Vec<u64>)> {
        let deadline = Instant::now() + timeout;
        let mut state = self.state.lock().unwrap();
        loop {
            if let Some(slot) = state.slots.get(thread_name) {
                if let Some(parked) = slot.parked.as_ref() {
                    return Some(parked.clone());
                }
            }
            let now = Instant::now();
            if now >= deadline {
                return None;
            }
            let (guard, _) = self
                .cv
                .wait_timeout(state, (deadline - now).min(Duration::from_millis(20)))
                .unwrap();
            state = guard;
        }
    }

    /// Wait until one of the threads is parked. Returns its name, the point and its arguments.
    fn wait_any_parked(
        &self,
        thread_names: &[&str],
        timeout: Duration,
    ) -> Option<(String, &'static str, Vec<u64>)> {
        let deadline = Instant::now() + timeout;
        let mut state = self.state.lock().unwrap();
        loop {
            for name in thread_names {
                if let Some(slot) = state.slots.get(*name) {
                    if let Some((point, args)) = slot.parked.as_ref() {
                        return Some((name.to_string(), *point, args.clone()));
                    }
                }
            }
            let now = Instant::now();
            if now >= deadline {
                return None;
            }
            let (guard, _) = self
                .cv
                .wait_timeout(state, (deadline - now).min(Duration::from_millis(20)))
                .unwrap();
            state = guard;
        }
    }

    /// Wait until the thread is parked or its join handle reports that it finished.
    fn wait_parked_or_finished<T>(
        &self,
        thread_name: &str,
        handle: &JoinHandle<T>,
        timeout: Duration,
    ) -> Option<(&'static str, Vec<u64>)> {
        let deadline = Instant::now() + timeout;
        loop {
            if let Some(parked) = self.wait_parked(thread_name, Duration::from_millis(20)) {
                return Some(parked);
            }
            if handle.is_finished() {
                return None;
            }
            assert!(
                Instant::now() < deadline,
                "harness: thread {thread_name} neither parked nor finished in time"
            );
        }
    }

    fn release(&self, thread_name: &str) {
        let mut state = self.state.lock().unwrap();
        if let Some(slot) = state.slots.get_mut(thread_name) {
            slot.parked = None;
            slot.go = true;
        }
        self.cv.notify_all();
    }

    fn release_everything(&self) {
        let mut state = self.state.lock().unwrap();
        state.free_run = true;
        for slot in state.slots.values_mut() {
            slot.stops.clear();
            slot.parked = None;
            slot.go = true;
        }
        self.cv.notify_all();
    }

    fn notes(&self) -> Vec<(String, &'static str, Vec<u64>)> {
        self.state.lock().unwrap().notes.clone()
    }
}

impl Handler for Stepper {
    fn pause(&self, point: &'static str, args: &[u64]) {
        let name = thread::current().name().unwrap_or("").to_string();
        let mut state = self.state.lock().unwrap();
        if state.free_run {
            return;
        }
        let should_stop = state
            .slots
            .get(&name)
            .map_or(false, |slot| slot.stops.contains(point));
        if !should_stop {
            return;
        }

        {
            let slot = state.slots.get_mut(&name).unwrap();
            slot.parked = Some((point, args.to_vec()));
            slot.go = false;
        }
        self.cv.notify_all();
        loop {
            if state.free_run {
                break;
            }
            match state.slots.get(&name) {
                Some(slot) if !slot.go => {}
                _ => break,
            }
            state = self.cv.wait(state).unwrap();
        }
        if let Some(slot) = state.slots.get_mut(&name) {
            slot.parked = None;
        }
    }

    fn note(&self, point: &'static str, args: &[u64]) {
        let name = thread::current().name().unwrap_or("").to_string();
        if let Ok(mut state) = self.state.lock() {
            state.notes.push((name, point, args.to_vec()));
        }
    }
}

const WRITE_POINTS: &[&str] = &[
    "write.before_wal",
    "write.after_wal",
    "write.mem_insert",
    "write.after_mem",
];

const COMPACTION_THREAD: &str = "raindb-tumtum";

/// Everything a reader can do at one instant, checked against a set of batches.
struct Observer<'a> {
    db: &'a DB,
    keys: Vec<Vec<u8>>,
    /// Iterators and snapshots taken at earlier instants together with what they showed.
    kept_iters: Vec<(String, DbIter, State)>,
    kept_snapshots: Vec<(String, Snapshot, State)>,
    failures: Vec<String>,
}

impl<'a> Observer<'a> {
    fn new(db: &'a DB, keys: Vec<Vec<u8>>) -> Self {
        Self {
            db,
            keys,
            kept_iters: vec![],
            kept_snapshots: vec![],
            failures: vec![],
        }
    }

    fn check(&mut self, what: &str, observed: &State, specs: &[&BatchSpec]) -> Vec<Visibility> {
        let mut result = vec![];
        for spec in specs {
            match classify(spec, observed) {
                Ok(visibility) => result.push(visibility),
                Err(problem) => {
                    self.failures
                        .push(format!("[{what}] {problem}; observed {}", show(observed)));
                    result.push(Visibility::None);
                }
            }
        }
        result
    }

    /// Take a fresh snapshot, fresh iterators and check all of them as well as all kept readers.
    fn observe(&mut self, instant: &str, specs: &[&BatchSpec], keep: bool) {
        // A fresh snapshot, read with point lookups and with an iterator
        let snapshot = self.db.get_snapshot();
        match snapshot_gets(self.db, &snapshot, &self.keys) {
            Ok(by_gets) => {
                self.check(&format!("{instant}: snapshot gets"), &by_gets, specs);
                let mut snap_iter = new_iter(self.db, read_opts(Some(&snapshot)));
                match scan_forward(&mut snap_iter) {
                    Ok(by_iter) => {
                        // The point lookups only cover the observer's keys
                        let by_iter: State = by_iter
                            .into_iter()
                            .filter(|(key, _)| self.keys.contains(key))
                            .collect();
                        if by_iter != by_gets {
                            self.failures.push(format!(
                                "[{instant}] an iterator and point lookups at the same snapshot \
                                 disagree: iterator {} lookups {}",
                                show(&by_iter),
                                show(&by_gets)
                            ));
                        }
                    }
                    Err(err) => self.failures.push(format!("[{instant}] {err}")),
                }
                if keep {
                    self.kept_snapshots
                        .push((instant.to_string(), snapshot, by_gets));
                } else {
                    self.db.release_snapshot(snapshot);
                }
            }
            Err(err) => self.failures.push(format!("[{instant}] {err}")),
        }

        // A fresh iterator without explicit snapshot, scanned in both directions
        let mut iter = new_iter(self.db, ReadOptions::default());
        match (scan_forward(&mut iter), scan_backward(&mut iter)) {
            (Ok(forward), Ok(backward)) => {
                self.check(&format!("{instant}: iterator forward"), &forward, specs);
                self.check(&format!("{instant}: iterator backward"), &backward, specs);
                if forward != backward {
                    self.failures.push(format!(
                        "[{instant}] forward and backward scan of one iterator disagree: {} vs {}",
                        show(&forward),
                        show(&backward)
                    ));
                }
                if keep {
                    self.kept_iters.push((instant.to_string(), iter, forward));
                }
            }
            (Err(err), _) | (_, Err(err)) => self.failures.push(format!("[{instant}] {err}")),
        }

        self.recheck_kept(instant, specs);
    }

    /// Readers created earlier must keep showing exactly what they showed when they were created
    /// (that first view was checked to be all-or-nothing for the batch in flight at that time).
    fn recheck_kept(&mut self, instant: &str, specs: &[&BatchSpec]) {
        let mut problems = vec![];
        for (created_at, iter, first_view) in self.kept_iters.iter_mut() {
            for direction in 0..2 {
                let scanned = if direction == 0 {
                    scan_forward(iter)
                } else {
                    scan_backward(iter)
                };
                match scanned {
                    Ok(view) => {
                        if &view != first_view {
                            let partial: Vec<String> = specs
                                .iter()
                                .filter_map(|spec| classify(spec, &view).err())
                                .collect();
                            problems.push(format!(
                                "[{instant}] the iterator created at {created_at} changed its view \
                                 (direction {direction}) from {} to {}; {partial:?}",
                                show(first_view),
                                show(&view)
                            ));
                        }
                    }
                    Err(err) => problems.push(format!("[{instant}] {err}")),
                }
            }
        }
        for (created_at, snapshot, first_view) in self.kept_snapshots.iter() {
            match snapshot_gets(self.db, snapshot, &self.keys) {
                Ok(view) => {
                    if &view != first_view {
                        let partial: Vec<String> = specs
                            .iter()
                            .filter_map(|spec| classify(spec, &view).err())
                            .collect();
                        problems.push(format!(
                            "[{instant}] the snapshot taken at {created_at} changed its view from \
                             {} to {}; {partial:?}",
                            show(first_view),
                            show(&view)
                        ));
                    }
                    let mut snap_iter = new_iter(self.db, read_opts(Some(snapshot)));
                    match scan_backward(&mut snap_iter) {
                        Ok(by_iter) => {
                            if &by_iter != first_view {
                                problems.push(format!(
                                    "[{instant}] a new iterator at the snapshot taken at \
                                     {created_at} shows {} but the snapshot showed {}",
                                    show(&by_iter),
                                    show(first_view)
                                ));
                            }
                        }
                        Err(err) => problems.push(format!("[{instant}] {err}")),
                    }
                }
                Err(err) => problems.push(format!("[{instant}] {err}")),
            }
        }
        self.failures.extend(problems);
    }

    fn finish(mut self) -> Vec<String> {
        self.kept_iters.clear();
        for (_, snapshot, _) in self.kept_snapshots.drain(..) {
            self.db.release_snapshot(snapshot);
        }
        self.failures
    }
}

fn k(name: &str) -> Vec<u8> {
    name.as_bytes().to_vec()
}

fn v(name: &str, len: usize) -> Vec<u8> {
    let mut value = name.as_bytes().to_vec();
    while value.len() < len {
        value.push(b'.');
    }
    value
}

fn spawn_writer(name: &str, db: &Arc<DB>, batch: Batch) -> JoinHandle<Result<(), String>> {
    let db = Arc::clone(db);
    thread::Builder::new()
        .name(name.to_string())
        .spawn(move || {
            db.apply(WriteOptions::default(), batch)
                .map_err(|err| err.to_string())
        })
        .unwrap()
}

/// Step one writer thread through all its scheduling points, observing at every stop.
fn step_writer_to_completion(
    stepper: &Stepper,
    thread_name: &str,
    handle: JoinHandle<Result<(), String>>,
    observer: &mut Observer,
    specs: &[&BatchSpec],
    label: &str,
) {
    let mut stop_index = 0;
    while let Some((point, args)) =
        stepper.wait_parked_or_finished(thread_name, &handle, Duration::from_secs(60))
    {
        let instant = format!("{label} #{stop_index} {point}{args:?}");
        observer.observe(&instant, specs, stop_index % 3 == 0);
        stepper.release(thread_name);
        stop_index += 1;
    }
    handle.join().unwrap().unwrap();
}

// ---------------------------------------------------------------------------------------------
// Attack 1: one writer parked at every point of the write path
// ---------------------------------------------------------------------------------------------

#[test]
fn a1_single_writer_every_pause_point() {
    let _serial = serialize_tests();
    let stepper = Arc::new(Stepper::default());
    verif::set_handler(Some(stepper.clone()));
    let _guard = HandlerGuard(Some(stepper.clone()));

    let fs: Arc<dyn FileSystem> = Arc::new(InMemoryFileSystem::new());
    let db = Arc::new(DB::open(options(fs, "a1", 4 << 20, 2 << 20, 4096)).unwrap());

    // Old contents
    let mut base = State::new();
    let mut old = Batch::new();
    for idx in 0..8 {
        let key = k(&format!("key{idx}"));
        old.add_put(key.clone(), v("old", 10));
        base.insert(key, v("old", 10));
    }
    db.apply(WriteOptions::default(), old).unwrap();

    let mut keys: Vec<Vec<u8>> = (0..10).map(|idx| k(&format!("key{idx}"))).collect();
    keys.push(k(""));
    keys.push(vec![0xff, 0xff]);

    // The batch: overwrites, deletions, new keys, a key written several times, an empty key and
    // a key of 0xff bytes
    let ops = vec![
        (k("key0"), Some(v("new", 10))),
        (k("key1"), Some(v("junk", 10))),
        (k("key1"), None),
        (k("key1"), Some(v("new", 10))),
        (k("key2"), None),
        (k("key3"), Some(v("new", 3000))),
        (k("key9"), Some(v("new", 10))),
        (k(""), Some(v("new", 10))),
        (vec![0xff, 0xff], Some(v("new", 10))),
        (k("key7"), Some(v("junk", 10))),
        (k("key7"), None),
        (k("key8"), Some(v("new", 0))),
        (k("key8"), Some(v("new", 10))),
    ];
    let spec = BatchSpec::new("B", &base, ops);

    let mut observer = Observer::new(&db, keys);
    observer.observe("before the batch", &[&spec], true);

    stepper.set_stops("w-a1", WRITE_POINTS);
    let handle = spawn_writer("w-a1", &db, spec.to_batch());
    step_writer_to_completion(&stepper, "w-a1", handle, &mut observer, &[&spec], "B");

    // After apply returned every fresh reader must see the whole batch
    let mut after = base.clone();
    spec.apply_to(&mut after);
    let mut iter = new_iter(&db, ReadOptions::default());
    let view = scan_forward(&mut iter).unwrap();
    drop(iter);
    observer.observe("after the batch", &[&spec], false);
    let mut failures = observer.finish();
    if view != after {
        failures.push(format!(
            "after apply returned the database shows {} instead of {}",
            show(&view),
            show(&after)
        ));
    }

    assert!(
        failures.is_empty(),
        "{} violations:\n{}",
        failures.len(),
        failures.join("\n")
    );
}

// ---------------------------------------------------------------------------------------------
// Attack 2: group commit. Followers queue behind a parked leader and are merged.
// ---------------------------------------------------------------------------------------------

#[test]
fn a2_group_commit_every_pause_point() {
    let _serial = serialize_tests();
    group_commit_scenario("a2", 4 << 20, 8, false);
}

/// The same with a memtable budget that every batch exceeds: the leader of the merged group
/// rotates the memtable first, and the flush of the previous memtable is stepped through while
/// the merged group is inserted.
#[test]
fn a7_group_commit_across_rotation_and_flush() {
    let _serial = serialize_tests();
    group_commit_scenario("a7", 1024, 400, true);
}

fn group_commit_scenario(label: &str, max_memtable_size: usize, value_len: usize, step_flush: bool) {
    let stepper = Arc::new(Stepper::default());
    verif::set_handler(Some(stepper.clone()));
    let _guard = HandlerGuard(Some(stepper.clone()));

    let fs: Arc<dyn FileSystem> = Arc::new(InMemoryFileSystem::new());
    let db = Arc::new(DB::open(options(fs, label, max_memtable_size, 2048, 256)).unwrap());

    let mut base = State::new();
    let mut old = Batch::new();
    let mut keys = vec![];
    for writer in 0..4 {
        for idx in 0..5 {
            let key = k(&format!("k{idx}-w{writer}"));
            keys.push(key.clone());
            if idx < 4 {
                old.add_put(key.clone(), v("old", value_len));
                base.insert(key, v("old", value_len));
            }
        }
    }
    db.apply(WriteOptions::default(), old).unwrap();

    let make_spec = |writer: usize| {
        let mut ops = vec![];
        for idx in 0..5 {
            let key = k(&format!("k{idx}-w{writer}"));
            if idx == 2 {
                ops.push((key, None));
            } else {
                ops.push((key, Some(v(&format!("new{writer}"), value_len + writer))));
            }
        }
        BatchSpec::new(&format!("W{writer}"), &base, ops)
    };
    let specs: Vec<BatchSpec> = (0..4).map(make_spec).collect();
    let spec_refs: Vec<&BatchSpec> = specs.iter().collect();

    let mut observer = Observer::new(&db, keys);

    // The leader parks before the WAL append, the others queue up behind it
    let names = ["w0", "w1", "w2", "w3"];
    for name in names {
        stepper.set_stops(name, WRITE_POINTS);
    }
    if step_flush {
        stepper.set_stops(COMPACTION_THREAD, FLUSH_POINTS);
    }
    let mut flush_stops = 0;
    let mut handles: HashMap<String, JoinHandle<Result<(), String>>> = HashMap::new();
    handles.insert(
        "w0".to_string(),
        spawn_writer("w0", &db, specs[0].to_batch()),
    );
    let (point, args) = stepper
        .wait_parked("w0", Duration::from_secs(60))
        .expect("leader parks");
    assert_eq!(point, "write.before_wal");
    assert_eq!(args[1], 5);
    for writer in 1..4 {
        handles.insert(
            names[writer].to_string(),
            spawn_writer(names[writer], &db, specs[writer].to_batch()),
        );
    }
    // Give the followers time to enqueue. They block on the writer queue, not at a hook.
    thread::sleep(Duration::from_millis(500));

    let mut merged_group_seen = false;
    let mut stop_index = 0;
    loop {
        let still_running: Vec<&str> = names
            .iter()
            .copied()
            .filter(|name| !handles.get(*name).unwrap().is_finished())
            .collect();
        if still_running.is_empty() {
            break;
        }
        match stepper.wait_any_parked(&still_running, Duration::from_millis(200)) {
            Some((name, point, args)) => {
                if point == "write.before_wal" && args[1] == 15 {
                    merged_group_seen = true;
                }
                let instant = format!("group #{stop_index} {name} {point}{args:?}");
                observer.observe(&instant, &spec_refs, stop_index % 4 == 0);
                stepper.release(&name);
                stop_index += 1;
            }
            None => {}
        }
        // One step of the compaction thread (if it is parked) between the steps of the writers
        if let Some((point, args)) = stepper.wait_parked(COMPACTION_THREAD, Duration::from_millis(5))
        {
            flush_stops += 1;
            let instant = format!("group #{stop_index} compaction {point}{args:?}");
            observer.observe(&instant, &spec_refs, stop_index % 4 == 0);
            stepper.release(COMPACTION_THREAD);
            stop_index += 1;
        }
    }
    if step_flush {
        assert!(
            flush_stops >= 3,
            "harness: the flush was only observed at {flush_stops} points"
        );
    }
    for (_, handle) in handles {
        handle.join().unwrap().unwrap();
    }
    assert!(
        merged_group_seen,
        "harness: the three followers were not merged into one group commit"
    );

    observer.observe("after all writers", &spec_refs, false);
    let mut after = base.clone();
    for spec in &specs {
        spec.apply_to(&mut after);
    }
    let mut iter = new_iter(&db, ReadOptions::default());
    let view = scan_forward(&mut iter).unwrap();
    drop(iter);
    let mut failures = observer.finish();
    if view != after {
        failures.push(format!(
            "after all writers returned the database shows {} instead of {}",
            show(&view),
            show(&after)
        ));
    }
    assert!(
        failures.is_empty(),
        "{} violations:\n{}",
        failures.len(),
        failures.join("\n")
    );
}

// ---------------------------------------------------------------------------------------------
// Attack 3: batches larger than the memtable budget, rotation and flush interleaved with the
// insertion of the next batch and with readers
// ---------------------------------------------------------------------------------------------

const FLUSH_POINTS: &[&str] = &[
    "flush.before_build",
    "flush.after_build",
    "manifest.before_append",
    "manifest.after_append",
    "gc.before_delete",
];

#[test]
fn a3_oversized_batches_rotation_and_flush() {
    let _serial = serialize_tests();
    let stepper = Arc::new(Stepper::default());
    verif::set_handler(Some(stepper.clone()));
    let _guard = HandlerGuard(Some(stepper.clone()));

    let fs: Arc<dyn FileSystem> = Arc::new(InMemoryFileSystem::new());
    let db = Arc::new(DB::open(options(fs, "a3", 1024, 700, 256)).unwrap());

    let num_keys = 24;
    let mut keys: Vec<Vec<u8>> = (0..num_keys).map(|idx| k(&format!("key{idx:02}"))).collect();
    // An empty key, keys of 0xff bytes and a long key take part in every batch
    keys.push(vec![]);
    keys.push(vec![0xff]);
    keys.push(vec![0xff; 9]);
    keys.push(vec![b'z'; 700]);
    let mut observer = Observer::new(&db, keys.clone());
    let mut model = State::new();
    let mut all_specs: Vec<BatchSpec> = vec![];
    let mut compaction_stops = 0;

    for round in 0..5 {
        // Every round rewrites all keys (deleting some), much more than the memtable budget
        let mut ops = vec![];
        for (idx, key) in keys.iter().enumerate() {
            if round > 0 && (idx + round) % 5 == 0 && model.contains_key(key) {
                ops.push((key.clone(), None));
            } else {
                ops.push((key.clone(), Some(v(&format!("r{round}"), 150 + round))));
            }
        }
        let spec = BatchSpec::new(&format!("R{round}"), &model, ops);
        let thread_name = format!("w-a3-{round}");
        stepper.set_stops(&thread_name, WRITE_POINTS);
        stepper.set_stops(COMPACTION_THREAD, FLUSH_POINTS);

        let handle = spawn_writer(&thread_name, &db, spec.to_batch());
        let specs: Vec<&BatchSpec> = vec![&spec];

        // Interleave: the writer makes two steps, then the compaction thread (if parked) one step
        let mut stop_index = 0;
        loop {
            let mut progressed = false;
            for _ in 0..2 {
                if let Some((point, args)) =
                    stepper.wait_parked(&thread_name, Duration::from_millis(100))
                {
                    let instant = format!("round {round} #{stop_index} writer {point}{args:?}");
                    observer.observe(&instant, &specs, stop_index % 7 == 0);
                    stepper.release(&thread_name);
                    stop_index += 1;
                    progressed = true;
                }
            }
            if let Some((point, args)) =
                stepper.wait_parked(COMPACTION_THREAD, Duration::from_millis(20))
            {
                compaction_stops += 1;
                let instant = format!("round {round} #{stop_index} compaction {point}{args:?}");
                observer.observe(&instant, &specs, stop_index % 7 == 0);
                stepper.release(COMPACTION_THREAD);
                stop_index += 1;
                progressed = true;
            }
            if handle.is_finished() && !progressed {
                break;
            }
        }
        handle.join().unwrap().unwrap();
        spec.apply_to(&mut model);
        observer.observe(&format!("round {round} done"), &specs, true);

        let mut iter = new_iter(&db, ReadOptions::default());
        let view = scan_forward(&mut iter).unwrap();
        drop(iter);
        if view != model {
            observer.failures.push(format!(
                "after round {round} the database shows {} instead of {}",
                show(&view),
                show(&model)
            ));
        }
        all_specs.push(spec);
    }

    // Let the background work drain, then look at the kept readers once more
    stepper.release_everything();
    db.compact_range(None..None);
    observer.recheck_kept("after full compaction", &[]);
    let rotations = stepper
        .notes()
        .iter()
        .filter(|(_, point, _)| *point == "mem.rotate")
        .count();
    assert!(rotations >= 3, "harness: expected memtable rotations, saw {rotations}");
    assert!(
        compaction_stops >= 8,
        "harness: the compaction thread was only observed at {compaction_stops} flush points"
    );

    let failures = observer.finish();
    assert!(
        failures.is_empty(),
        "{} violations:\n{}",
        failures.len(),
        failures.join("\n")
    );
}

// ---------------------------------------------------------------------------------------------
// Attack 4: randomized stress. Every batch sets all keys of a group to one unique value (or
// deletes all of them), so at any consistent view all keys of a group must carry the same value.
// ---------------------------------------------------------------------------------------------

struct Rng(u64);

impl Rng {
    fn next(&mut self) -> u64 {
        // xorshift64*
        self.0 ^= self.0 >> 12;
        self.0 ^= self.0 << 25;
        self.0 ^= self.0 >> 27;
        self.0.wrapping_mul(0x2545F4914F6CDD1D)
    }

    fn below(&mut self, bound: u64) -> u64 {
        self.next() % bound
    }
}

/// Perturbs schedules by yielding or sleeping at the scheduling points.
struct Jitter {
    counter: AtomicU64,
}

impl Handler for Jitter {
    fn pause(&self, _point: &'static str, _args: &[u64]) {
        let ticket = self.counter.fetch_add(0x9E3779B97F4A7C15, Ordering::Relaxed);
        let mut rng = Rng(ticket | 1);
        match rng.below(24) {
            0 => thread::sleep(Duration::from_micros(50 + rng.below(800))),
            1..=6 => thread::yield_now(),
            _ => {}
        }
    }

    fn note(&self, _point: &'static str, _args: &[u64]) {}
}

const STRESS_GROUPS: usize = 5;
const STRESS_KEYS_PER_GROUP: usize = 6;

fn stress_key(index: usize, group: usize) -> Vec<u8> {
    format!("k{index:02}-g{group}").into_bytes()
}

fn group_of(key: &[u8]) -> Option<usize> {
    let text = std::str::from_utf8(key).ok()?;
    let (_, group) = text.split_once("-g")?;
    group.parse().ok()
}

/// The identity of a value: everything before the padding.
fn value_id(value: &[u8]) -> String {
    let text = String::from_utf8_lossy(value);
    text.split('|').next().unwrap_or("").to_string()
}

/// Check that every group is uniform in the view. Returns a description of the first violation.
fn check_groups(view: &State) -> Result<(), String> {
    let mut per_group: Vec<Vec<Option<String>>> =
        vec![vec![None; STRESS_KEYS_PER_GROUP]; STRESS_GROUPS];
    for (key, value) in view {
        if let Some(group) = group_of(key) {
            let index: usize = std::str::from_utf8(&key[1..3]).unwrap().parse().unwrap();
            per_group[group][index] = Some(value_id(value));
        }
    }
    for (group, values) in per_group.iter().enumerate() {
        let first = &values[0];
        if values.iter().any(|value| value != first) {
            return Err(format!(
                "PARTIAL BATCH: the keys of group {group} carry {values:?}; every batch writes \
                 one value to (or deletes) all keys of a group, so a consistent view must show \
                 one value for all of them"
            ));
        }
    }

    Ok(())
}

fn only_group_keys(view: State) -> State {
    view.into_iter()
        .filter(|(key, _)| group_of(key).is_some())
        .collect()
}

fn stress_keys() -> Vec<Vec<u8>> {
    let mut keys = vec![];
    for group in 0..STRESS_GROUPS {
        for index in 0..STRESS_KEYS_PER_GROUP {
            keys.push(stress_key(index, group));
        }
    }
    keys
}

fn run_stress(
    label: &str,
    seed: u64,
    duration: Duration,
    max_memtable_size: usize,
    max_file_size: u64,
    max_block_size: usize,
    noise_keys: u64,
) -> Vec<String> {
    verif::set_handler(Some(Arc::new(Jitter {
        counter: AtomicU64::new(seed),
    })));
    let _guard = HandlerGuard(None);

    let (fs, db_path): (Arc<dyn FileSystem>, String) = if label.ends_with("-disk") {
        let root = std::path::PathBuf::from(env!("CARGO_MANIFEST_DIR")).join("target/audit-tmp");
        std::fs::create_dir_all(&root).unwrap();
        let tmp_fs = raindb::fs::TmpFileSystem::new(Some(&root));
        let db_path = tmp_fs.get_root_path().join(label);
        (Arc::new(tmp_fs), db_path.to_str().unwrap().to_string())
    } else {
        (Arc::new(InMemoryFileSystem::new()), label.to_string())
    };
    let db = Arc::new(
        DB::open(options(
            fs,
            &db_path,
            max_memtable_size,
            max_file_size,
            max_block_size,
        ))
        .unwrap(),
    );
    let stop = Arc::new(AtomicBool::new(false));
    let failures: Arc<Mutex<Vec<String>>> = Arc::new(Mutex::new(vec![]));
    let batches_applied = Arc::new(AtomicU64::new(0));
    let views_checked = Arc::new(AtomicU64::new(0));
    let mut threads = vec![];

    let report = |failures: &Arc<Mutex<Vec<String>>>, stop: &Arc<AtomicBool>, message: String| {
        let mut failures = failures.lock().unwrap();
        if failures.len() < 20 {
            failures.push(message);
        }
        stop.store(true, Ordering::SeqCst);
    };

    // Writers
    for writer in 0..3u64 {
        let db = Arc::clone(&db);
        let stop = Arc::clone(&stop);
        let failures = Arc::clone(&failures);
        let batches_applied = Arc::clone(&batches_applied);
        threads.push(
            thread::Builder::new()
                .name(format!("stress-writer-{writer}"))
                .spawn(move || {
                    let mut rng = Rng(seed.wrapping_mul(31).wrapping_add(writer + 1) | 1);
                    let mut counter = 0u64;
                    while !stop.load(Ordering::Relaxed) {
                        counter += 1;
                        let mut batch = Batch::new();
                        let num_groups = if rng.below(5) == 0 { 2 } else { 1 };
                        let first_group = rng.below(STRESS_GROUPS as u64) as usize;
                        for offset in 0..num_groups {
                            let group = (first_group + offset) % STRESS_GROUPS;
                            let id = format!("w{writer}:{counter}:{group}");
                            let padding = match rng.below(20) {
                                0 => 3000 + rng.below(3000) as usize,
                                1..=5 => 0,
                                _ => rng.below(300) as usize,
                            };
                            let mut value = format!("{id}|").into_bytes();
                            value.extend(std::iter::repeat(b'x').take(padding));
                            let kind = rng.below(10);
                            let mut order: Vec<usize> = (0..STRESS_KEYS_PER_GROUP).collect();
                            // Shuffle the order in which the keys are written
                            for idx in (1..order.len()).rev() {
                                order.swap(idx, rng.below(idx as u64 + 1) as usize);
                            }
                            for index in order {
                                let key = stress_key(index, group);
                                match kind {
                                    0 | 1 => {
                                        batch.add_delete(key);
                                    }
                                    2 => {
                                        batch.add_put(key.clone(), b"junk|".to_vec());
                                        batch.add_delete(key.clone());
                                        batch.add_put(key, value.clone());
                                    }
                                    _ => {
                                        batch.add_put(key, value.clone());
                                    }
                                }
                            }
                        }
                        if let Err(err) = db.apply(WriteOptions::default(), batch) {
                            let mut failures = failures.lock().unwrap();
                            failures.push(format!("harness: apply failed: {err}"));
                            stop.store(true, Ordering::SeqCst);
                            break;
                        }
                        batches_applied.fetch_add(1, Ordering::Relaxed);
                        if rng.below(8) == 0 {
                            thread::sleep(Duration::from_micros(rng.below(2000)));
                        }
                    }
                })
                .unwrap(),
        );
    }

    // Readers
    for reader in 0..4u64 {
        let db = Arc::clone(&db);
        let stop = Arc::clone(&stop);
        let failures = Arc::clone(&failures);
        let views_checked = Arc::clone(&views_checked);
        let label = label.to_string();
        threads.push(
            thread::Builder::new()
                .name(format!("stress-reader-{reader}"))
                .spawn(move || {
                    let mut rng = Rng(seed.wrapping_mul(77).wrapping_add(reader + 11) | 1);
                    let keys = stress_keys();
                    let fail = |message: String| {
                        let mut failures = failures.lock().unwrap();
                        if failures.len() < 20 {
                            failures.push(format!("[{label} reader {reader}] {message}"));
                        }
                        stop.store(true, Ordering::SeqCst);
                    };
                    while !stop.load(Ordering::Relaxed) {
                        match (reader + rng.below(2)) % 4 {
                            0 => {
                                // Iterator without explicit snapshot, both directions
                                let mut iter = new_iter(&db, ReadOptions::default());
                                if rng.below(2) == 0 {
                                    thread::sleep(Duration::from_micros(rng.below(3000)));
                                }
                                let forward = scan_forward(&mut iter);
                                let backward = scan_backward(&mut iter);
                                match (forward, backward) {
                                    (Ok(forward), Ok(backward)) => {
                                        if let Err(problem) = check_groups(&forward) {
                                            fail(format!("iterator forward scan: {problem}"));
                                        }
                                        if let Err(problem) = check_groups(&backward) {
                                            fail(format!("iterator backward scan: {problem}"));
                                        }
                                        if forward != backward {
                                            fail(format!(
                                                "forward and backward scans of one iterator \
                                                 differ: {} vs {}",
                                                show(&forward),
                                                show(&backward)
                                            ));
                                        }
                                    }
                                    (Err(err), _) | (_, Err(err)) => fail(err),
                                }
                            }
                            1 => {
                                // Snapshot read with point lookups in random order
                                let snapshot = db.get_snapshot();
                                let mut order = keys.clone();
                                for idx in (1..order.len()).rev() {
                                    order.swap(idx, rng.below(idx as u64 + 1) as usize);
                                }
                                match snapshot_gets(&db, &snapshot, &order) {
                                    Ok(view) => {
                                        if let Err(problem) = check_groups(&view) {
                                            fail(format!("snapshot point lookups: {problem}"));
                                        }
                                    }
                                    Err(err) => fail(err),
                                }
                                db.release_snapshot(snapshot);
                            }
                            2 => {
                                // Long lived snapshot: lookups now, iterator and lookups later
                                let snapshot = db.get_snapshot();
                                let first = snapshot_gets(&db, &snapshot, &keys);
                                // Sometimes long enough for flushes and compactions to move
                                // everything the snapshot needs
                                if rng.below(4) == 0 {
                                    thread::sleep(Duration::from_millis(300 + rng.below(500)));
                                } else {
                                    thread::sleep(Duration::from_millis(5 + rng.below(60)));
                                }
                                let mut iter = new_iter(&db, read_opts(Some(&snapshot)));
                                let by_iter = scan_forward(&mut iter);
                                let by_iter_backward = scan_backward(&mut iter);
                                let second = snapshot_gets(&db, &snapshot, &keys);
                                match (first, by_iter, by_iter_backward, second) {
                                    (Ok(first), Ok(by_iter), Ok(by_iter_backward), Ok(second)) => {
                                        if by_iter != by_iter_backward {
                                            fail(format!(
                                                "forward and backward scans of one snapshot \
                                                 iterator differ: {} vs {}",
                                                show(&by_iter),
                                                show(&by_iter_backward)
                                            ));
                                        }
                                        // The lookups only cover the group keys
                                        let by_iter = only_group_keys(by_iter);
                                        let by_iter_backward = only_group_keys(by_iter_backward);
                                        for (what, view) in [
                                            ("first lookups", &first),
                                            ("iterator", &by_iter),
                                            ("iterator backward", &by_iter_backward),
                                            ("second lookups", &second),
                                        ] {
                                            if let Err(problem) = check_groups(view) {
                                                fail(format!("long lived snapshot, {what}: {problem}"));
                                            }
                                        }
                                        if first != second || first != by_iter || first != by_iter_backward {
                                            fail(format!(
                                                "one snapshot showed different states: lookups {} \
                                                 iterator {} iterator backward {} later lookups {}",
                                                show(&first),
                                                show(&by_iter),
                                                show(&by_iter_backward),
                                                show(&second)
                                            ));
                                        }
                                    }
                                    (Err(err), _, _, _)
                                    | (_, Err(err), _, _)
                                    | (_, _, Err(err), _)
                                    | (_, _, _, Err(err)) => fail(err),
                                }
                                drop(iter);
                                db.release_snapshot(snapshot);
                            }
                            _ => {
                                // Seeks and mixed direction steps compared to a scan of the same
                                // iterator
                                let mut iter = new_iter(&db, ReadOptions::default());
                                let model = match scan_forward(&mut iter) {
                                    Ok(model) => model,
                                    Err(err) => {
                                        fail(err);
                                        continue;
                                    }
                                };
                                if let Err(problem) = check_groups(&model) {
                                    fail(format!("iterator scan: {problem}"));
                                }
                                let sorted: Vec<(&Vec<u8>, &Vec<u8>)> = model.iter().collect();
                                for _ in 0..6 {
                                    let target = keys[rng.below(keys.len() as u64) as usize].clone();
                                    if iter.seek(&target).is_err() {
                                        fail("seek failed".to_string());
                                        break;
                                    }
                                    let mut position =
                                        sorted.iter().position(|(key, _)| **key >= target);
                                    for _ in 0..8 {
                                        let expected = position.map(|idx| sorted[idx]);
                                        let actual = if iter.is_valid() {
                                            iter.current()
                                        } else {
                                            None
                                        };
                                        if expected != actual {
                                            fail(format!(
                                                "after seek/steps around {:?} the iterator is at \
                                                 {:?} but its own full scan says {:?}",
                                                String::from_utf8_lossy(&target),
                                                actual.map(|(key, _)| String::from_utf8_lossy(key).to_string()),
                                                expected.map(|(key, _)| String::from_utf8_lossy(key).to_string()),
                                            ));
                                            break;
                                        }
                                        let Some(idx) = position else { break };
                                        if rng.below(2) == 0 {
                                            iter.next();
                                            position = if idx + 1 < sorted.len() {
                                                Some(idx + 1)
                                            } else {
                                                None
                                            };
                                        } else {
                                            iter.prev();
                                            position = if idx > 0 { Some(idx - 1) } else { None };
                                        }
                                    }
                                }
                            }
                        }
                        views_checked.fetch_add(1, Ordering::Relaxed);
                    }
                })
                .unwrap(),
        );
    }

    // Noise: single puts and deletes of unrelated keys that interleave with the group keys, so
    // that the keys of one batch end up spread over many blocks, files and levels
    for noise in 0..2u64 {
        let db = Arc::clone(&db);
        let stop = Arc::clone(&stop);
        threads.push(
            thread::Builder::new()
                .name(format!("stress-noise-{noise}"))
                .spawn(move || {
                    let mut rng = Rng(seed.wrapping_mul(131).wrapping_add(noise + 5) | 1);
                    while !stop.load(Ordering::Relaxed) {
                        let key = format!(
                            "k{:02}-m{:04}",
                            rng.below(STRESS_KEYS_PER_GROUP as u64 + 1),
                            rng.below(noise_keys)
                        )
                        .into_bytes();
                        let result = if rng.below(10) < 7 {
                            let len = 20 + rng.below(130) as usize;
                            db.put(WriteOptions::default(), key, vec![b'n'; len])
                        } else {
                            db.delete(WriteOptions::default(), key)
                        };
                        if result.is_err() {
                            break;
                        }
                        if rng.below(16) == 0 {
                            thread::sleep(Duration::from_micros(rng.below(1500)));
                        }
                    }
                })
                .unwrap(),
        );
    }

    // Manual compactions now and then
    {
        let db = Arc::clone(&db);
        let stop = Arc::clone(&stop);
        threads.push(
            thread::Builder::new()
                .name("stress-compactor".to_string())
                .spawn(move || {
                    let mut rng = Rng(seed ^ 0xABCDEF | 1);
                    while !stop.load(Ordering::Relaxed) {
                        thread::sleep(Duration::from_millis(200 + rng.below(600)));
                        if rng.below(2) == 0 {
                            db.compact_range(None..None);
                        } else {
                            let begin = stress_key(rng.below(3) as usize, 0);
                            let end = stress_key(3 + rng.below(3) as usize, 4);
                            db.compact_range(Some(begin.as_slice())..Some(end.as_slice()));
                        }
                    }
                })
                .unwrap(),
        );
    }

    let started = Instant::now();
    while started.elapsed() < duration && !stop.load(Ordering::Relaxed) {
        thread::sleep(Duration::from_millis(50));
    }
    stop.store(true, Ordering::SeqCst);
    for handle in threads {
        if handle.join().is_err() {
            report(&failures, &stop, "a stress thread panicked".to_string());
        }
    }

    let probe = db.verif_probe();
    eprintln!(
        "[{label}] seed {seed}: {} batches, {} views checked, last sequence {}, bad state {:?}, \
         files {:?}",
        batches_applied.load(Ordering::Relaxed),
        views_checked.load(Ordering::Relaxed),
        probe.prev_sequence_number,
        probe.bad_state,
        db.verif_files()
            .iter()
            .fold([0usize; 7], |mut acc, file| {
                acc[file.level] += 1;
                acc
            })
    );

    let failures = failures.lock().unwrap().clone();
    failures
}

fn stress_seconds() -> u64 {
    std::env::var("AUDIT_STRESS_SECONDS")
        .ok()
        .and_then(|text| text.parse().ok())
        .unwrap_or(8)
}

#[test]
fn a4_stress_tiny_memtable() {
    let _serial = serialize_tests();
    let mut failures = vec![];
    for seed in [1u64, 2, 3] {
        failures.extend(run_stress(
            "a4-tiny",
            seed,
            Duration::from_secs(stress_seconds()),
            2048,
            1024,
            128,
            300,
        ));
        if !failures.is_empty() {
            break;
        }
    }
    assert!(
        failures.is_empty(),
        "{} violations:\n{}",
        failures.len(),
        failures.join("\n")
    );
}

#[test]
fn a4_stress_small_memtable() {
    let _serial = serialize_tests();
    let mut failures = vec![];
    for seed in [11u64, 12] {
        failures.extend(run_stress(
            "a4-small",
            seed,
            Duration::from_secs(stress_seconds()),
            16 * 1024,
            4096,
            512,
            2000,
        ));
        if !failures.is_empty() {
            break;
        }
    }
    assert!(
        failures.is_empty(),
        "{} violations:\n{}",
        failures.len(),
        failures.join("\n")
    );
}

// ---------------------------------------------------------------------------------------------
// Attack 5: I/O faults and torn writes in the WAL append of a (multi fragment, merged) batch.
// Concurrent readers and a reopened database must see all or nothing of every batch.
// ---------------------------------------------------------------------------------------------

use std::io::{self, Read, Seek, SeekFrom, Write};
use std::path::{Path, PathBuf};

use raindb::fs::{FileLock, RandomAccessFile, ReadonlyRandomAccessFile};

#[derive(Default)]
struct FaultPlan {
    /// Fail the n-th write to a WAL file from now on (1 = the next one). 0 = disarmed.
    fail_wal_write_in: usize,
    /// Write the first half of the buffer before failing.
    torn: bool,
    /// Write the whole buffer and then report the failure.
    fail_after_writing: bool,
    /// After the fault every WAL write fails (the device is gone).
    tripped: bool,
    wal_writes: usize,
}

struct FaultFs {
    inner: InMemoryFileSystem,
    plan: Arc<Mutex<FaultPlan>>,
}

struct FaultFile {
    inner: Box<dyn RandomAccessFile>,
    is_wal: bool,
    plan: Arc<Mutex<FaultPlan>>,
}

impl Read for FaultFile {
    fn read(&mut self, buf: &mut [u8]) -> io::Result<usize> {
        self.inner.read(buf)
    }
}

impl Seek for FaultFile {
    fn seek(&mut self, pos: SeekFrom) -> io::Result<u64> {
        self.inner.seek(pos)
    }
}

impl FaultFile {
    fn guarded_write(&mut self, buf: &[u8]) -> io::Result<usize> {
        if self.is_wal {
            let mut plan = self.plan.lock().unwrap();
            plan.wal_writes += 1;
            if plan.tripped {
                return Err(io::Error::new(io::ErrorKind::Other, "injected: device gone"));
            }
            if plan.fail_wal_write_in > 0 {
                plan.fail_wal_write_in -= 1;
                if plan.fail_wal_write_in == 0 {
                    plan.tripped = true;
                    if plan.torn {
                        let _ = self.inner.append(&buf[..buf.len() / 2]);
                    } else if plan.fail_after_writing {
                        let _ = self.inner.append(buf);
                    }
                    return Err(io::Error::new(io::ErrorKind::Other, "injected WAL fault"));
                }
            }
        }

        self.inner.append(buf)
    }
}

impl Write for FaultFile {
    fn write(&mut self, buf: &[u8]) -> io::Result<usize> {
        self.guarded_write(buf)
    }

    fn flush(&mut self) -> io::Result<()> {
        self.inner.flush()
    }
}

impl ReadonlyRandomAccessFile for FaultFile {
    fn read_from(&self, buf: &mut [u8], offset: usize) -> io::Result<usize> {
        self.inner.read_from(buf, offset)
    }

    fn len(&self) -> io::Result<u64> {
        self.inner.len()
    }
}

impl RandomAccessFile for FaultFile {
    fn append(&mut self, buf: &[u8]) -> io::Result<usize> {
        self.guarded_write(buf)
    }
}

impl FileSystem for FaultFs {
    fn get_name(&self) -> String {
        "FaultFs".to_string()
    }
    fn create_dir(&self, path: &Path) -> io::Result<()> {
        self.inner.create_dir(path)
    }
    fn create_dir_all(&self, path: &Path) -> io::Result<()> {
        self.inner.create_dir_all(path)
    }
    fn list_dir(&self, path: &Path) -> io::Result<Vec<PathBuf>> {
        self.inner.list_dir(path)
    }
    fn open_file(&self, path: &Path) -> io::Result<Box<dyn ReadonlyRandomAccessFile>> {
        self.inner.open_file(path)
    }
    fn rename(&self, from: &Path, to: &Path) -> io::Result<()> {
        self.inner.rename(from, to)
    }
    fn create_file(&self, path: &Path, append: bool) -> io::Result<Box<dyn RandomAccessFile>> {
        let inner = self.inner.create_file(path, append)?;
        let is_wal = path.extension().map_or(false, |ext| ext == "log");
        Ok(Box::new(FaultFile {
            inner,
            is_wal,
            plan: Arc::clone(&self.plan),
        }))
    }
    fn remove_file(&self, path: &Path) -> io::Result<()> {
        self.inner.remove_file(path)
    }
    fn remove_dir(&self, path: &Path) -> io::Result<()> {
        self.inner.remove_dir(path)
    }
    fn remove_dir_all(&self, path: &Path) -> io::Result<()> {
        self.inner.remove_dir_all(path)
    }
    fn get_file_size(&self, path: &Path) -> io::Result<u64> {
        self.inner.get_file_size(path)
    }
    fn is_dir(&self, path: &Path) -> io::Result<bool> {
        self.inner.is_dir(path)
    }
    fn lock_file(&self, path: &Path) -> io::Result<FileLock> {
        self.inner.lock_file(path)
    }
}

fn full_view(db: &DB) -> State {
    let mut iter = new_iter(db, ReadOptions::default());
    scan_forward(&mut iter).unwrap()
}

/// One scenario: `nth` WAL write of the big batch fails in the provided manner.
fn wal_fault_scenario(nth: usize, torn: bool, fail_after_writing: bool, reuse: bool) -> Vec<String> {
    let label = format!("nth={nth} torn={torn} after={fail_after_writing} reuse={reuse}");
    let mut failures = vec![];
    let plan = Arc::new(Mutex::new(FaultPlan::default()));
    let fs: Arc<dyn FileSystem> = Arc::new(FaultFs {
        inner: InMemoryFileSystem::new(),
        plan: Arc::clone(&plan),
    });
    let mut opts = options(Arc::clone(&fs), "a5", 4 << 20, 2 << 20, 4096);
    opts.reuse_log_files = reuse;

    let mut base = State::new();
    let num_keys = 45;
    let keys: Vec<Vec<u8>> = (0..num_keys).map(|idx| k(&format!("key{idx:02}"))).collect();
    let spec;
    {
        let db = Arc::new(DB::open(opts.clone()).unwrap());
        let mut old = Batch::new();
        for (idx, key) in keys.iter().enumerate() {
            if idx % 3 != 0 {
                old.add_put(key.clone(), v("old", 20));
                base.insert(key.clone(), v("old", 20));
            }
        }
        db.apply(WriteOptions::default(), old).unwrap();

        // About 90 KiB: three fragments in the WAL
        let mut ops = vec![];
        for (idx, key) in keys.iter().enumerate() {
            if idx % 3 == 1 {
                ops.push((key.clone(), None));
            } else {
                ops.push((key.clone(), Some(v("new", 3000))));
            }
        }
        spec = BatchSpec::new("BIG", &base, ops);

        {
            let mut plan = plan.lock().unwrap();
            plan.fail_wal_write_in = nth;
            plan.torn = torn;
            plan.fail_after_writing = fail_after_writing;
        }
        let result = db.apply(WriteOptions::default(), spec.to_batch());
        if result.is_ok() {
            failures.push(format!("[{label}] harness: the fault did not hit the batch"));
        }

        // Readers of the live database
        let mut observer = Observer::new(&db, keys.clone());
        observer.observe(&format!("{label}: live after failed apply"), &[&spec], false);
        failures.extend(observer.finish());
        match classify(&spec, &full_view(&db)) {
            Ok(Visibility::None) => {}
            other => failures.push(format!(
                "[{label}] apply returned an error but the live database shows {other:?}"
            )),
        }
    }

    // "Crash": the handle is gone, the files stay as they are. The device works again.
    *plan.lock().unwrap() = FaultPlan::default();
    for reopen in 0..2 {
        let db = Arc::new(match DB::open(opts.clone()) {
            Ok(db) => db,
            Err(err) => {
                failures.push(format!("[{label}] reopen {reopen} failed: {err}"));
                return failures;
            }
        });
        let view = full_view(&db);
        if let Err(problem) = classify(&spec, &view) {
            failures.push(format!("[{label}] after reopen {reopen}: {problem}"));
        }
        let mut observer = Observer::new(&db, keys.clone());
        observer.observe(&format!("{label}: reopen {reopen}"), &[&spec], false);
        failures.extend(observer.finish());

        // The database must accept writes again and they must be atomic and survive
        let follow_up = BatchSpec::new(
            "FOLLOW",
            &State::new(),
            vec![
                (k(&format!("follow{reopen}-a")), Some(v("f", 5))),
                (k(&format!("follow{reopen}-b")), Some(v("f", 40000))),
                (k(&format!("follow{reopen}-c")), Some(v("f", 5))),
            ],
        );
        if let Err(err) = db.apply(WriteOptions::default(), follow_up.to_batch()) {
            failures.push(format!("[{label}] write after reopen {reopen} failed: {err}"));
        }
        match classify(&follow_up, &full_view(&db)) {
            Ok(Visibility::All) => {}
            other => failures.push(format!(
                "[{label}] the follow-up batch after reopen {reopen} shows {other:?}"
            )),
        }
        if reopen == 1 {
            let earlier = BatchSpec::new(
                "FOLLOW0",
                &State::new(),
                vec![
                    (k("follow0-a"), Some(v("f", 5))),
                    (k("follow0-b"), Some(v("f", 40000))),
                    (k("follow0-c"), Some(v("f", 5))),
                ],
            );
            match classify(&earlier, &view) {
                Ok(Visibility::All) => {}
                other => failures.push(format!(
                    "[{label}] the acknowledged follow-up batch of the first reopen shows \
                     {other:?} after the second reopen"
                )),
            }
        }
    }

    failures
}

#[test]
fn a5_wal_faults_and_torn_appends() {
    let _serial = serialize_tests();
    verif::set_handler(None);
    let mut failures = vec![];
    for reuse in [true, false] {
        for nth in 1..=3 {
            failures.extend(wal_fault_scenario(nth, false, false, reuse));
            failures.extend(wal_fault_scenario(nth, true, false, reuse));
            failures.extend(wal_fault_scenario(nth, false, true, reuse));
        }
    }
    assert!(
        failures.is_empty(),
        "{} violations:\n{}",
        failures.len(),
        failures.join("\n")
    );
}

// ---------------------------------------------------------------------------------------------
// Attack 6: a reader parked inside `get` (after it released the database mutex, before the
// immutable memtable, before the table files) while the data it needs is rotated out of the
// memtable, flushed and compacted. Two lookups at one snapshot that was taken right after a
// batch must both show that batch.
// ---------------------------------------------------------------------------------------------

#[test]
fn a6_reader_parked_inside_get_during_rotation_and_compaction() {
    let _serial = serialize_tests();
    let stepper = Arc::new(Stepper::default());
    verif::set_handler(Some(stepper.clone()));
    let _guard = HandlerGuard(Some(stepper.clone()));

    let fs: Arc<dyn FileSystem> = Arc::new(InMemoryFileSystem::new());
    let db = Arc::new(DB::open(options(fs, "a6", 2048, 1024, 256)).unwrap());
    let keys: Vec<Vec<u8>> = (0..12).map(|idx| k(&format!("key{idx:02}"))).collect();
    let mut failures: Vec<String> = vec![];

    let write_round = |round: usize| {
        let mut batch = Batch::new();
        for (idx, key) in keys.iter().enumerate() {
            if round % 3 == 2 && idx % 2 == 0 {
                batch.add_delete(key.clone());
            } else {
                batch.add_put(key.clone(), v(&format!("r{round}|"), 120 + round));
            }
        }
        db.apply(WriteOptions::default(), batch).unwrap();
    };
    let expected_of_round = |round: usize| {
        let mut state = State::new();
        for (idx, key) in keys.iter().enumerate() {
            if !(round % 3 == 2 && idx % 2 == 0) {
                state.insert(key.clone(), v(&format!("r{round}|"), 120 + round));
            }
        }
        state
    };

    let mut round = 0;
    write_round(round);
    for stop_point in ["get.unlocked", "get.before_imm", "get.before_tables"] {
        for churn in ["rotate", "rotate+flush", "flush+compact"] {
            round += 1;
            write_round(round);
            let snapshot = db.get_snapshot();
            let expected = expected_of_round(round);

            // The reader looks up all keys at the snapshot, parking inside every lookup
            let reader_name = format!("r-a6-{round}");
            stepper.set_stops(&reader_name, &[stop_point]);
            let reader = {
                let db = Arc::clone(&db);
                let keys = keys.clone();
                let snapshot = snapshot.clone();
                thread::Builder::new()
                    .name(reader_name.clone())
                    .spawn(move || snapshot_gets(&db, &snapshot, &keys))
                    .unwrap()
            };

            let mut lookups = 0;
            while let Some((_point, _)) =
                stepper.wait_parked_or_finished(&reader_name, &reader, Duration::from_secs(60))
            {
                // Churn while the reader is parked in the middle of a lookup
                if lookups % 4 == 1 {
                    round += 1;
                    write_round(round);
                    match churn {
                        "rotate" => {}
                        "rotate+flush" => {
                            round += 1;
                            write_round(round);
                        }
                        _ => db.compact_range(None..None),
                    }
                }
                lookups += 1;
                stepper.release(&reader_name);
            }
            match reader.join().unwrap() {
                Ok(view) => {
                    if view != expected {
                        failures.push(format!(
                            "[{stop_point}/{churn}] lookups at a snapshot taken right after a \
                             batch show {} but the batch wrote {}",
                            show(&view),
                            show(&expected)
                        ));
                    }
                }
                Err(err) => failures.push(format!("[{stop_point}/{churn}] {err}")),
            }

            // The same snapshot read again after all the churn, with lookups and an iterator
            let later = snapshot_gets(&db, &snapshot, &keys).unwrap();
            let mut iter = new_iter(&db, read_opts(Some(&snapshot)));
            let by_iter = scan_backward(&mut iter).unwrap();
            drop(iter);
            if later != expected || by_iter != expected {
                failures.push(format!(
                    "[{stop_point}/{churn}] after the churn the snapshot shows {} (lookups) and \
                     {} (iterator) but the batch wrote {}",
                    show(&later),
                    show(&by_iter),
                    show(&expected)
                ));
            }
            db.release_snapshot(snapshot);
        }
    }

    let rotations = stepper
        .notes()
        .iter()
        .filter(|(_, point, _)| *point == "mem.rotate")
        .count();
    assert!(rotations >= 9, "harness: expected memtable rotations, saw {rotations}");
    assert!(
        failures.is_empty(),
        "{} violations:\n{}",
        failures.len(),
        failures.join("\n")
    );
}

#[test]
fn a4_stress_on_disk() {
    let _serial = serialize_tests();
    let failures = run_stress(
        "a4-disk",
        21,
        Duration::from_secs(stress_seconds()),
        4096,
        2048,
        256,
        600,
    );
    assert!(
        failures.is_empty(),
        "{} violations:\n{}",
        failures.len(),
        failures.join("\n")
    );
}

// ---------------------------------------------------------------------------------------------
// Attack 8: snapshots taken between batches must keep showing whole batches while flushes and
// manual compactions rewrite the files (drop rules for shadowed entries and tombstones), with
// files of a few hundred bytes so that the entries of one batch and the versions of one user key
// are spread over many files.
// ---------------------------------------------------------------------------------------------

#[test]
fn a8_snapshots_between_batches_survive_compactions() {
    let _serial = serialize_tests();
    verif::set_handler(None);

    for (max_memtable_size, max_file_size, max_block_size) in
        [(4 << 20, 400u64, 100usize), (1500, 300, 64), (64 * 1024, 2 << 20, 4096)]
    {
        let fs: Arc<dyn FileSystem> = Arc::new(InMemoryFileSystem::new());
        let db = DB::open(options(fs, "a8", max_memtable_size, max_file_size, max_block_size))
            .unwrap();
        let keys: Vec<Vec<u8>> = (0..30).map(|idx| k(&format!("key{idx:02}"))).collect();
        let mut failures: Vec<String> = vec![];
        let mut model = State::new();
        let mut snapshots: Vec<(usize, Snapshot, State)> = vec![];
        let mut rng = Rng(max_file_size | 1);

        let check_all = |what: &str,
                             snapshots: &Vec<(usize, Snapshot, State)>,
                             model: &State,
                             failures: &mut Vec<String>| {
            for (round, snapshot, expected) in snapshots {
                let by_gets = snapshot_gets(&db, snapshot, &keys).unwrap();
                let mut iter = new_iter(&db, read_opts(Some(snapshot)));
                let forward = scan_forward(&mut iter).unwrap();
                let backward = scan_backward(&mut iter).unwrap();
                for (how, view) in [("lookups", &by_gets), ("forward scan", &forward), ("backward scan", &backward)] {
                    if view != expected {
                        failures.push(format!(
                            "[{what}] the snapshot taken after batch {round} shows by {how} {} \
                             but the state after that batch was {}",
                            show(view),
                            show(expected)
                        ));
                    }
                }
            }
            let current = full_view(&db);
            if &current != model {
                failures.push(format!(
                    "[{what}] the database shows {} instead of {}",
                    show(&current),
                    show(model)
                ));
            }
        };

        for round in 0..14 {
            let mut batch = Batch::new();
            for key in &keys {
                match rng.below(4) {
                    0 => {
                        batch.add_delete(key.clone());
                        model.remove(key);
                    }
                    1 => {}
                    _ => {
                        let value = v(&format!("r{round}|"), 10 + rng.below(120) as usize);
                        batch.add_put(key.clone(), value.clone());
                        model.insert(key.clone(), value);
                    }
                }
            }
            db.apply(WriteOptions::default(), batch).unwrap();
            snapshots.push((round, db.get_snapshot(), model.clone()));
            check_all(&format!("after batch {round}"), &snapshots, &model, &mut failures);

            match round % 3 {
                0 => db.compact_range(None..None),
                1 => db.compact_range(Some(b"key05".as_slice())..Some(b"key20".as_slice())),
                _ => {}
            }
            check_all(&format!("after compaction {round}"), &snapshots, &model, &mut failures);

            // Release a snapshot from the middle now and then, the others must not be affected
            if round % 4 == 3 {
                let (_, released, _) = snapshots.remove(snapshots.len() / 2);
                db.release_snapshot(released);
                db.compact_range(None..None);
                check_all(&format!("after release {round}"), &snapshots, &model, &mut failures);
            }
        }
        while let Some((_, snapshot, _)) = snapshots.pop() {
            db.release_snapshot(snapshot);
            db.compact_range(None..None);
            check_all("final releases", &snapshots, &model, &mut failures);
        }

        assert!(
            failures.is_empty(),
            "{} violations:\n{}",
            failures.len(),
            failures.join("\n")
        );
    }
}
