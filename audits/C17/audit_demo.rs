//! Audit of property C17: "One owner at a time: a database cannot be opened or destroyed while
//! open" (disk-backed file systems).
//!
//! Run with `cargo test --offline --features verif --test audit_demo -- --test-threads=1`.
//!
//! All database directories are created under `<crate>/target/audit_c17/`.

use std::path::PathBuf;
use std::sync::atomic::{AtomicBool, AtomicUsize, Ordering};
use std::sync::{Arc, Barrier, Mutex};
use std::thread;
use std::time::{Duration, Instant};

use raindb::{DbOptions, ReadOptions, WriteOptions, DB};

static DIR_COUNTER: AtomicUsize = AtomicUsize::new(0);

fn base_dir() -> PathBuf {
    let mut dir = PathBuf::from(env!("CARGO_MANIFEST_DIR"));
    dir.push("target");
    dir.push("audit_c17");
    std::fs::create_dir_all(&dir).unwrap();
    dir
}

/// A fresh, not yet existing, database path.
fn fresh_db_path(tag: &str) -> String {
    let n = DIR_COUNTER.fetch_add(1, Ordering::SeqCst);
    let mut dir = base_dir();
    dir.push(format!("{tag}-{pid}-{n}", pid = std::process::id()));
    let _ = std::fs::remove_dir_all(&dir);
    dir.to_str().unwrap().to_owned()
}

fn options(path: &str) -> DbOptions {
    DbOptions {
        db_path: path.to_owned(),
        create_if_missing: true,
        ..DbOptions::default()
    }
}

/// A failed `DB::open` drops the sender of its already started compaction thread, which makes that
/// thread panic in `recv().unwrap()`. That is only noise for this audit, keep it off the terminal.
fn silence_background_thread_panics() {
    static ONCE: std::sync::Once = std::sync::Once::new();
    ONCE.call_once(|| {
        let default_hook = std::panic::take_hook();
        std::panic::set_hook(Box::new(move |info| {
            let is_raindb_thread = thread::current()
                .name()
                .map_or(false, |name| name.starts_with("raindb-"));
            if !is_raindb_thread {
                default_hook(info);
            }
        }));
    });
}

fn list_all(path: &str) -> Vec<String> {
    let mut out = vec![];
    for sub in ["", "wal", "data"] {
        let mut dir = PathBuf::from(path);
        if !sub.is_empty() {
            dir.push(sub);
        }
        if let Ok(entries) = std::fs::read_dir(&dir) {
            for entry in entries.flatten() {
                out.push(entry.path().to_str().unwrap().to_owned());
            }
        }
    }
    out.sort();
    out
}

/// Baseline (attack ideas 1-3): sequential and plainly concurrent use.
#[test]
fn t1_second_open_and_destroy_are_refused_and_one_racer_wins() {
    silence_background_thread_panics();
    let path = fresh_db_path("baseline");

    let owner = DB::open(options(&path)).expect("first open must succeed");
    owner
        .put(WriteOptions::default(), b"k".to_vec(), b"v".to_vec())
        .unwrap();
    let files_before = list_all(&path);

    // Further opens: same thread, other thread, aliased spelling of the same path.
    assert!(
        DB::open(options(&path)).is_err(),
        "a second open from the same thread succeeded while the database was open"
    );
    let path_clone = path.clone();
    let from_thread = thread::spawn(move || DB::open(options(&path_clone)).is_ok())
        .join()
        .unwrap();
    assert!(
        !from_thread,
        "a second open from another thread succeeded while the database was open"
    );
    let aliased = format!("{path}/./");
    assert!(
        DB::open(options(&aliased)).is_err(),
        "a second open through an aliased spelling of the path succeeded while the database was \
        open"
    );
    let mut no_create = options(&path);
    no_create.create_if_missing = false;
    no_create.reuse_log_files = false;
    assert!(DB::open(no_create).is_err());

    // Destroy must refuse.
    assert!(
        DB::destroy_database(options(&path)).is_err(),
        "destroy_database returned Ok while the database was open"
    );
    assert!(
        DB::destroy_database(options(&aliased)).is_err(),
        "destroy_database (aliased path) returned Ok while the database was open"
    );
    assert_eq!(
        files_before,
        list_all(&path),
        "the refused attempts changed the set of files of the running instance"
    );

    // The running instance is not disturbed.
    assert_eq!(owner.get(ReadOptions::default(), b"k").unwrap(), b"v".to_vec());
    owner
        .put(WriteOptions::default(), b"k2".to_vec(), b"v2".to_vec())
        .unwrap();
    owner.compact_range(None..None);
    assert_eq!(owner.get(ReadOptions::default(), b"k2").unwrap(), b"v2".to_vec());

    drop(owner);

    // After the close exactly one of a set of racing opens succeeds.
    for round in 0..20 {
        let racers = 8;
        let barrier = Arc::new(Barrier::new(racers));
        let handles: Vec<_> = (0..racers)
            .map(|_| {
                let barrier = Arc::clone(&barrier);
                let path = path.clone();
                thread::spawn(move || {
                    barrier.wait();
                    DB::open(options(&path))
                })
            })
            .collect();
        let results: Vec<_> = handles.into_iter().map(|h| h.join().unwrap()).collect();
        let winners = results.iter().filter(|r| r.is_ok()).count();
        assert_eq!(
            winners, 1,
            "round {round}: {winners} of {racers} racing opens succeeded, the property requires \
            exactly one"
        );
        let winner = results.into_iter().find_map(|r| r.ok()).unwrap();
        assert_eq!(
            winner.get(ReadOptions::default(), b"k").unwrap(),
            b"v".to_vec(),
            "round {round}: the winner lost data"
        );
        drop(winner);
    }

    DB::destroy_database(options(&path)).expect("destroy of a closed database");
}

/// Attack idea 4: an open that starts while the owner is inside `drop` just after it released the
/// file lock (hook `close.lock_released`), i.e. before it closed its WAL and joined its worker.
#[cfg(feature = "verif")]
#[test]
fn t2_open_while_the_owner_is_between_unlock_and_the_end_of_close() {
    use raindb::verif::{self, Handler};

    silence_background_thread_panics();

    struct Park {
        armed: AtomicBool,
        parked: AtomicBool,
        release: AtomicBool,
        owner_thread: Mutex<Option<thread::ThreadId>>,
    }
    impl Handler for Park {
        fn pause(&self, point: &'static str, _args: &[u64]) {
            if point == "close.lock_released"
                && self.armed.load(Ordering::SeqCst)
                && *self.owner_thread.lock().unwrap() == Some(thread::current().id())
            {
                self.parked.store(true, Ordering::SeqCst);
                while !self.release.load(Ordering::SeqCst) {
                    thread::sleep(Duration::from_millis(1));
                }
            }
        }
        fn note(&self, _point: &'static str, _args: &[u64]) {}
    }

    let path = fresh_db_path("closing");
    let park = Arc::new(Park {
        armed: AtomicBool::new(false),
        parked: AtomicBool::new(false),
        release: AtomicBool::new(false),
        owner_thread: Mutex::new(None),
    });
    verif::set_handler(Some(park.clone() as Arc<dyn Handler>));

    let owner = DB::open(options(&path)).unwrap();
    for i in 0..100u32 {
        owner
            .put(
                WriteOptions::default(),
                format!("key{i}").into_bytes(),
                format!("val{i}").into_bytes(),
            )
            .unwrap();
    }

    let park2 = Arc::clone(&park);
    let closer = thread::spawn(move || {
        *park2.owner_thread.lock().unwrap() = Some(thread::current().id());
        park2.armed.store(true, Ordering::SeqCst);
        drop(owner);
    });
    let deadline = Instant::now() + Duration::from_secs(60);
    while !park.parked.load(Ordering::SeqCst) {
        assert!(Instant::now() < deadline, "closer never reached the hook");
        thread::sleep(Duration::from_millis(1));
    }

    // The old owner released the lock but is still closing. A new open may succeed or fail; if
    // it succeeds the new instance must be the only owner and must work.
    let second = DB::open(options(&path));
    if let Ok(second) = &second {
        for i in 0..100u32 {
            assert_eq!(
                second
                    .get(ReadOptions::default(), format!("key{i}").as_bytes())
                    .unwrap(),
                format!("val{i}").into_bytes()
            );
        }
        second
            .put(WriteOptions::default(), b"new".to_vec(), b"x".to_vec())
            .unwrap();
        assert!(
            DB::open(options(&path)).is_err(),
            "a third open succeeded while the second instance was open"
        );
    }
    park.release.store(true, Ordering::SeqCst);
    closer.join().unwrap();
    verif::set_handler(None);

    if let Ok(second) = second {
        // The end of the old owner's close must not have disturbed the new instance.
        second
            .put(WriteOptions::default(), b"new2".to_vec(), b"y".to_vec())
            .unwrap();
        assert_eq!(second.get(ReadOptions::default(), b"new").unwrap(), b"x".to_vec());
        assert!(DB::open(options(&path)).is_err());
        assert!(DB::destroy_database(options(&path)).is_err());
        drop(second);
        let third = DB::open(options(&path)).unwrap();
        assert_eq!(third.get(ReadOptions::default(), b"new").unwrap(), b"x".to_vec());
        assert_eq!(third.get(ReadOptions::default(), b"new2").unwrap(), b"y".to_vec());
        assert_eq!(third.get(ReadOptions::default(), b"key7").unwrap(), b"val7".to_vec());
    }
}

/// Outcome of one trial of the destroy/open race.
#[derive(Debug)]
enum Violation {
    /// Several `DB::open` calls on the one path returned `Ok` and the handles coexist.
    TwoOwners(usize),
    /// One handle is open and a further open returned `Ok`.
    FurtherOpenSucceeded,
    /// One handle is open and `destroy_database` returned `Ok`.
    DestroyActed,
}

/// One trial: a closed database exists at a fresh path. One thread destroys it while `openers`
/// threads keep trying to open the same path until they succeed or are told to stop. All handles
/// obtained are kept alive until the verdict.
fn destroy_open_trial(trial: usize, openers: usize) -> Option<(Violation, String)> {
    let path = fresh_db_path("race");
    {
        let db = DB::open(options(&path)).unwrap();
        db.put(WriteOptions::default(), b"k".to_vec(), b"v".to_vec())
            .unwrap();
    }

    let barrier = Arc::new(Barrier::new(openers + 1));
    let stop = Arc::new(AtomicBool::new(false));

    let destroyer = {
        let barrier = Arc::clone(&barrier);
        let path = path.clone();
        thread::spawn(move || {
            barrier.wait();
            DB::destroy_database(options(&path)).is_ok()
        })
    };
    let opener_handles: Vec<_> = (0..openers)
        .map(|_| {
            let barrier = Arc::clone(&barrier);
            let stop = Arc::clone(&stop);
            let path = path.clone();
            thread::spawn(move || {
                barrier.wait();
                loop {
                    if let Ok(db) = DB::open(options(&path)) {
                        return Some(db);
                    }
                    if stop.load(Ordering::SeqCst) {
                        return None;
                    }
                }
            })
        })
        .collect();

    let _destroy_result = destroyer.join().unwrap();
    thread::sleep(Duration::from_millis(2));
    stop.store(true, Ordering::SeqCst);
    let open_dbs: Vec<DB> = opener_handles
        .into_iter()
        .filter_map(|h| h.join().unwrap())
        .collect();

    // Verdict. Every handle in `open_dbs` is an open database on `path` right now.
    let verdict = if open_dbs.len() > 1 {
        Some(Violation::TwoOwners(open_dbs.len()))
    } else if open_dbs.len() == 1 {
        match DB::open(options(&path)) {
            Ok(extra) => {
                drop(extra);
                Some(Violation::FurtherOpenSucceeded)
            }
            Err(_) => {
                if DB::destroy_database(options(&path)).is_ok() {
                    Some(Violation::DestroyActed)
                } else {
                    None
                }
            }
        }
    } else {
        None
    };

    let detail = format!(
        "trial {trial}: path {path}, {n} handle(s) open at the same time",
        n = open_dbs.len()
    );
    drop(open_dbs);
    let _ = std::fs::remove_dir_all(&path);

    verdict.map(|v| (v, detail))
}

/// Attack idea 5 (the defect): `destroy_database` of a closed database unlinks `LOCK` while it holds
/// the lock. An open that resolved `LOCK` to the old inode before the unlink, and calls `flock`
/// after the destroyer unlocked, acquires a lock on an inode that is no longer reachable through
/// the path. It now "owns" the database, but every later open (or destroy) creates and locks a
/// fresh `LOCK` inode and succeeds as well.
///
/// The window lies between two system calls inside `OsFileSystem::lock_file`, where there is no
/// hook, so the schedule cannot be forced; the test repeats the race. It can only fail when the
/// property is really violated (two live handles, or a further open / destroy that returns Ok
/// while a handle is live); a pass only means the window was not hit.
#[test]
fn t3_destroy_racing_with_open_must_not_leave_two_owners() {
    silence_background_thread_panics();

    let budget = Duration::from_secs(
        std::env::var("AUDIT_C17_SECONDS")
            .ok()
            .and_then(|s| s.parse().ok())
            .unwrap_or(120),
    );
    let openers = std::env::var("AUDIT_C17_OPENERS")
        .ok()
        .and_then(|s| s.parse().ok())
        .unwrap_or(8);
    let start = Instant::now();
    let mut trial = 0;
    while start.elapsed() < budget {
        trial += 1;
        if let Some((violation, detail)) = destroy_open_trial(trial, openers) {
            let observed = match violation {
                Violation::TwoOwners(n) => format!(
                    "{n} DB::open calls on the same path returned Ok and their handles coexist"
                ),
                Violation::FurtherOpenSucceeded => {
                    "with one handle open, a further DB::open on the same path returned Ok"
                        .to_owned()
                }
                Violation::DestroyActed => {
                    "with one handle open, destroy_database returned Ok".to_owned()
                }
            };
            panic!(
                "PROPERTY VIOLATED after {trial} trial(s), {elapsed:?}: observed: {observed} \
                ({detail}); required: while a database is open any further open fails and \
                destroy_database refuses to act",
                elapsed = start.elapsed()
            );
        }
    }
    eprintln!("\nt3: {trial} trials without hitting the window");
}

// ---------------------------------------------------------------------------------------------
// The same defect with the schedule forced as far as a `FileSystem` wrapper can force it.
// ---------------------------------------------------------------------------------------------

mod aligned {
    use std::io;
    use std::path::{Path, PathBuf};
    use std::sync::atomic::{AtomicBool, AtomicU64, Ordering};
    use std::sync::Arc;
    use std::time::{Duration, Instant};

    use raindb::fs::{
        FileLock, FileSystem, OsFileSystem, RandomAccessFile, ReadonlyRandomAccessFile,
    };

    /// Rendezvous state of one trial.
    #[derive(Default)]
    pub struct Shared {
        /// The destroyer removed the `wal` and `data` directories.
        pub dirs_removed: AtomicBool,
        /// The destroyer is about to unlink `LOCK` (it holds the lock).
        pub destroyer_at_unlink: AtomicBool,
        /// The opener is about to call the real `lock_file`.
        pub opener_at_lock: AtomicBool,
        /// Busy-loop iterations the destroyer adds before the real unlink.
        pub destroyer_delay: AtomicU64,
        /// Busy-loop iterations the opener adds before the real `lock_file`.
        pub opener_delay: AtomicU64,
    }

    fn wait_for(flag: &AtomicBool) {
        let deadline = Instant::now() + Duration::from_secs(20);
        while !flag.load(Ordering::SeqCst) {
            if Instant::now() > deadline {
                return;
            }
            std::hint::spin_loop();
        }
    }

    fn busy(iterations: u64) {
        for _ in 0..iterations {
            std::hint::spin_loop();
        }
    }

    #[derive(Clone, Copy, PartialEq, Eq)]
    pub enum Role {
        Destroyer,
        Opener,
    }

    /// `OsFileSystem` with waits added in front of some calls. Every operation is carried out by
    /// the unmodified `OsFileSystem`; the wrapper only decides *when* a call starts.
    pub struct TimedFs {
        pub inner: OsFileSystem,
        pub role: Role,
        pub shared: Arc<Shared>,
    }

    fn is_lock_file(path: &Path) -> bool {
        path.file_name().map_or(false, |name| name == "LOCK")
    }

    impl FileSystem for TimedFs {
        fn get_name(&self) -> String {
            "TimedFs(OsFileSystem)".to_owned()
        }
        fn create_dir(&self, path: &Path) -> io::Result<()> {
            self.inner.create_dir(path)
        }
        fn create_dir_all(&self, path: &Path) -> io::Result<()> {
            if self.role == Role::Opener {
                // Start the open only once the destroyer is past the removal of the
                // sub-directories, so that this open re-creates them.
                wait_for(&self.shared.dirs_removed);
            }
            self.inner.create_dir_all(path)
        }
        fn list_dir(&self, path: &Path) -> io::Result<Vec<PathBuf>> {
            self.inner.list_dir(path)
        }
        fn open_file(&self, path: &Path) -> io::Result<Box<dyn ReadonlyRandomAccessFile>> {
            self.inner.open_file(path)
        }
        fn rename(&self, from: &Path, to: &Path) -> io::Result<()> {
            self.inner.rename(from, to)
        }
        fn create_file(&self, path: &Path, append: bool) -> io::Result<Box<dyn RandomAccessFile>> {
            self.inner.create_file(path, append)
        }
        fn remove_file(&self, path: &Path) -> io::Result<()> {
            if self.role == Role::Destroyer && is_lock_file(path) {
                self.shared.destroyer_at_unlink.store(true, Ordering::SeqCst);
                wait_for(&self.shared.opener_at_lock);
                busy(self.shared.destroyer_delay.load(Ordering::Relaxed));
            }
            self.inner.remove_file(path)
        }
        fn remove_dir(&self, path: &Path) -> io::Result<()> {
            self.inner.remove_dir(path)
        }
        fn remove_dir_all(&self, path: &Path) -> io::Result<()> {
            let result = self.inner.remove_dir_all(path);
            if self.role == Role::Destroyer
                && path.file_name().map_or(false, |name| name == "data")
            {
                self.shared.dirs_removed.store(true, Ordering::SeqCst);
            }
            result
        }
        fn get_file_size(&self, path: &Path) -> io::Result<u64> {
            self.inner.get_file_size(path)
        }
        fn is_dir(&self, path: &Path) -> io::Result<bool> {
            self.inner.is_dir(path)
        }
        fn lock_file(&self, path: &Path) -> io::Result<FileLock> {
            if self.role == Role::Opener {
                wait_for(&self.shared.destroyer_at_unlink);
                self.shared.opener_at_lock.store(true, Ordering::SeqCst);
                busy(self.shared.opener_delay.load(Ordering::Relaxed));
            }
            self.inner.lock_file(path)
        }
    }
}

/// The file descriptors of this process that refer to `<path>/LOCK` (diagnostics only).
fn lock_fds(path: &str) -> Vec<String> {
    let wanted = format!("{path}/LOCK");
    let mut out = vec![];
    if let Ok(entries) = std::fs::read_dir("/proc/self/fd") {
        for entry in entries.flatten() {
            if let Ok(target) = std::fs::read_link(entry.path()) {
                let target = target.to_string_lossy().into_owned();
                if target.starts_with(&wanted) {
                    out.push(target);
                }
            }
        }
    }
    out.sort();
    out
}

/// One aligned trial. Returns a description of the violation, if one was observed.
fn aligned_trial(destroyer_delay: u64, opener_delay: u64) -> Option<String> {
    use aligned::{Role, Shared, TimedFs};
    use raindb::fs::{FileSystem, OsFileSystem};

    let path = fresh_db_path("aligned");
    {
        let db = DB::open(options(&path)).unwrap();
        db.put(WriteOptions::default(), b"k".to_vec(), b"v".to_vec())
            .unwrap();
    }

    let shared = Arc::new(Shared::default());
    shared.destroyer_delay.store(destroyer_delay, Ordering::SeqCst);
    shared.opener_delay.store(opener_delay, Ordering::SeqCst);
    let options_for = |role: Role| {
        let fs: Arc<dyn FileSystem> = Arc::new(TimedFs {
            inner: OsFileSystem::new(),
            role,
            shared: Arc::clone(&shared),
        });
        DbOptions {
            filesystem_provider: fs,
            ..options(&path)
        }
    };

    // The database is closed. One thread destroys it, one thread opens it.
    let destroyer_options = options_for(Role::Destroyer);
    let destroyer = thread::spawn(move || DB::destroy_database(destroyer_options).is_ok());
    let opener_options = options_for(Role::Opener);
    let opener = thread::spawn(move || DB::open(opener_options));

    let _ = destroyer.join().unwrap();
    let first = opener.join().unwrap();

    let mut report = None;
    if let Ok(first) = first {
        // `first` is an open database on `path`. From now on every open must fail and destroy
        // must refuse (plain `OsFileSystem`, same thread and another thread).
        first
            .put(WriteOptions::default(), b"mine".to_vec(), b"1".to_vec())
            .unwrap();
        let fds_before = lock_fds(&path);
        let path2 = path.clone();
        let second = thread::spawn(move || DB::open(options(&path2))).join().unwrap();
        if let Ok(second) = second {
            let fds = lock_fds(&path);
            drop(second);
            let destroyed = DB::destroy_database(options(&path)).is_ok();
            let root_exists = std::path::Path::new(&path).exists();
            report = Some(format!(
                "observed: DB::open returned Ok for {path} while another handle on the same path \
                was open (descriptors on LOCK held by the process before the second open: \
                {fds_before:?}, with both handles open: {fds:?}); afterwards, still with the first \
                handle open, destroy_database returned Ok = {destroyed} and the database \
                directory exists = {root_exists}; required: both calls fail and leave the running \
                instance alone"
            ));
        }
        drop(first);
    }
    let _ = std::fs::remove_dir_all(&path);

    report
}

/// Attack idea 5 again, with the two threads brought to the critical pair of system calls by a
/// `FileSystem` wrapper that only delays the start of `remove_file(LOCK)` (destroyer) and of
/// `lock_file(LOCK)` (opener); the calls themselves are the unmodified `OsFileSystem` ones. What is
/// left to chance is the order of a handful of instructions, which the test sweeps with small
/// busy-loop offsets.
#[test]
fn t4_destroy_and_open_aligned_on_the_unlink_of_the_lock_file() {
    silence_background_thread_panics();

    let budget = Duration::from_secs(
        std::env::var("AUDIT_C17_SECONDS")
            .ok()
            .and_then(|s| s.parse().ok())
            .unwrap_or(120),
    );
    let start = Instant::now();
    let mut trial = 0u64;
    while start.elapsed() < budget {
        // Offsets -20..=20 in steps of 100 busy iterations; negative delays the opener.
        let offset = (trial % 41) as i64 - 20;
        let (destroyer_delay, opener_delay) = if offset >= 0 {
            (offset as u64 * 100, 0)
        } else {
            (0, (-offset) as u64 * 100)
        };
        trial += 1;
        if let Some(report) = aligned_trial(destroyer_delay, opener_delay) {
            panic!(
                "PROPERTY VIOLATED in trial {trial} (destroyer delay {destroyer_delay}, opener \
                delay {opener_delay}, {elapsed:?}): {report}",
                elapsed = start.elapsed()
            );
        }
    }
    eprintln!("\nt4: {trial} trials without hitting the window");
}

/// Attack idea 6: opens that fail *after* they acquired the file lock (missing database with
/// `create_if_missing = false`, existing database with `error_if_exists = true`) must release it,
/// and the same options used against an open database must fail without touching it. Also the
/// whole baseline once more on `TmpFileSystem` (the other disk-backed implementation).
#[test]
fn t5_failed_opens_release_the_lock_and_tmp_file_system_behaves_the_same() {
    use raindb::fs::{FileSystem, TmpFileSystem};

    silence_background_thread_panics();
    let path = fresh_db_path("failed-open");

    let mut no_create = options(&path);
    no_create.create_if_missing = false;
    assert!(DB::open(no_create.clone()).is_err());
    // The failed attempt must not keep the lock.
    let owner = DB::open(options(&path)).expect("open after a failed open");
    owner
        .put(WriteOptions::default(), b"a".to_vec(), b"1".to_vec())
        .unwrap();

    let mut must_not_exist = options(&path);
    must_not_exist.error_if_exists = true;
    assert!(DB::open(must_not_exist.clone()).is_err());
    assert!(DB::open(no_create.clone()).is_err());
    assert_eq!(owner.get(ReadOptions::default(), b"a").unwrap(), b"1".to_vec());
    drop(owner);

    assert!(DB::open(must_not_exist).is_err(), "error_if_exists on a closed database");
    let owner = DB::open(no_create).expect("the failed error_if_exists open kept the lock");
    assert_eq!(owner.get(ReadOptions::default(), b"a").unwrap(), b"1".to_vec());
    drop(owner);
    DB::destroy_database(options(&path)).unwrap();

    // TmpFileSystem.
    let tmp_fs: Arc<dyn FileSystem> = Arc::new(TmpFileSystem::new(Some(&base_dir())));
    let tmp_options = DbOptions {
        db_path: "tmpdb".to_owned(),
        create_if_missing: true,
        filesystem_provider: Arc::clone(&tmp_fs),
        ..DbOptions::default()
    };
    let owner = DB::open(tmp_options.clone()).unwrap();
    owner
        .put(WriteOptions::default(), b"a".to_vec(), b"1".to_vec())
        .unwrap();
    assert!(
        DB::open(tmp_options.clone()).is_err(),
        "TmpFileSystem: second open succeeded while the database was open"
    );
    let tmp_options2 = tmp_options.clone();
    assert!(
        thread::spawn(move || DB::open(tmp_options2).is_err())
            .join()
            .unwrap(),
        "TmpFileSystem: second open from a thread succeeded while the database was open"
    );
    assert!(
        DB::destroy_database(tmp_options.clone()).is_err(),
        "TmpFileSystem: destroy_database returned Ok while the database was open"
    );
    assert_eq!(owner.get(ReadOptions::default(), b"a").unwrap(), b"1".to_vec());
    drop(owner);
    let racers = 6;
    let barrier = Arc::new(Barrier::new(racers));
    let results: Vec<_> = (0..racers)
        .map(|_| {
            let barrier = Arc::clone(&barrier);
            let tmp_options = tmp_options.clone();
            thread::spawn(move || {
                barrier.wait();
                DB::open(tmp_options)
            })
        })
        .collect::<Vec<_>>()
        .into_iter()
        .map(|h| h.join().unwrap())
        .collect();
    assert_eq!(
        results.iter().filter(|r| r.is_ok()).count(),
        1,
        "TmpFileSystem: not exactly one racing open succeeded"
    );
}

/// Attack idea 7: a busy owner (tiny memtable and file sizes, so it flushes and compacts all the
/// time, with and without `reuse_log_files`) while other threads hammer `open` and
/// `destroy_database` on the same path. Every attempt must fail and the owner must not notice.
#[test]
fn t6_hammering_open_and_destroy_does_not_disturb_a_busy_owner() {
    silence_background_thread_panics();

    for reuse_log_files in [true, false] {
        let path = fresh_db_path("hammer");
        let busy_options = DbOptions {
            max_memtable_size: 2 * 1024,
            max_file_size: 4 * 1024,
            max_block_size: 256,
            reuse_log_files,
            ..options(&path)
        };
        let owner = Arc::new(DB::open(busy_options.clone()).unwrap());
        let stop = Arc::new(AtomicBool::new(false));
        let intruder_successes = Arc::new(AtomicUsize::new(0));
        let attempts = Arc::new(AtomicUsize::new(0));

        let intruders: Vec<_> = (0..4)
            .map(|i| {
                let stop = Arc::clone(&stop);
                let successes = Arc::clone(&intruder_successes);
                let attempts = Arc::clone(&attempts);
                let busy_options = busy_options.clone();
                thread::spawn(move || {
                    while !stop.load(Ordering::SeqCst) {
                        let ok = if i % 2 == 0 {
                            DB::open(busy_options.clone()).is_ok()
                        } else {
                            DB::destroy_database(busy_options.clone()).is_ok()
                        };
                        attempts.fetch_add(1, Ordering::SeqCst);
                        if ok {
                            successes.fetch_add(1, Ordering::SeqCst);
                        }
                    }
                })
            })
            .collect();

        let writes = 3000u32;
        for i in 0..writes {
            owner
                .put(
                    WriteOptions::default(),
                    format!("key{:05}", i % 700).into_bytes(),
                    format!("value-{i}-{}", "x".repeat(40)).into_bytes(),
                )
                .unwrap_or_else(|err| panic!("owner write {i} failed: {err}"));
        }
        stop.store(true, Ordering::SeqCst);
        for intruder in intruders {
            intruder.join().unwrap();
        }
        assert!(attempts.load(Ordering::SeqCst) > 0);
        assert_eq!(
            intruder_successes.load(Ordering::SeqCst),
            0,
            "an open or destroy_database succeeded while the database was open"
        );

        let expected = |k: u32| {
            // The last write of key k.
            let mut last = k;
            while last + 700 < writes {
                last += 700;
            }
            format!("value-{last}-{}", "x".repeat(40)).into_bytes()
        };
        for k in 0..700u32 {
            assert_eq!(
                owner
                    .get(ReadOptions::default(), format!("key{k:05}").as_bytes())
                    .unwrap_or_else(|err| panic!("owner lost key {k}: {err}")),
                expected(k),
                "the running instance was disturbed (key {k})"
            );
        }
        let owner = Arc::try_unwrap(owner).ok().unwrap();
        drop(owner);
        let reopened = DB::open(busy_options.clone()).expect("reopen after the hammering");
        for k in 0..700u32 {
            assert_eq!(
                reopened
                    .get(ReadOptions::default(), format!("key{k:05}").as_bytes())
                    .unwrap_or_else(|err| panic!("key {k} lost after reopen: {err}")),
                expected(k),
                "data differs after reopen (key {k})"
            );
        }
        drop(reopened);
        DB::destroy_database(busy_options).unwrap();
    }
}

/// Helper for `t7`: run in a child process, tries to open / destroy the path in
/// `AUDIT_C17_CHILD_PATH` and prints the outcome.
#[test]
fn child_helper() {
    let Ok(path) = std::env::var("AUDIT_C17_CHILD_PATH") else {
        return;
    };
    silence_background_thread_panics();
    let open_ok = DB::open(options(&path)).is_ok();
    let destroy_ok = DB::destroy_database(options(&path)).is_ok();
    println!("CHILD open_ok={open_ok} destroy_ok={destroy_ok}");
}

/// Attack idea 8: the second handle lives in another process.
#[test]
fn t7_another_process_cannot_open_or_destroy() {
    silence_background_thread_panics();
    let path = fresh_db_path("process");
    let owner = DB::open(options(&path)).unwrap();
    owner
        .put(WriteOptions::default(), b"a".to_vec(), b"1".to_vec())
        .unwrap();

    let run_child = || {
        let output = std::process::Command::new(std::env::current_exe().unwrap())
            .args(["--exact", "child_helper", "--nocapture", "--test-threads=1"])
            .env("AUDIT_C17_CHILD_PATH", &path)
            .output()
            .unwrap();
        let stdout = String::from_utf8_lossy(&output.stdout).into_owned();
        stdout
            .lines()
            .find(|line| line.contains("CHILD "))
            .unwrap_or_else(|| panic!("no child report in: {stdout}"))
            .to_owned()
    };

    let report = run_child();
    assert!(
        report.contains("open_ok=false destroy_ok=false"),
        "another process could open or destroy the open database: {report}"
    );
    assert_eq!(owner.get(ReadOptions::default(), b"a").unwrap(), b"1".to_vec());
    drop(owner);

    let report = run_child();
    assert!(
        report.contains("open_ok=true destroy_ok=true"),
        "after the close another process could not open and destroy: {report}"
    );
}
