// Search harness for C14 (not a finding by itself).
// Run: cargo test --offline --features verif --release --test audit_c14 -- --nocapture
#![cfg(feature = "verif")]

use std::sync::atomic::{AtomicU64, Ordering};
use std::sync::Arc;

use raindb::filter_policy::FilterPolicyError;
use raindb::verif::table::{self, Entry, Lookup};
use raindb::{BloomFilterPolicy, DbOptions, FilterPolicy, Operation};

struct Rng(u64);
impl Rng {
    fn next(&mut self) -> u64 {
        let mut x = self.0;
        x ^= x << 13;
        x ^= x >> 7;
        x ^= x << 17;
        self.0 = x;
        x.wrapping_mul(0x2545F4914F6CDD1D)
    }
    fn below(&mut self, n: u64) -> u64 {
        if n == 0 {
            0
        } else {
            self.next() % n
        }
    }
    fn bytes(&mut self, len: usize, alphabet: u64) -> Vec<u8> {
        (0..len)
            .map(|_| {
                if alphabet == 256 {
                    self.below(256) as u8
                } else {
                    // skewed towards 0x00/0xff/few letters
                    match self.below(alphabet) {
                        0 => 0u8,
                        1 => 0xff,
                        n => b'a' + (n as u8 % 26),
                    }
                }
            })
            .collect()
    }
}

/// A policy with another name: tables are read without their filter block.
#[derive(Debug)]
struct NoFilter;
impl FilterPolicy for NoFilter {
    fn get_name(&self) -> String {
        "audit.none".to_string()
    }
    fn create_filter(&self, _keys: &[Vec<u8>]) -> Vec<u8> {
        vec![1, 2, 3]
    }
    fn key_may_match(&self, _k: &[u8], _f: &[u8]) -> Result<bool, FilterPolicyError> {
        Ok(true)
    }
}

/// Bloom with counters for negative answers.
#[derive(Debug)]
struct CountingBloom {
    inner: BloomFilterPolicy,
    negatives: AtomicU64,
    queries: AtomicU64,
}
impl FilterPolicy for CountingBloom {
    fn get_name(&self) -> String {
        self.inner.get_name()
    }
    fn create_filter(&self, keys: &[Vec<u8>]) -> Vec<u8> {
        self.inner.create_filter(keys)
    }
    fn key_may_match(&self, k: &[u8], f: &[u8]) -> Result<bool, FilterPolicyError> {
        let r = self.inner.key_may_match(k, f);
        self.queries.fetch_add(1, Ordering::Relaxed);
        if let Ok(false) = r {
            self.negatives.fetch_add(1, Ordering::Relaxed);
        }
        r
    }
}

#[test]
fn policy_no_false_negatives() {
    let mut rng = Rng(0x9E3779B97F4A7C15);
    let mut sets = 0u64;
    let mut checks = 0u64;
    let mut bpks: Vec<usize> = (0..=64).collect();
    bpks.extend_from_slice(&[65, 100, 127, 128, 255, 256, 1000, 4096]);
    for &bpk in &bpks {
        let policy = BloomFilterPolicy::new(bpk);
        let sizes: Vec<usize> = vec![0, 1, 2, 3, 4, 5, 6, 7, 8, 9, 13, 63, 64, 65, 100, 1000, 3000];
        for &n in &sizes {
            for variant in 0..6 {
                if bpk > 256 && n > 1000 {
                    continue;
                }
                let mut keys: Vec<Vec<u8>> = Vec::with_capacity(n + 2);
                for i in 0..n {
                    let key = match variant {
                        0 => {
                            let len = rng.below(41) as usize;
                            rng.bytes(len, 256)
                        }
                        1 => {
                            let len = rng.below(9) as usize;
                            rng.bytes(len, 3)
                        }
                        2 => (i as u32).to_le_bytes().to_vec(),
                        3 => vec![0xff; i % 70],
                        4 => {
                            let len = (i % 4) + 4 * (rng.below(5) as usize);
                            rng.bytes(len, 256)
                        }
                        _ => {
                            let len = 200 + rng.below(300) as usize;
                            rng.bytes(len, 5)
                        }
                    };
                    keys.push(key);
                }
                if n > 2 && variant % 2 == 0 {
                    // duplicates and the empty key
                    keys.push(keys[0].clone());
                    keys.push(vec![]);
                    let d = keys[n / 2].clone();
                    keys.push(d);
                }
                let filter = policy.create_filter(&keys);
                sets += 1;
                for key in &keys {
                    checks += 1;
                    assert!(
                        policy.key_may_match(key, &filter).unwrap(),
                        "false negative: bpk={bpk} n={n} variant={variant} key={key:?}"
                    );
                }
                // reader configured with another bits_per_key (reopen with changed options)
                let other = BloomFilterPolicy::new(rng.below(65) as usize);
                for key in keys.iter().take(50) {
                    checks += 1;
                    assert!(
                        other.key_may_match(key, &filter).unwrap(),
                        "false negative with other reader: bpk={bpk} n={n} key={key:?}"
                    );
                }
            }
        }
    }
    println!("policy: {sets} key sets, {checks} membership checks, no false negative");
}

#[test]
fn policy_one_huge_key_and_many_keys() {
    let mut rng = Rng(77);
    for bpk in [1usize, 7, 10, 33, 64] {
        let policy = BloomFilterPolicy::new(bpk);
        let keys: Vec<Vec<u8>> = (0..5)
            .map(|i| rng.bytes(65536 + i * 3 + 1, 256))
            .collect();
        let filter = policy.create_filter(&keys);
        for k in &keys {
            assert!(policy.key_may_match(k, &filter).unwrap());
        }
        let keys: Vec<Vec<u8>> = (0..200_000u32).map(|i| i.to_be_bytes().to_vec()).collect();
        let filter = policy.create_filter(&keys);
        for k in &keys {
            assert!(policy.key_may_match(k, &filter).unwrap());
        }
    }
}

fn table_options(bpk: usize, block: usize, path: &str) -> (DbOptions, Arc<CountingBloom>) {
    let policy = Arc::new(CountingBloom {
        inner: BloomFilterPolicy::new(bpk),
        negatives: AtomicU64::new(0),
        queries: AtomicU64::new(0),
    });
    let mut options = DbOptions::with_memory_env();
    options.db_path = path.to_string();
    options.max_block_size = block;
    options.filter_policy = policy.clone();
    (options, policy)
}

fn expected(entries: &[Entry], user_key: &[u8], seq: u64) -> Lookup {
    for (k, s, op, v) in entries {
        if k.as_slice() == user_key && *s <= seq {
            return match op {
                Operation::Put => Lookup::Value(v.clone()),
                Operation::Delete => Lookup::Deleted,
            };
        }
    }
    Lookup::NotInFile
}

fn random_table(rng: &mut Rng, case: u64) -> (Vec<Entry>, usize, usize) {
    let blocks = [1usize, 2, 16, 64, 100, 256, 512, 1000, 1024, 2000, 2048, 2049, 4096, 8192, 65536, 1 << 20];
    let block = blocks[rng.below(blocks.len() as u64) as usize];
    let bpk = match rng.below(4) {
        0 => 1,
        1 => 64,
        2 => 10,
        _ => 1 + rng.below(64) as usize,
    };
    let n_user = 1 + rng.below(match case % 4 {
        0 => 8,
        1 => 60,
        2 => 400,
        _ => 1500,
    }) as usize;
    let key_style = rng.below(5);
    let val_style = rng.below(6);
    let mut user_keys: Vec<Vec<u8>> = Vec::new();
    for i in 0..n_user {
        let k = match key_style {
            0 => format!("key{:06}", i * 3).into_bytes(),
            1 => {
                let len = rng.below(12) as usize;
                rng.bytes(len, 3)
            }
            2 => {
                let len = rng.below(30) as usize;
                rng.bytes(len, 256)
            }
            3 => {
                let mut p = vec![b'p'; 50 + rng.below(200) as usize];
                p.extend_from_slice(&(rng.below(5000) as u32).to_be_bytes());
                p
            }
            _ => {
                if rng.below(20) == 0 {
                    let len = 3000 + rng.below(70000) as usize;
                    rng.bytes(len, 256)
                } else {
                    let len = 1 + rng.below(16) as usize;
                    rng.bytes(len, 256)
                }
            }
        };
        user_keys.push(k);
    }
    user_keys.sort();
    user_keys.dedup();
    let mut entries: Vec<Entry> = Vec::new();
    let mut seq_base = 1_000_000u64;
    for k in user_keys {
        let versions = if rng.below(4) == 0 {
            { let m = if rng.below(10) == 0 { 300 } else { 6 }; 1 + rng.below(m) }
        } else {
            1
        };
        let mut seq = seq_base + versions * 3 + rng.below(1000);
        for _ in 0..versions {
            let op = if rng.below(5) == 0 {
                Operation::Delete
            } else {
                Operation::Put
            };
            let v = if op == Operation::Delete {
                vec![]
            } else {
                match val_style {
                    0 => vec![],
                    1 => {
                        let len = rng.below(20) as usize;
                        rng.bytes(len, 256)
                    }
                    2 => {
                        let len = rng.below(300) as usize;
                        vec![b'v'; len]
                    }
                    3 => {
                        let len = rng.below(5000) as usize;
                        rng.bytes(len, 256)
                    }
                    4 => {
                        if rng.below(15) == 0 {
                            let len = rng.below(40000) as usize;
                            rng.bytes(len, 256)
                        } else {
                            let len = rng.below(64) as usize;
                            rng.bytes(len, 256)
                        }
                    }
                    _ => {
                        let len = rng.below(9000) as usize;
                        vec![b'z'; len]
                    }
                }
            };
            entries.push((k.clone(), seq, op, v));
            seq -= 1 + rng.below(2);
        }
        seq_base += rng.below(3);
    }
    (entries, block, bpk)
}

#[test]
fn table_filters_never_hide_present_keys() {
    let cases: u64 = std::env::var("C14_CASES")
        .ok()
        .and_then(|s| s.parse().ok())
        .unwrap_or(600);
    let seed: u64 = std::env::var("C14_SEED")
        .ok()
        .and_then(|s| s.parse().ok())
        .unwrap_or(1);
    let mut rng = Rng(seed.wrapping_mul(0x9E3779B97F4A7C15) | 1);
    let mut lookups = 0u64;
    let mut negatives = 0u64;
    let mut total_entries = 0u64;
    for case in 0..cases {
        let (entries, block, bpk) = random_table(&mut rng, case);
        let path = format!("/c14/{seed}/{case}");
        let (options, policy) = table_options(bpk, block, &path);
        let size = table::build(&options, 7, &entries).expect("build");
        total_entries += entries.len() as u64;
        let with_filter = table::open(&options, 7).expect("open");
        let mut plain_options = options.clone();
        plain_options.filter_policy = Arc::new(NoFilter);
        let without_filter = table::open(&plain_options, 7).expect("open plain");

        let mut check = |user_key: &[u8], seq: u64| {
            let want = expected(&entries, user_key, seq);
            let a = with_filter.get(user_key, seq, rng_bool(seq));
            let b = without_filter.get(user_key, seq, false);
            lookups += 1;
            assert_eq!(
                a, b,
                "filter changes the answer: case={case} seed={seed} block={block} bpk={bpk} size={size} key={:?} seq={seq}",
                &user_key[..user_key.len().min(40)]
            );
            assert_eq!(
                a, want,
                "wrong answer: case={case} seed={seed} block={block} bpk={bpk} size={size} key={:?} seq={seq}",
                &user_key[..user_key.len().min(40)]
            );
        };
        let stride = (entries.len() / 400).max(1);
        for (i, (k, s, _, _)) in entries.iter().enumerate() {
            if i % stride != 0 && i + 3 < entries.len() && i > 3 {
                continue;
            }
            check(k, *s);
            check(k, u64::MAX);
            check(k, u64::MAX - 1);
            check(k, *s + 1);
            if *s > 0 {
                check(k, *s - 1);
            }
            check(k, 0);
        }
        // absent keys: must be NotInFile with and without filter
        for _ in 0..20 {
            let len = rng.below(12) as usize;
            let k = rng.bytes(len, 256);
            check(&k, u64::MAX);
        }
        negatives += policy.negatives.load(Ordering::Relaxed);
    }
    println!(
        "tables: {cases} tables, {total_entries} entries, {lookups} lookups compared with/without filter; filter said no {negatives} times"
    );
}

fn rng_bool(x: u64) -> bool {
    x % 2 == 0
}

// ---------------------------------------------------------------------------------------------
// Database level: differential against a BTreeMap with hostile small configurations.

use raindb::{Batch, ReadOptions, WriteOptions, DB};
use std::collections::BTreeMap;

fn db_options(fs: &DbOptions, path: &str, rng: &mut Rng) -> (DbOptions, Arc<CountingBloom>) {
    let bpk = match rng.below(4) {
        0 => 1,
        1 => 64,
        _ => 1 + rng.below(64) as usize,
    };
    let blocks = [1usize, 16, 100, 512, 1024, 2048, 4096, 16384];
    let policy = Arc::new(CountingBloom {
        inner: BloomFilterPolicy::new(bpk),
        negatives: AtomicU64::new(0),
        queries: AtomicU64::new(0),
    });
    let mut options = fs.clone();
    options.db_path = path.to_string();
    options.create_if_missing = true;
    options.max_block_size = blocks[rng.below(blocks.len() as u64) as usize];
    options.max_memtable_size = [1usize << 10, 4 << 10, 16 << 10, 64 << 10][rng.below(4) as usize];
    options.max_file_size = [2u64 << 10, 8 << 10, 32 << 10, 256 << 10][rng.below(4) as usize];
    options.filter_policy = match rng.below(if std::env::var("C14_MIXED").is_ok() { 8 } else { 1 }) {
        5 | 6 => Arc::new(SetPolicy),
        7 => Arc::new(NoFilter),
        _ => policy.clone(),
    };
    options.reuse_log_files = rng.below(2) == 0;
    (options, policy)
}

#[test]
fn db_differential_with_filters() {
    let seeds: u64 = std::env::var("C14_DB_SEEDS")
        .ok()
        .and_then(|s| s.parse().ok())
        .unwrap_or(40);
    let base: u64 = std::env::var("C14_SEED")
        .ok()
        .and_then(|s| s.parse().ok())
        .unwrap_or(1);
    let mut total_gets = 0u64;
    let mut total_ops = 0u64;
    let mut negatives = 0u64;
    let mut queries = 0u64;
    let mut max_files = 0usize;
    let mut max_level = 0usize;
    for seed in base..base + seeds {
        let mut rng = Rng(seed.wrapping_mul(0xD1B54A32D192ED03) | 1);
        let fs = DbOptions::with_memory_env();
        let path = format!("/c14db/{seed}");
        let (mut options, mut policy) = db_options(&fs, &path, &mut rng);
        let mut db = DB::open(options.clone()).expect("open");
        let mut model: BTreeMap<Vec<u8>, Vec<u8>> = BTreeMap::new();
        let mut snaps: Vec<(raindb::Snapshot, BTreeMap<Vec<u8>, Vec<u8>>)> = Vec::new();
        let key_space = [30u64, 300, 3000][rng.below(3) as usize];
        let key_style = rng.below(3);
        let mk_key = |i: u64| -> Vec<u8> {
            match key_style {
                0 => format!("k{:05}", i).into_bytes(),
                1 => {
                    // lengths vary mod 4, bytes include 0xff and 0x00
                    let mut k = vec![0xffu8; (i % 7) as usize];
                    k.extend_from_slice(&(i as u32).to_be_bytes());
                    k.extend(std::iter::repeat(0u8).take((i % 3) as usize));
                    k
                }
                _ => {
                    let mut k = (i.wrapping_mul(0x9E3779B97F4A7C15)).to_le_bytes().to_vec();
                    k.truncate(1 + (i % 8) as usize);
                    k.extend_from_slice(&(i as u16).to_be_bytes());
                    k
                }
            }
        };
        let steps = 3000 + rng.below(3000);
        for _step in 0..steps {
            total_ops += 1;
            match rng.below(100) {
                0..=49 => {
                    let k = mk_key(rng.below(key_space));
                    let vlen = match rng.below(10) {
                        0 => rng.below(5000),
                        1 => 0,
                        _ => rng.below(100),
                    } as usize;
                    let v = if rng.below(2) == 0 {
                        rng.bytes(vlen, 256)
                    } else {
                        vec![b'v'; vlen]
                    };
                    db.put(WriteOptions::default(), k.clone(), v.clone()).expect("put");
                    model.insert(k, v);
                }
                50..=64 => {
                    let k = mk_key(rng.below(key_space));
                    db.delete(WriteOptions::default(), k.clone()).expect("delete");
                    model.remove(&k);
                }
                65..=69 => {
                    let mut batch = Batch::new();
                    for _ in 0..rng.below(30) {
                        let k = mk_key(rng.below(key_space));
                        if rng.below(4) == 0 {
                            batch.add_delete(k.clone());
                            model.remove(&k);
                        } else {
                            let l = rng.below(200) as usize;
                            let v = rng.bytes(l, 256);
                            batch.add_put(k.clone(), v.clone());
                            model.insert(k, v);
                        }
                    }
                    db.apply(WriteOptions::default(), batch).expect("apply");
                }
                70..=89 => {
                    let k = mk_key(rng.below(key_space + 5));
                    total_gets += 1;
                    let got = db.get(ReadOptions::default(), &k);
                    match (got, model.get(&k)) {
                        (Ok(v), Some(m)) => assert_eq!(&v, m, "seed={seed} key={k:?}"),
                        (Err(raindb::RainDBError::KeyNotFound), None) => {}
                        (g, m) => panic!(
                            "seed={seed} key={k:?} got={:?} model={:?}",
                            g.map(|v| v.len()),
                            m.map(|v| v.len())
                        ),
                    }
                }
                90..=91 => {
                    if snaps.len() < 4 {
                        snaps.push((db.get_snapshot(), model.clone()));
                    } else {
                        let idx = rng.below(snaps.len() as u64) as usize;
                        let (s, _) = snaps.remove(idx);
                        db.release_snapshot(s);
                    }
                }
                92..=94 => {
                    if !snaps.is_empty() {
                        let idx = rng.below(snaps.len() as u64) as usize;
                        let (s, m) = &snaps[idx];
                        for _ in 0..10 {
                            let k = mk_key(rng.below(key_space));
                            total_gets += 1;
                            let got = db.get(
                                ReadOptions {
                                    fill_cache: rng.below(2) == 0,
                                    snapshot: Some(s.clone()),
                                },
                                &k,
                            );
                            match (got, m.get(&k)) {
                                (Ok(v), Some(mv)) => assert_eq!(&v, mv, "snap seed={seed} key={k:?}"),
                                (Err(raindb::RainDBError::KeyNotFound), None) => {}
                                (g, mv) => panic!(
                                    "snapshot read seed={seed} key={k:?} got={:?} model={:?}",
                                    g.map(|v| v.len()),
                                    mv.map(|v| v.len())
                                ),
                            }
                        }
                    }
                }
                95..=96 => {
                    let a = mk_key(rng.below(key_space));
                    let b = mk_key(rng.below(key_space));
                    match rng.below(3) {
                        0 => db.compact_range(None..None),
                        1 => db.compact_range(Some(a.as_slice())..None),
                        _ => {
                            let (lo, hi) = if a <= b { (a, b) } else { (b, a) };
                            db.compact_range(Some(lo.as_slice())..Some(hi.as_slice()))
                        }
                    }
                }
                97 => {
                    // full verification
                    for (k, m) in &model {
                        total_gets += 1;
                        let v = db
                            .get(ReadOptions::default(), k)
                            .unwrap_or_else(|e| panic!("seed={seed} key={k:?} lost: {e:?}"));
                        assert_eq!(&v, m);
                    }
                }
                _ => {
                    // reopen with changed options (bits_per_key, block size, ...)
                    for (s, _) in snaps.drain(..) {
                        db.release_snapshot(s);
                    }
                    negatives += policy.negatives.load(Ordering::Relaxed);
                    queries += policy.queries.load(Ordering::Relaxed);
                    let files = db.verif_files();
                    max_files = max_files.max(files.len());
                    max_level = max_level.max(files.iter().map(|f| f.level).max().unwrap_or(0));
                    drop(db);
                    let (o, p) = db_options(&fs, &path, &mut rng);
                    options = o;
                    policy = p;
                    db = DB::open(options.clone()).expect("reopen");
                }
            }
        }
        for (k, m) in &model {
            total_gets += 1;
            let v = db
                .get(ReadOptions::default(), k)
                .unwrap_or_else(|e| panic!("final seed={seed} key={k:?} lost: {e:?}"));
            assert_eq!(&v, m);
        }
        let files = db.verif_files();
        max_files = max_files.max(files.len());
        max_level = max_level.max(files.iter().map(|f| f.level).max().unwrap_or(0));
        negatives += policy.negatives.load(Ordering::Relaxed);
        queries += policy.queries.load(Ordering::Relaxed);
        for (s, _) in snaps.drain(..) {
            db.release_snapshot(s);
        }
        drop(db);
    }
    println!(
        "db: {seeds} seeds, {total_ops} ops, {total_gets} gets checked against the model; \
         filter queried {queries} times, answered no {negatives} times; max files {max_files}, max level {max_level}"
    );
}

#[test]
fn table_boundary_sweep_and_huge_entries() {
    let mut rng = Rng(4242);
    let mut lookups = 0u64;
    let mut tables = 0u64;
    // one entry per block; block sizes sweep across the 2 KiB filter range boundary
    for len in (1000..1040).chain(1960..2120).chain(4040..4110).chain(0..40) {
        for bpk in [1usize, 10, 64] {
            let mut entries: Vec<Entry> = Vec::new();
            for i in 0..7u64 {
                let key = format!("k{i}").into_bytes();
                let v = rng.bytes(len, 256);
                entries.push((key, 100 - i, Operation::Put, v));
            }
            let path = format!("/sweep/{len}/{bpk}");
            let (options, _p) = table_options(bpk, 1, &path);
            table::build(&options, 3, &entries).expect("build");
            tables += 1;
            let reader = table::open(&options, 3).expect("open");
            for (k, s, _, v) in &entries {
                lookups += 2;
                assert_eq!(reader.get(k, *s, false), Lookup::Value(v.clone()), "len={len} bpk={bpk}");
                assert_eq!(reader.get(k, u64::MAX, true), Lookup::Value(v.clone()), "len={len} bpk={bpk}");
            }
        }
    }
    // huge keys and values
    for (block, bpk) in [(1usize, 10usize), (4096, 1), (4096, 64), (1 << 20, 10), (100_000, 33)] {
        let mut entries: Vec<Entry> = Vec::new();
        let mut keys: Vec<Vec<u8>> = Vec::new();
        for i in 0..40u64 {
            let mut k = vec![b'a' + (i % 26) as u8; if i % 5 == 0 { 66_000 + i as usize } else { 3 }];
            k.extend_from_slice(&i.to_be_bytes());
            keys.push(k);
        }
        keys.sort();
        for (i, k) in keys.iter().enumerate() {
            let vlen = match i % 8 {
                0 => 3 * 1024 * 1024 + i,
                1 => 0,
                2 => 70_000,
                _ => 10,
            };
            let v = if i % 2 == 0 { rng.bytes(vlen, 256) } else { vec![b'q'; vlen] };
            entries.push((k.clone(), 500, Operation::Put, v));
            if i % 3 == 0 {
                entries.push((k.clone(), 400, Operation::Delete, vec![]));
                entries.push((k.clone(), 300, Operation::Put, vec![1, 2, 3]));
            }
        }
        let path = format!("/huge/{block}/{bpk}");
        let (options, _p) = table_options(bpk, block, &path);
        table::build(&options, 3, &entries).expect("build");
        tables += 1;
        let reader = table::open(&options, 3).expect("open");
        for (k, s, _, _) in &entries {
            for seq in [*s, u64::MAX, *s - 1, *s + 1] {
                lookups += 1;
                assert_eq!(reader.get(k, seq, false), expected(&entries, k, seq), "block={block} bpk={bpk}");
            }
        }
    }
    println!("sweep/huge: {tables} tables, {lookups} lookups");
}

#[test]
fn table_on_os_filesystem() {
    let dir = tempfile::tempdir().unwrap();
    let mut rng = Rng(99);
    let mut lookups = 0u64;
    for case in 0..60u64 {
        let (entries, block, bpk) = random_table(&mut rng, case);
        let path = dir.path().join(format!("t{case}"));
        std::fs::create_dir_all(path.join("data")).unwrap();
        let mut options = DbOptions::default();
        options.db_path = path.to_str().unwrap().to_string();
        options.max_block_size = block;
        options.filter_policy = Arc::new(BloomFilterPolicy::new(bpk));
        table::build(&options, 9, &entries).expect("build");
        let reader = table::open(&options, 9).expect("open");
        let stride = (entries.len() / 200).max(1);
        for (k, s, _, _) in entries.iter().step_by(stride) {
            for seq in [*s, u64::MAX] {
                lookups += 1;
                assert_eq!(reader.get(k, seq, true), expected(&entries, k, seq), "case={case}");
            }
        }
    }
    println!("os fs: 60 tables, {lookups} lookups");
}


/// An exact policy under another name: sorted 8-byte FNV hashes of the keys.
#[derive(Debug)]
struct SetPolicy;
fn fnv(key: &[u8]) -> u64 {
    let mut h: u64 = 0xcbf29ce484222325;
    for b in key {
        h ^= *b as u64;
        h = h.wrapping_mul(0x100000001b3);
    }
    h
}
impl FilterPolicy for SetPolicy {
    fn get_name(&self) -> String {
        "audit.set".to_string()
    }
    fn create_filter(&self, keys: &[Vec<u8>]) -> Vec<u8> {
        let mut hs: Vec<u64> = keys.iter().map(|k| fnv(k)).collect();
        hs.sort();
        hs.dedup();
        hs.iter().flat_map(|h| h.to_be_bytes()).collect()
    }
    fn key_may_match(&self, k: &[u8], f: &[u8]) -> Result<bool, FilterPolicyError> {
        let h = fnv(k).to_be_bytes();
        Ok(f.chunks(8).any(|c| c == h))
    }
}
