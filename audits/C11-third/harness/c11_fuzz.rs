// C11 audit harness: random histories + directory check at quiescence, crash images, fault sweeps.
// run: cargo test --offline --features verif --test c11_fuzz -- --nocapture
#![allow(dead_code)]

mod common_sim;
use common_sim::*;

use rand::rngs::StdRng;
use rand::{Rng, SeedableRng};
use raindb::{Batch, DbOptions, RainDbIterator, ReadOptions, WriteOptions, DB};
use std::collections::BTreeMap;
use std::path::PathBuf;
use std::sync::Arc;
use std::time::{Duration, Instant};

const DBP: &str = "/db";

#[derive(Clone, Debug)]
pub struct Cfg {
    pub memtable: usize,
    pub file: u64,
    pub block: usize,
    pub reuse: bool,
}

pub fn opts(fs: &SimFs, cfg: &Cfg) -> DbOptions {
    DbOptions {
        db_path: DBP.to_string(),
        max_memtable_size: cfg.memtable,
        max_file_size: cfg.file,
        max_block_size: cfg.block,
        filesystem_provider: Arc::new(fs.clone()),
        create_if_missing: true,
        error_if_exists: false,
        reuse_log_files: cfg.reuse,
        ..DbOptions::default()
    }
}

/// Wait for background work to settle. Returns false on timeout.
pub fn quiesce(db: &DB) -> bool {
    let start = Instant::now();
    let mut stable = 0;
    loop {
        let p = db.verif_probe();
        let idle = !p.background_compaction_scheduled
            && !p.has_immutable_memtable
            && (!p.needs_compaction || p.bad_state.is_some())
            && !p.manual_compaction_pending;
        if idle {
            stable += 1;
            if stable >= 3 {
                return true;
            }
        } else {
            stable = 0;
        }
        if start.elapsed() > Duration::from_secs(10) {
            return false;
        }
        std::thread::sleep(Duration::from_millis(1));
    }
}

/// Check the directory against the expectation. Returns a list of discrepancies.
pub fn check_dir(fs: &SimFs, db: &DB) -> Vec<String> {
    let p = db.verif_probe();
    let mut problems = vec![];
    if p.bad_state.is_some() {
        return problems; // no claim in the error state
    }
    if p.num_versions != 1 {
        problems.push(format!("num_versions = {} at quiescence", p.num_versions));
    }
    if !p.tables_in_use.is_empty() {
        problems.push(format!("tables_in_use = {:?} at quiescence", p.tables_in_use));
    }
    let files = fs.list_all();
    let mut wal = vec![];
    let mut tables = vec![];
    for f in &files {
        let rel = f.strip_prefix("/db/").unwrap_or(f).to_string();
        if rel == "CURRENT" || rel == "LOCK" {
            continue;
        }
        if rel == format!("MANIFEST-{}.manifest", p.manifest_file_number) {
            continue;
        }
        if let Some(r) = rel.strip_prefix("wal/wal-") {
            if let Some(n) = r.strip_suffix(".log") {
                wal.push(n.parse::<u64>().unwrap());
                continue;
            }
        }
        if let Some(r) = rel.strip_prefix("data/") {
            if let Some(n) = r.strip_suffix(".rdb") {
                tables.push(n.parse::<u64>().unwrap());
                continue;
            }
        }
        problems.push(format!("unexpected file {rel}"));
    }
    wal.sort();
    tables.sort();
    if wal.len() != 1 {
        problems.push(format!(
            "wal files {:?} (version set wal number {})",
            wal, p.curr_wal_number
        ));
    } else if wal[0] < p.curr_wal_number {
        problems.push(format!(
            "wal file {:?} older than version set wal number {}",
            wal, p.curr_wal_number
        ));
    }
    if tables != p.live_files {
        problems.push(format!(
            "tables on disk {:?} != live {:?}",
            tables, p.live_files
        ));
    }
    if !files.iter().any(|f| f == "/db/CURRENT") {
        problems.push("CURRENT missing".to_string());
    }
    if !files
        .iter()
        .any(|f| *f == format!("/db/MANIFEST-{}.manifest", p.manifest_file_number))
    {
        problems.push("current manifest missing".to_string());
    }
    problems
}

pub type Model = BTreeMap<Vec<u8>, Vec<u8>>;

pub fn scan(db: &DB) -> Result<Model, String> {
    let mut it = db
        .new_iterator(ReadOptions::default())
        .map_err(|e| e.to_string())?;
    it.seek_to_first().map_err(|e| e.to_string())?;
    let mut out = Model::new();
    while it.is_valid() {
        let (k, v) = it.current().unwrap();
        out.insert(k.clone(), v.clone());
        it.next();
    }
    if let Some(e) = it.status() {
        return Err(e.to_string());
    }
    Ok(out)
}

fn key(rng: &mut StdRng, space: u32) -> Vec<u8> {
    format!("k{:05}", rng.gen_range(0..space)).into_bytes()
}

fn val(rng: &mut StdRng) -> Vec<u8> {
    let len = match rng.gen_range(0..20) {
        0 => 0,
        1 => rng.gen_range(2000..6000),
        _ => rng.gen_range(1..200),
    };
    let b: u8 = rng.gen();
    (0..len).map(|i| b.wrapping_add(i as u8)).collect()
}

fn rand_cfg(rng: &mut StdRng) -> Cfg {
    Cfg {
        memtable: [600, 1500, 4000, 16000][rng.gen_range(0..4)],
        file: [300, 1000, 4000, 20000][rng.gen_range(0..4)],
        block: [1, 64, 512, 4096][rng.gen_range(0..4)],
        reuse: rng.gen_bool(0.5),
    }
}

pub struct RunStats {
    pub ops: usize,
    pub reopens: usize,
    pub checks: usize,
}

/// One random history. Panics with a description on a violation.
pub fn run_history(seed: u64, nops: usize, verbose: bool) -> RunStats {
    let mut rng = StdRng::seed_from_u64(seed);
    let fs = SimFs::new();
    let mut cfg = rand_cfg(&mut rng);
    let space = [20u32, 200, 2000][rng.gen_range(0..3)];
    let mut model = Model::new();
    let mut db = Some(DB::open(opts(&fs, &cfg)).expect("open"));
    let mut stats = RunStats {
        ops: 0,
        reopens: 0,
        checks: 0,
    };
    let wo = WriteOptions::default();
    let mut snaps = vec![];
    let mut iters = vec![];

    let check = |db: &DB, fs: &SimFs, what: &str, stats: &mut RunStats, model: &Model, cfg: &Cfg| {
        if !quiesce(db) {
            panic!("seed {seed}: no quiescence at {what}: {:?}", db.verif_probe());
        }
        let problems = check_dir(fs, db);
        stats.checks += 1;
        if !problems.is_empty() {
            panic!(
                "seed {seed} cfg {:?} at {what}: {:?}\nfiles: {:?}\nprobe: {:?}",
                cfg,
                problems,
                fs.list_all(),
                db.verif_probe()
            );
        }
        match scan(db) {
            Ok(m) => {
                if &m != model {
                    panic!("seed {seed} at {what}: scan differs from model");
                }
            }
            Err(e) => panic!("seed {seed} at {what}: scan error {e}"),
        }
    };

    for i in 0..nops {
        stats.ops += 1;
        let d = db.as_ref().unwrap();
        let r = rng.gen_range(0..100);
        if verbose {
            println!("op {i} r {r}");
        }
        match r {
            0..=54 => {
                let k = key(&mut rng, space);
                let v = val(&mut rng);
                d.put(wo.clone(), k.clone(), v.clone()).expect("put");
                model.insert(k, v);
            }
            55..=64 => {
                let k = key(&mut rng, space);
                d.delete(wo.clone(), k.clone()).expect("delete");
                model.remove(&k);
            }
            65..=72 => {
                let mut b = Batch::new();
                for _ in 0..rng.gen_range(0..12) {
                    let k = key(&mut rng, space);
                    if rng.gen_bool(0.7) {
                        let v = val(&mut rng);
                        b.add_put(k.clone(), v.clone());
                        model.insert(k, v);
                    } else {
                        b.add_delete(k.clone());
                        model.remove(&k);
                    }
                }
                d.apply(wo.clone(), b).expect("apply");
            }
            73..=80 => {
                let k = key(&mut rng, space);
                let got = d.get(ReadOptions::default(), &k).ok();
                assert_eq!(got.as_ref(), model.get(&k), "seed {seed} get mismatch");
            }
            81..=84 => {
                let a = key(&mut rng, space);
                let b = key(&mut rng, space);
                match rng.gen_range(0..4) {
                    0 => d.compact_range(None..None),
                    1 => d.compact_range(Some(a.as_slice())..None),
                    2 => d.compact_range(None..Some(b.as_slice())),
                    _ => d.compact_range(Some(a.as_slice())..Some(b.as_slice())),
                }
            }
            85..=87 => {
                snaps.push(d.get_snapshot());
            }
            88..=89 => {
                if !snaps.is_empty() {
                    let idx = rng.gen_range(0..snaps.len());
                    let s = snaps.remove(idx);
                    d.release_snapshot(s);
                }
            }
            90..=92 => {
                // an iterator that is kept for a while
                let mut it = d.new_iterator(ReadOptions::default()).expect("iter");
                let _ = it.seek_to_first();
                iters.push(it);
            }
            93..=94 => {
                if !iters.is_empty() {
                    let idx = rng.gen_range(0..iters.len());
                    drop(iters.remove(idx));
                }
            }
            95..=96 => {
                // quiescent check (after releasing all readers and one more flush so that pinned files are reclaimed)
                iters.clear();
                for s in snaps.drain(..) {
                    d.release_snapshot(s);
                }
                quiesce(d);
                d.compact_range(Some(b"zzzz".as_slice())..Some(b"zzzzz".as_slice()));
                check(d, &fs, &format!("op {i} check"), &mut stats, &model, &cfg);
            }
            _ => {
                // reopen with possibly changed options
                iters.clear();
                for s in snaps.drain(..) {
                    d.release_snapshot(s);
                }
                drop(db.take());
                if rng.gen_bool(0.6) {
                    cfg = rand_cfg(&mut rng);
                }
                stats.reopens += 1;
                db = Some(DB::open(opts(&fs, &cfg)).expect("reopen"));
                let d = db.as_ref().unwrap();
                check(d, &fs, &format!("op {i} reopen"), &mut stats, &model, &cfg);
            }
        }
    }
    iters.clear();
    let d = db.as_ref().unwrap();
    for s in snaps.drain(..) {
        d.release_snapshot(s);
    }
    quiesce(d);
    d.compact_range(Some(b"zzzz".as_slice())..Some(b"zzzzz".as_slice()));
    check(d, &fs, "end", &mut stats, &model, &cfg);
    stats
}

#[test]
fn random_histories() {
    let n: u64 = std::env::var("C11_SEEDS")
        .ok()
        .and_then(|s| s.parse().ok())
        .unwrap_or(50);
    let base: u64 = std::env::var("C11_BASE")
        .ok()
        .and_then(|s| s.parse().ok())
        .unwrap_or(0);
    let nops: usize = std::env::var("C11_OPS")
        .ok()
        .and_then(|s| s.parse().ok())
        .unwrap_or(400);
    let mut total = RunStats {
        ops: 0,
        reopens: 0,
        checks: 0,
    };
    for seed in base..base + n {
        let s = run_history(seed, nops, false);
        total.ops += s.ops;
        total.reopens += s.reopens;
        total.checks += s.checks;
    }
    println!(
        "random_histories: seeds {n} ops {} reopens {} checks {}",
        total.ops, total.reopens, total.checks
    );
}

fn unused(_: PathBuf) {}
