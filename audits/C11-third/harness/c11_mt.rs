// C11 audit harness: multi-threaded stress with randomized scheduling points, then directory check.
// run: cargo test --offline --features verif --test c11_mt -- --nocapture --test-threads=1
#![allow(dead_code)]

mod common_sim;
use common_sim::*;

use rand::rngs::StdRng;
use rand::{Rng, SeedableRng};
use raindb::{Batch, DbOptions, RainDbIterator, ReadOptions, WriteOptions, DB};
use std::sync::atomic::{AtomicU64, Ordering};
use std::sync::Arc;
use std::time::{Duration, Instant};

const DBP: &str = "/db";

pub fn opts(fs: &SimFs, memtable: usize, file: u64, block: usize, reuse: bool) -> DbOptions {
    DbOptions {
        db_path: DBP.to_string(),
        max_memtable_size: memtable,
        max_file_size: file,
        max_block_size: block,
        filesystem_provider: Arc::new(fs.clone()),
        create_if_missing: true,
        error_if_exists: false,
        reuse_log_files: reuse,
        ..DbOptions::default()
    }
}

pub fn quiesce(db: &DB) -> bool {
    let start = Instant::now();
    let mut stable = 0;
    loop {
        let p = db.verif_probe();
        let idle = !p.background_compaction_scheduled
            && (!p.has_immutable_memtable || p.bad_state.is_some())
            && (!p.needs_compaction || p.bad_state.is_some())
            && !p.manual_compaction_pending;
        if idle {
            stable += 1;
            if stable >= 3 {
                return true;
            }
        } else {
            stable = 0;
        }
        if start.elapsed() > Duration::from_secs(20) {
            return false;
        }
        std::thread::sleep(Duration::from_millis(1));
    }
}

pub fn check_dir(fs: &SimFs, db: &DB) -> Vec<String> {
    let p = db.verif_probe();
    let mut problems = vec![];
    if let Some(b) = p.bad_state.as_ref() {
        problems.push(format!("bad state {b}"));
        return problems;
    }
    if p.num_versions != 1 {
        problems.push(format!("num_versions = {} at quiescence", p.num_versions));
    }
    if !p.tables_in_use.is_empty() {
        problems.push(format!("tables_in_use = {:?} at quiescence", p.tables_in_use));
    }
    let files = fs.list_all();
    let mut wal = vec![];
    let mut tables = vec![];
    for f in &files {
        let rel = f.strip_prefix("/db/").unwrap_or(f).to_string();
        if rel == "CURRENT" || rel == "LOCK" {
            continue;
        }
        if rel == format!("MANIFEST-{}.manifest", p.manifest_file_number) {
            continue;
        }
        if let Some(r) = rel.strip_prefix("wal/wal-") {
            if let Some(n) = r.strip_suffix(".log") {
                wal.push(n.parse::<u64>().unwrap());
                continue;
            }
        }
        if let Some(r) = rel.strip_prefix("data/") {
            if let Some(n) = r.strip_suffix(".rdb") {
                tables.push(n.parse::<u64>().unwrap());
                continue;
            }
        }
        problems.push(format!("unexpected file {rel}"));
    }
    wal.sort();
    tables.sort();
    if wal.len() != 1 || wal[0] < p.curr_wal_number {
        problems.push(format!(
            "wal files {:?} (version set wal number {})",
            wal, p.curr_wal_number
        ));
    }
    if tables != p.live_files {
        problems.push(format!(
            "tables on disk {:?} != live {:?}",
            tables, p.live_files
        ));
    }
    problems
}

struct Jitter {
    ctr: AtomicU64,
    seed: u64,
}

impl raindb::verif::Handler for Jitter {
    fn pause(&self, _point: &'static str, _args: &[u64]) {
        let n = self.ctr.fetch_add(1, Ordering::Relaxed);
        let h = (n ^ self.seed).wrapping_mul(0x9E3779B97F4A7C15) >> 58; // 0..63
        match h {
            0..=1 => std::thread::sleep(Duration::from_micros(300)),
            2..=9 => std::thread::yield_now(),
            _ => {}
        }
    }
    fn note(&self, _point: &'static str, _args: &[u64]) {}
}

fn stress(seed: u64, nthreads: usize, nops: usize) -> (usize, usize) {
    let mut rng = StdRng::seed_from_u64(seed);
    let fs = SimFs::new();
    let memtable = [600, 1500, 4000][rng.gen_range(0..3)];
    let file = [300, 1000, 4000][rng.gen_range(0..3)];
    let block = [1, 64, 1024][rng.gen_range(0..3)];
    let reuse = rng.gen_bool(0.5);
    raindb::verif::set_handler(Some(Arc::new(Jitter {
        ctr: AtomicU64::new(0),
        seed,
    })));
    let db = Arc::new(DB::open(opts(&fs, memtable, file, block, reuse)).expect("open"));
    let read_errors = Arc::new(AtomicU64::new(0));
    let mut handles = vec![];
    for t in 0..nthreads {
        let db = Arc::clone(&db);
        let read_errors = Arc::clone(&read_errors);
        handles.push(std::thread::spawn(move || {
            let mut rng = StdRng::seed_from_u64(seed * 1000 + t as u64);
            let wo = WriteOptions::default();
            let mut held = vec![];
            let mut snaps = vec![];
            for _ in 0..nops {
                let k = format!("k{:04}", rng.gen_range(0..150)).into_bytes();
                match rng.gen_range(0..100) {
                    0..=49 => {
                        let len = if rng.gen_range(0..15) == 0 { 3000 } else { rng.gen_range(0..150) };
                        db.put(wo.clone(), k, vec![t as u8; len]).expect("put");
                    }
                    50..=57 => db.delete(wo.clone(), k).expect("delete"),
                    58..=63 => {
                        let mut b = Batch::new();
                        for j in 0..rng.gen_range(0..6) {
                            b.add_put(format!("b{t}{j:03}").into_bytes(), vec![1u8; 40]);
                        }
                        db.apply(wo.clone(), b).expect("apply");
                    }
                    64..=79 => match db.get(ReadOptions::default(), &k) {
                        Ok(_) => {}
                        Err(raindb::RainDBError::KeyNotFound) => {}
                        Err(e) => {
                            eprintln!("get error: {e}");
                            read_errors.fetch_add(1, Ordering::SeqCst);
                        }
                    },
                    80..=84 => {
                        // full scan through a fresh iterator
                        let mut it = db.new_iterator(ReadOptions::default()).expect("iter");
                        it.seek_to_first().expect("seek");
                        while it.is_valid() {
                            it.next();
                        }
                        if let Some(e) = it.status() {
                            eprintln!("scan error: {e}");
                            read_errors.fetch_add(1, Ordering::SeqCst);
                        }
                    }
                    85..=88 => {
                        let mut it = db.new_iterator(ReadOptions::default()).expect("iter");
                        let _ = it.seek_to_first();
                        held.push(it);
                        if held.len() > 2 {
                            let mut old = held.remove(0);
                            // walk the old iterator: its files must still be there
                            while old.is_valid() {
                                old.next();
                            }
                            if let Some(e) = old.status() {
                                eprintln!("held scan error: {e}");
                                read_errors.fetch_add(1, Ordering::SeqCst);
                            }
                        }
                    }
                    89..=91 => {
                        snaps.push(db.get_snapshot());
                        if snaps.len() > 2 {
                            db.release_snapshot(snaps.remove(0));
                        }
                    }
                    92..=95 => {
                        let a = format!("k{:04}", rng.gen_range(0..150)).into_bytes();
                        db.compact_range(Some(a.as_slice())..Some(k.as_slice()));
                    }
                    _ => db.compact_range(None..None),
                }
            }
            for mut it in held.drain(..) {
                while it.is_valid() {
                    it.next();
                }
                if let Some(e) = it.status() {
                    eprintln!("final held scan error: {e}");
                    read_errors.fetch_add(1, Ordering::SeqCst);
                }
            }
            for s in snaps.drain(..) {
                db.release_snapshot(s);
            }
        }));
    }
    for h in handles {
        h.join().expect("worker thread panicked");
    }
    raindb::verif::set_handler(None);
    assert_eq!(read_errors.load(Ordering::SeqCst), 0, "seed {seed}: read errors");
    assert!(quiesce(&db), "seed {seed}: no quiescence {:?}", db.verif_probe());
    // one more flush so that files pinned by released readers are reclaimed
    db.put(WriteOptions::default(), b"zz".to_vec(), b"1".to_vec()).unwrap();
    db.compact_range(Some(b"zzzz".as_slice())..Some(b"zzzzz".as_slice()));
    assert!(quiesce(&db), "seed {seed}: no quiescence (2)");
    let problems = check_dir(&fs, &db);
    assert!(
        problems.is_empty(),
        "seed {seed}: {:?}\nfiles {:?}\nprobe {:?}",
        problems,
        fs.list_all(),
        db.verif_probe()
    );
    let db = Arc::try_unwrap(db).ok().expect("sole owner");
    drop(db);
    let db = DB::open(opts(&fs, memtable, file, block, !reuse)).expect("reopen");
    assert!(quiesce(&db));
    let problems = check_dir(&fs, &db);
    assert!(problems.is_empty(), "seed {seed} after reopen: {:?}", problems);
    (nthreads * nops, 2)
}

#[test]
fn mt_stress() {
    let n: u64 = std::env::var("C11_SEEDS").ok().and_then(|s| s.parse().ok()).unwrap_or(20);
    let base: u64 = std::env::var("C11_BASE").ok().and_then(|s| s.parse().ok()).unwrap_or(0);
    let mut ops = 0;
    for seed in base..base + n {
        let (o, _) = stress(seed, 4, 250);
        ops += o;
    }
    println!("mt_stress: {n} seeds, {ops} ops");
}

#[test]
fn iterator_outlives_db_then_reopen() {
    let fs = SimFs::new();
    let db = DB::open(opts(&fs, 1500, 1000, 256, true)).unwrap();
    let wo = WriteOptions::default();
    for i in 0..200u32 {
        db.put(wo.clone(), format!("k{i:04}").into_bytes(), vec![3u8; 60]).unwrap();
    }
    db.compact_range(None..None);
    let mut it = db.new_iterator(ReadOptions::default()).unwrap();
    it.seek_to_first().unwrap();
    for i in 0..200u32 {
        db.put(wo.clone(), format!("k{i:04}").into_bytes(), vec![4u8; 60]).unwrap();
    }
    db.compact_range(None..None);
    quiesce(&db);
    drop(db);
    // the iterator still reads its version
    let mut n = 0;
    while it.is_valid() {
        assert_eq!(it.current().unwrap().1[0], 3u8);
        n += 1;
        it.next();
    }
    assert!(it.status().is_none(), "{:?}", it.status());
    assert_eq!(n, 200);
    // while the iterator lives nobody can open
    assert!(DB::open(opts(&fs, 1500, 1000, 256, true)).is_err());
    drop(it);
    let db = DB::open(opts(&fs, 1500, 1000, 256, false)).unwrap();
    quiesce(&db);
    let problems = check_dir(&fs, &db);
    assert!(problems.is_empty(), "{:?} files {:?}", problems, fs.list_all());
}

#[test]
fn huge_keys_and_values() {
    let fs = SimFs::new();
    let db = DB::open(opts(&fs, 4000, 1000, 1, true)).unwrap();
    let wo = WriteOptions::default();
    for i in 0..12u32 {
        let mut k = vec![b'a' + (i % 7) as u8; 70_000];
        k.extend_from_slice(format!("{i}").as_bytes());
        db.put(wo.clone(), k, vec![i as u8; 3 * 1024 * 1024 / 4]).unwrap();
        db.put(wo.clone(), format!("s{i}").into_bytes(), vec![]).unwrap();
        db.put(wo.clone(), vec![], vec![1]).unwrap();
    }
    db.compact_range(None..None);
    assert!(quiesce(&db));
    let problems = check_dir(&fs, &db);
    assert!(problems.is_empty(), "{:?} files {:?}", problems, fs.list_all());
    drop(db);
    let db = DB::open(opts(&fs, 600, 300, 64, false)).unwrap();
    assert!(quiesce(&db));
    db.compact_range(None..None);
    assert!(quiesce(&db));
    let problems = check_dir(&fs, &db);
    assert!(problems.is_empty(), "{:?} files {:?}", problems, fs.list_all());
}

#[test]
fn planted_orphans_are_reclaimed_at_open() {
    let fs = SimFs::new();
    let db = DB::open(opts(&fs, 1500, 1000, 256, true)).unwrap();
    let wo = WriteOptions::default();
    for i in 0..200u32 {
        db.put(wo.clone(), format!("k{i:04}").into_bytes(), vec![3u8; 60]).unwrap();
    }
    db.compact_range(None..None);
    quiesce(&db);
    let live = db.verif_probe().live_files.clone();
    drop(db);
    let mut img = fs.image();
    let some_table = img.files.get(std::path::Path::new(&format!("/db/data/{}.rdb", live[0]))).unwrap().clone();
    for name in [
        "/db/data/9999.rdb",
        "/db/data/1.rdb",
        "/db/wal/wal-1.log",
        "/db/777.dbtemp",
        "/db/MANIFEST-9000.manifest",
        "/db/MANIFEST-3.manifest",
        "/db/0.dbtemp",
    ] {
        img.files.insert(name.into(), some_table.clone());
    }
    // sensitivity of the checker: the planted files are seen before the open
    for reuse in [true, false] {
        let fs2 = SimFs::from_image(&img);
        let db = DB::open(opts(&fs2, 1500, 1000, 256, reuse)).unwrap();
        quiesce(&db);
        let problems = check_dir(&fs2, &db);
        assert!(problems.is_empty(), "reuse {reuse}: {:?} files {:?}", problems, fs2.list_all());
    }
    // a temp file that carries the number of a live table is the one thing that stays
    let fs3 = SimFs::from_image(&img);
    fs3.0.inner.lock().files.insert(
        format!("/db/{}.dbtemp", live[0]).into(),
        Arc::new(parking_lot::Mutex::new(vec![1, 2, 3])),
    );
    let db = DB::open(opts(&fs3, 1500, 1000, 256, true)).unwrap();
    quiesce(&db);
    println!("planted temp with live number: {:?}", check_dir(&fs3, &db));
}
