// C11 audit harness: crash-image sweep and single-fault sweep.
// run: cargo test --offline --features verif --test c11_sweep -- --nocapture
#![allow(dead_code)]

mod common_sim;
use common_sim::*;

use rand::rngs::StdRng;
use rand::{Rng, SeedableRng};
use raindb::{Batch, DbOptions, RainDbIterator, ReadOptions, WriteOptions, DB};
use std::collections::BTreeMap;
use std::sync::atomic::Ordering;
use std::sync::Arc;
use std::time::{Duration, Instant};

const DBP: &str = "/db";

#[derive(Clone, Debug)]
pub struct Cfg {
    pub memtable: usize,
    pub file: u64,
    pub block: usize,
    pub reuse: bool,
}

pub fn opts(fs: &SimFs, cfg: &Cfg) -> DbOptions {
    DbOptions {
        db_path: DBP.to_string(),
        max_memtable_size: cfg.memtable,
        max_file_size: cfg.file,
        max_block_size: cfg.block,
        filesystem_provider: Arc::new(fs.clone()),
        create_if_missing: true,
        error_if_exists: false,
        reuse_log_files: cfg.reuse,
        ..DbOptions::default()
    }
}

pub fn quiesce(db: &DB) -> bool {
    let start = Instant::now();
    let mut stable = 0;
    loop {
        let p = db.verif_probe();
        let idle = !p.background_compaction_scheduled
            && (!p.has_immutable_memtable || p.bad_state.is_some())
            && (!p.needs_compaction || p.bad_state.is_some())
            && !p.manual_compaction_pending;
        if idle {
            stable += 1;
            if stable >= 3 {
                return true;
            }
        } else {
            stable = 0;
        }
        if start.elapsed() > Duration::from_secs(10) {
            return false;
        }
        std::thread::sleep(Duration::from_millis(1));
    }
}

pub fn check_dir(fs: &SimFs, db: &DB) -> Vec<String> {
    let p = db.verif_probe();
    let mut problems = vec![];
    if p.bad_state.is_some() {
        return problems;
    }
    if p.num_versions != 1 {
        problems.push(format!("num_versions = {} at quiescence", p.num_versions));
    }
    if !p.tables_in_use.is_empty() {
        problems.push(format!("tables_in_use = {:?} at quiescence", p.tables_in_use));
    }
    let files = fs.list_all();
    let mut wal = vec![];
    let mut tables = vec![];
    for f in &files {
        let rel = f.strip_prefix("/db/").unwrap_or(f).to_string();
        if rel == "CURRENT" || rel == "LOCK" {
            continue;
        }
        if rel == format!("MANIFEST-{}.manifest", p.manifest_file_number) {
            continue;
        }
        if let Some(r) = rel.strip_prefix("wal/wal-") {
            if let Some(n) = r.strip_suffix(".log") {
                wal.push(n.parse::<u64>().unwrap());
                continue;
            }
        }
        if let Some(r) = rel.strip_prefix("data/") {
            if let Some(n) = r.strip_suffix(".rdb") {
                tables.push(n.parse::<u64>().unwrap());
                continue;
            }
        }
        problems.push(format!("unexpected file {rel}"));
    }
    wal.sort();
    tables.sort();
    if wal.len() != 1 {
        problems.push(format!(
            "wal files {:?} (version set wal number {})",
            wal, p.curr_wal_number
        ));
    } else if wal[0] < p.curr_wal_number {
        problems.push(format!(
            "wal file {:?} older than version set wal number {}",
            wal, p.curr_wal_number
        ));
    }
    if tables != p.live_files {
        problems.push(format!(
            "tables on disk {:?} != live {:?}",
            tables, p.live_files
        ));
    }
    if !files.iter().any(|f| f == "/db/CURRENT") {
        problems.push("CURRENT missing".to_string());
    }
    if !files
        .iter()
        .any(|f| *f == format!("/db/MANIFEST-{}.manifest", p.manifest_file_number))
    {
        problems.push("current manifest missing".to_string());
    }
    problems
}

pub type Model = BTreeMap<Vec<u8>, Vec<u8>>;

pub fn scan(db: &DB) -> Result<Model, String> {
    let mut it = db
        .new_iterator(ReadOptions::default())
        .map_err(|e| e.to_string())?;
    it.seek_to_first().map_err(|e| e.to_string())?;
    let mut out = Model::new();
    while it.is_valid() {
        let (k, v) = it.current().unwrap();
        out.insert(k.clone(), v.clone());
        it.next();
    }
    if let Some(e) = it.status() {
        return Err(e.to_string());
    }
    Ok(out)
}

fn key(rng: &mut StdRng, space: u32) -> Vec<u8> {
    format!("k{:05}", rng.gen_range(0..space)).into_bytes()
}

fn val(rng: &mut StdRng) -> Vec<u8> {
    let len = match rng.gen_range(0..20) {
        0 => 0,
        1 => rng.gen_range(1000..3000),
        _ => rng.gen_range(1..120),
    };
    let b: u8 = rng.gen();
    (0..len).map(|i| b.wrapping_add(i as u8)).collect()
}

/// A workload that tolerates errors. Returns the database (if it is open at the end).
pub fn workload(fs: &SimFs, cfg: &Cfg, seed: u64, nops: usize, reopen_mid: bool) -> Option<DB> {
    let mut rng = StdRng::seed_from_u64(seed);
    let mut db = match DB::open(opts(fs, cfg)) {
        Ok(d) => Some(d),
        Err(_) => return None,
    };
    let wo = WriteOptions::default();
    for i in 0..nops {
        let d = match db.as_ref() {
            Some(d) => d,
            None => return None,
        };
        let r = rng.gen_range(0..100);
        match r {
            0..=64 => {
                let _ = d.put(wo.clone(), key(&mut rng, 60), val(&mut rng));
            }
            65..=74 => {
                let _ = d.delete(wo.clone(), key(&mut rng, 60));
            }
            75..=84 => {
                let mut b = Batch::new();
                for _ in 0..rng.gen_range(0..8) {
                    b.add_put(key(&mut rng, 60), val(&mut rng));
                }
                let _ = d.apply(wo.clone(), b);
            }
            85..=92 => {
                let _ = d.get(ReadOptions::default(), &key(&mut rng, 60));
            }
            _ => {
                if d.verif_probe().bad_state.is_none() {
                    d.compact_range(None..None);
                }
            }
        }
        if reopen_mid && i == nops / 2 {
            drop(db.take());
            let mut c2 = cfg.clone();
            c2.reuse = !c2.reuse;
            db = DB::open(opts(fs, &c2)).ok();
        }
    }
    db
}

fn cfgs() -> Vec<Cfg> {
    vec![
        Cfg {
            memtable: 1500,
            file: 1000,
            block: 256,
            reuse: true,
        },
        Cfg {
            memtable: 1500,
            file: 1000,
            block: 256,
            reuse: false,
        },
        Cfg {
            memtable: 600,
            file: 300,
            block: 64,
            reuse: true,
        },
    ]
}

/// Reopen an image and verify that the directory ends up exact. Returns problems.
fn verify_image(img: &Image, cfg: &Cfg, label: &str) -> Vec<String> {
    let fs = SimFs::from_image(img);
    let mut problems = vec![];
    let db = match DB::open(opts(&fs, cfg)) {
        Ok(d) => d,
        Err(e) => {
            // Only crash images in which CURRENT exists are expected to open.
            return vec![format!("{label}: open failed: {e}")];
        }
    };
    if !quiesce(&db) {
        problems.push(format!("{label}: no quiescence after open"));
        return problems;
    }
    for p in check_dir(&fs, &db) {
        problems.push(format!("{label}: after open: {p}; files {:?}", fs.list_all()));
    }
    if let Err(e) = scan(&db) {
        problems.push(format!("{label}: scan after open: {e}"));
    }
    // some more work, then check again
    let wo = WriteOptions::default();
    for i in 0..30u32 {
        let _ = db.put(wo.clone(), format!("x{i:04}").into_bytes(), vec![7u8; 100]);
    }
    db.compact_range(None..None);
    if !quiesce(&db) {
        problems.push(format!("{label}: no quiescence after work"));
        return problems;
    }
    for p in check_dir(&fs, &db) {
        problems.push(format!("{label}: after work: {p}; files {:?}", fs.list_all()));
    }
    if let Err(e) = scan(&db) {
        problems.push(format!("{label}: scan after work: {e}"));
    }
    drop(db);
    // and a second open, with the other reuse setting
    let mut c2 = cfg.clone();
    c2.reuse = !c2.reuse;
    match DB::open(opts(&fs, &c2)) {
        Ok(db) => {
            quiesce(&db);
            for p in check_dir(&fs, &db) {
                problems.push(format!("{label}: after 2nd open: {p}; files {:?}", fs.list_all()));
            }
        }
        Err(e) => problems.push(format!("{label}: 2nd open failed: {e}")),
    }
    problems
}

#[test]
fn crash_images() {
    let nops: usize = std::env::var("C11_OPS")
        .ok()
        .and_then(|s| s.parse().ok())
        .unwrap_or(120);
    let seeds: u64 = std::env::var("C11_SEEDS")
        .ok()
        .and_then(|s| s.parse().ok())
        .unwrap_or(2);
    let mut images = 0usize;
    let mut open_failures = 0usize;
    let mut all_problems: Vec<String> = vec![];
    for seed in 0..seeds {
        for (ci, cfg) in cfgs().iter().enumerate() {
            let fs = SimFs::new();
            fs.0.snap_all.store(true, Ordering::SeqCst);
            let db = workload(&fs, cfg, seed, nops, true);
            drop(db);
            fs.0.snap_all.store(false, Ordering::SeqCst);
            let snaps = std::mem::take(&mut *fs.0.snaps.lock());
            println!("seed {seed} cfg {ci}: {} crash images", snaps.len());
            // sample images to bound the run time
            let step = std::cmp::max(1, snaps.len() / 400);
            for (idx, (n, what, img)) in snaps.iter().enumerate() {
                if idx % step != 0 && !what.contains("rename") && !what.contains("MANIFEST")
                    && !what.contains("dbtemp") && !what.contains("CURRENT")
                {
                    continue;
                }
                if !img.files.contains_key(std::path::Path::new("/db/CURRENT")) {
                    continue;
                }
                images += 1;
                for reopen_cfg in [cfg.clone(), Cfg { reuse: !cfg.reuse, ..cfg.clone() }] {
                    let label = format!("seed {seed} cfg {ci} op {n} ({what}) reuse={}", reopen_cfg.reuse);
                    let problems = verify_image(img, &reopen_cfg, &label);
                    for p in problems {
                        if p.contains("open failed") {
                            open_failures += 1;
                        }
                        all_problems.push(p);
                    }
                }
            }
        }
    }
    println!("crash_images: {images} images, {} problems, {open_failures} open failures", all_problems.len());
    for p in all_problems.iter().take(40) {
        println!("PROBLEM {p}");
    }
    assert!(all_problems.is_empty());
}

#[test]
fn fault_sweep() {
    let nops: usize = std::env::var("C11_OPS")
        .ok()
        .and_then(|s| s.parse().ok())
        .unwrap_or(120);
    let seeds: u64 = std::env::var("C11_SEEDS")
        .ok()
        .and_then(|s| s.parse().ok())
        .unwrap_or(2);
    let points: u64 = std::env::var("C11_POINTS")
        .ok()
        .and_then(|s| s.parse().ok())
        .unwrap_or(150);
    let mut runs = 0usize;
    let mut all_problems: Vec<String> = vec![];
    for seed in 0..seeds {
        for (ci, cfg) in cfgs().iter().enumerate() {
            // reference run to learn the number of mutating ops
            let total = {
                let fs = SimFs::new();
                let db = workload(&fs, cfg, seed, nops, true);
                drop(db);
                fs.ops()
            };
            let step = std::cmp::max(1, total / points);
            let mut k = 0;
            while k < total {
                for (kind, sticky) in [
                    (FaultKind::Fail, false),
                    (FaultKind::Torn, false),
                    (FaultKind::Fail, true),
                ] {
                    runs += 1;
                    let fs = SimFs::new();
                    fs.set_fault(k, kind.clone(), sticky);
                    let db = workload(&fs, cfg, seed, nops, true);
                    let label = format!("seed {seed} cfg {ci} fault@{k} {:?} sticky={sticky} fired={:?}", kind, fs.0.fault_fired.lock().first());
                    fs.clear_fault();
                    if let Some(db) = db {
                        // the fault is over; if the database did not enter its error state the
                        // directory must become exact again after one more flush
                        if quiesce(&db) {
                            if db.verif_probe().bad_state.is_none() {
                                db.compact_range(Some(b"zzzz".as_slice())..Some(b"zzzzz".as_slice()));
                                quiesce(&db);
                                for p in check_dir(&fs, &db) {
                                    all_problems.push(format!("{label}: live after fault: {p}; files {:?}", fs.list_all()));
                                }
                                if let Err(e) = scan(&db) {
                                    all_problems.push(format!("{label}: scan live after fault: {e}"));
                                }
                            }
                        } else {
                            all_problems.push(format!("{label}: no quiescence {:?}", db.verif_probe()));
                        }
                        drop(db);
                    }
                    if fs.image().files.contains_key(std::path::Path::new("/db/CURRENT")) {
                        let img = fs.image();
                        for p in verify_image(&img, cfg, &label) {
                            all_problems.push(p);
                        }
                    }
                }
                k += step;
            }
        }
    }
    println!("fault_sweep: {runs} runs, {} problems", all_problems.len());
    for p in all_problems.iter().take(40) {
        println!("PROBLEM {p}");
    }
    assert!(all_problems.is_empty());
}
