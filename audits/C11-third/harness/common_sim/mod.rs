// Shared simulation filesystem for the C11 audit harness.
#![allow(dead_code)]

use parking_lot::Mutex;
use raindb::fs::{
    FileLock, FileSystem, RandomAccessFile, ReadonlyRandomAccessFile, UnlockableFile,
};
use std::collections::{BTreeMap, BTreeSet, HashSet};
use std::io::{self, Read, Seek, SeekFrom, Write};
use std::path::{Path, PathBuf};
use std::sync::atomic::{AtomicBool, AtomicU64, Ordering};
use std::sync::Arc;

pub type Data = Arc<Mutex<Vec<u8>>>;

#[derive(Clone, Default)]
pub struct Image {
    pub files: BTreeMap<PathBuf, Vec<u8>>,
    pub dirs: BTreeSet<PathBuf>,
}

#[derive(Default)]
pub struct Inner {
    pub files: BTreeMap<PathBuf, Data>,
    pub dirs: BTreeSet<PathBuf>,
    pub locked: HashSet<PathBuf>,
}

#[derive(Clone, Debug, PartialEq, Eq)]
pub enum FaultKind {
    /// the op fails with an error and has no effect
    Fail,
    /// for appends: half of the bytes are written, then error
    Torn,
}

pub struct Shared {
    pub inner: Mutex<Inner>,
    /// counter of mutating ops
    pub ops: AtomicU64,
    /// fail the mutating op with this index (one-shot) ; u64::MAX = none
    pub fault_at: AtomicU64,
    pub fault_kind: Mutex<FaultKind>,
    /// fail every mutating op from fault_at on
    pub fault_sticky: AtomicBool,
    pub fault_fired: Mutex<Vec<String>>,
    /// take snapshot before each mutating op
    pub snap_all: AtomicBool,
    pub snaps: Mutex<Vec<(u64, String, Image)>>,
    pub log: Mutex<Vec<String>>,
    pub log_on: AtomicBool,
}

#[derive(Clone)]
pub struct SimFs(pub Arc<Shared>);

impl SimFs {
    pub fn new() -> Self {
        SimFs(Arc::new(Shared {
            inner: Mutex::new(Inner::default()),
            ops: AtomicU64::new(0),
            fault_at: AtomicU64::new(u64::MAX),
            fault_kind: Mutex::new(FaultKind::Fail),
            fault_sticky: AtomicBool::new(false),
            fault_fired: Mutex::new(vec![]),
            snap_all: AtomicBool::new(false),
            snaps: Mutex::new(vec![]),
            log: Mutex::new(vec![]),
            log_on: AtomicBool::new(false),
        }))
    }

    pub fn from_image(img: &Image) -> Self {
        let fs = SimFs::new();
        {
            let mut inner = fs.0.inner.lock();
            for (p, d) in &img.files {
                inner.files.insert(p.clone(), Arc::new(Mutex::new(d.clone())));
            }
            inner.dirs = img.dirs.clone();
        }
        fs
    }

    pub fn image(&self) -> Image {
        let inner = self.0.inner.lock();
        Shared::image_of(&inner)
    }

    pub fn list_all(&self) -> Vec<String> {
        let inner = self.0.inner.lock();
        inner
            .files
            .keys()
            .map(|p| p.to_string_lossy().to_string())
            .collect()
    }

    pub fn ops(&self) -> u64 {
        self.0.ops.load(Ordering::SeqCst)
    }

    pub fn set_fault(&self, at: u64, kind: FaultKind, sticky: bool) {
        *self.0.fault_kind.lock() = kind;
        self.0.fault_sticky.store(sticky, Ordering::SeqCst);
        self.0.fault_at.store(at, Ordering::SeqCst);
    }

    pub fn clear_fault(&self) {
        self.0.fault_at.store(u64::MAX, Ordering::SeqCst);
        self.0.fault_sticky.store(false, Ordering::SeqCst);
    }
}

impl Shared {
    fn image_of(inner: &Inner) -> Image {
        Image {
            files: inner
                .files
                .iter()
                .map(|(p, d)| (p.clone(), d.lock().clone()))
                .collect(),
            dirs: inner.dirs.clone(),
        }
    }

    /// Called before each mutating op (with inner NOT locked). Returns Some(kind) if the op must fail.
    fn before_mutation(&self, what: &str) -> Option<FaultKind> {
        let n = self.ops.fetch_add(1, Ordering::SeqCst);
        if self.log_on.load(Ordering::Relaxed) {
            self.log.lock().push(format!("{n}: {what}"));
        }
        if self.snap_all.load(Ordering::Relaxed) {
            let inner = self.inner.lock();
            let img = Shared::image_of(&inner);
            drop(inner);
            self.snaps.lock().push((n, what.to_string(), img));
        }
        let at = self.fault_at.load(Ordering::SeqCst);
        if at != u64::MAX {
            let sticky = self.fault_sticky.load(Ordering::SeqCst);
            if n == at || (sticky && n > at) {
                if !sticky {
                    self.fault_at.store(u64::MAX, Ordering::SeqCst);
                }
                self.fault_fired.lock().push(format!("{n}: {what}"));
                return Some(self.fault_kind.lock().clone());
            }
        }
        None
    }
}

fn injected() -> io::Error {
    io::Error::new(io::ErrorKind::Other, "injected fault")
}

pub struct SimFile {
    shared: Arc<Shared>,
    path: PathBuf,
    data: Data,
    cursor: u64,
}

impl Read for SimFile {
    fn read(&mut self, buf: &mut [u8]) -> io::Result<usize> {
        let d = self.data.lock();
        let len = d.len() as u64;
        if self.cursor >= len {
            return Ok(0);
        }
        let n = std::cmp::min(buf.len() as u64, len - self.cursor) as usize;
        buf[..n].copy_from_slice(&d[self.cursor as usize..self.cursor as usize + n]);
        self.cursor += n as u64;
        Ok(n)
    }
}

impl Seek for SimFile {
    fn seek(&mut self, pos: SeekFrom) -> io::Result<u64> {
        let len = self.data.lock().len() as i64;
        let new = match pos {
            SeekFrom::Start(p) => p as i64,
            SeekFrom::End(o) => len + o,
            SeekFrom::Current(o) => self.cursor as i64 + o,
        };
        if new < 0 {
            return Err(io::Error::new(io::ErrorKind::InvalidInput, "negative seek"));
        }
        self.cursor = new as u64;
        Ok(self.cursor)
    }
}

impl Write for SimFile {
    fn write(&mut self, buf: &[u8]) -> io::Result<usize> {
        match self
            .shared
            .before_mutation(&format!("write {} {}", self.path.display(), buf.len()))
        {
            Some(FaultKind::Fail) => return Err(injected()),
            Some(FaultKind::Torn) => {
                let half = buf.len() / 2;
                self.data.lock().extend_from_slice(&buf[..half]);
                return Err(injected());
            }
            None => {}
        }
        if self.shared.snap_all.load(Ordering::Relaxed) && buf.len() > 1 {
            // an additional crash image with a torn write
            let n = self.shared.ops.load(Ordering::SeqCst) - 1;
            let mut img = {
                let inner = self.shared.inner.lock();
                Shared::image_of(&inner)
            };
            if let Some(d) = img.files.get_mut(&self.path) {
                d.extend_from_slice(&buf[..buf.len() / 2]);
                self.shared
                    .snaps
                    .lock()
                    .push((n, format!("torn write {}", self.path.display()), img));
            }
        }
        self.data.lock().extend_from_slice(buf);
        Ok(buf.len())
    }

    fn flush(&mut self) -> io::Result<()> {
        Ok(())
    }
}

impl ReadonlyRandomAccessFile for SimFile {
    fn read_from(&self, buf: &mut [u8], offset: usize) -> io::Result<usize> {
        let d = self.data.lock();
        if offset >= d.len() {
            return Ok(0);
        }
        let n = std::cmp::min(buf.len(), d.len() - offset);
        buf[..n].copy_from_slice(&d[offset..offset + n]);
        Ok(n)
    }

    fn len(&self) -> io::Result<u64> {
        Ok(self.data.lock().len() as u64)
    }
}

impl RandomAccessFile for SimFile {
    fn append(&mut self, buf: &[u8]) -> io::Result<usize> {
        self.write(buf)
    }
}

pub struct SimLock {
    shared: Arc<Shared>,
    path: PathBuf,
}

impl UnlockableFile for SimLock {
    fn unlock(&self) -> io::Result<()> {
        self.shared.inner.lock().locked.remove(&self.path);
        Ok(())
    }
}

impl FileSystem for SimFs {
    fn get_name(&self) -> String {
        "SimFs".to_string()
    }

    fn create_dir(&self, path: &Path) -> io::Result<()> {
        let mut inner = self.0.inner.lock();
        if inner.dirs.contains(path) {
            return Err(io::Error::new(io::ErrorKind::AlreadyExists, "exists"));
        }
        inner.dirs.insert(path.to_path_buf());
        Ok(())
    }

    fn create_dir_all(&self, path: &Path) -> io::Result<()> {
        let mut inner = self.0.inner.lock();
        let mut p = Some(path);
        while let Some(q) = p {
            if q.as_os_str().is_empty() {
                break;
            }
            inner.dirs.insert(q.to_path_buf());
            p = q.parent();
        }
        Ok(())
    }

    fn list_dir(&self, path: &Path) -> io::Result<Vec<PathBuf>> {
        let inner = self.0.inner.lock();
        if !inner.dirs.contains(path) {
            return Err(io::Error::new(io::ErrorKind::NotFound, "no such dir"));
        }
        let mut out = vec![];
        for p in inner.files.keys() {
            if p.parent() == Some(path) {
                out.push(p.clone());
            }
        }
        for p in inner.dirs.iter() {
            if p.parent() == Some(path) {
                out.push(p.clone());
            }
        }
        Ok(out)
    }

    fn open_file(&self, path: &Path) -> io::Result<Box<dyn ReadonlyRandomAccessFile>> {
        let inner = self.0.inner.lock();
        match inner.files.get(path) {
            Some(d) => Ok(Box::new(SimFile {
                shared: Arc::clone(&self.0),
                path: path.to_path_buf(),
                data: Arc::clone(d),
                cursor: 0,
            })),
            None => Err(io::Error::new(
                io::ErrorKind::NotFound,
                format!("not found: {}", path.display()),
            )),
        }
    }

    fn rename(&self, from: &Path, to: &Path) -> io::Result<()> {
        if self
            .0
            .before_mutation(&format!("rename {} {}", from.display(), to.display()))
            .is_some()
        {
            return Err(injected());
        }
        let mut inner = self.0.inner.lock();
        match inner.files.remove(from) {
            Some(d) => {
                inner.files.insert(to.to_path_buf(), d);
                Ok(())
            }
            None => Err(io::Error::new(io::ErrorKind::NotFound, "rename source")),
        }
    }

    fn create_file(&self, path: &Path, append: bool) -> io::Result<Box<dyn RandomAccessFile>> {
        if self
            .0
            .before_mutation(&format!("create {} append={}", path.display(), append))
            .is_some()
        {
            return Err(injected());
        }
        let mut inner = self.0.inner.lock();
        if let Some(parent) = path.parent() {
            if !inner.dirs.contains(parent) {
                return Err(io::Error::new(io::ErrorKind::NotFound, "parent dir missing"));
            }
        }
        let data = if append {
            match inner.files.get(path) {
                Some(d) => Arc::clone(d),
                None => {
                    let d: Data = Arc::new(Mutex::new(vec![]));
                    inner.files.insert(path.to_path_buf(), Arc::clone(&d));
                    d
                }
            }
        } else {
            // truncation of an existing file: same inode, contents cleared (POSIX O_TRUNC)
            match inner.files.get(path) {
                Some(d) => {
                    d.lock().clear();
                    Arc::clone(d)
                }
                None => {
                    let d: Data = Arc::new(Mutex::new(vec![]));
                    inner.files.insert(path.to_path_buf(), Arc::clone(&d));
                    d
                }
            }
        };
        Ok(Box::new(SimFile {
            shared: Arc::clone(&self.0),
            path: path.to_path_buf(),
            data,
            cursor: 0,
        }))
    }

    fn remove_file(&self, path: &Path) -> io::Result<()> {
        if self
            .0
            .before_mutation(&format!("remove {}", path.display()))
            .is_some()
        {
            return Err(injected());
        }
        let mut inner = self.0.inner.lock();
        match inner.files.remove(path) {
            Some(_) => Ok(()),
            None => Err(io::Error::new(io::ErrorKind::NotFound, "remove: not found")),
        }
    }

    fn remove_dir(&self, path: &Path) -> io::Result<()> {
        let mut inner = self.0.inner.lock();
        if inner.files.keys().any(|p| p.parent() == Some(path))
            || inner.dirs.iter().any(|p| p.parent() == Some(path))
        {
            return Err(io::Error::new(io::ErrorKind::Other, "dir not empty"));
        }
        inner.dirs.remove(path);
        Ok(())
    }

    fn remove_dir_all(&self, path: &Path) -> io::Result<()> {
        let mut inner = self.0.inner.lock();
        let files: Vec<PathBuf> = inner
            .files
            .keys()
            .filter(|p| p.starts_with(path))
            .cloned()
            .collect();
        for f in files {
            inner.files.remove(&f);
        }
        let dirs: Vec<PathBuf> = inner
            .dirs
            .iter()
            .filter(|p| p.starts_with(path))
            .cloned()
            .collect();
        for d in dirs {
            inner.dirs.remove(&d);
        }
        Ok(())
    }

    fn get_file_size(&self, path: &Path) -> io::Result<u64> {
        let inner = self.0.inner.lock();
        match inner.files.get(path) {
            Some(d) => Ok(d.lock().len() as u64),
            None => Err(io::Error::new(io::ErrorKind::NotFound, "size: not found")),
        }
    }

    fn is_dir(&self, path: &Path) -> io::Result<bool> {
        let inner = self.0.inner.lock();
        if inner.dirs.contains(path) {
            return Ok(true);
        }
        if inner.files.contains_key(path) {
            return Ok(false);
        }
        Err(io::Error::new(io::ErrorKind::NotFound, "is_dir: not found"))
    }

    fn lock_file(&self, path: &Path) -> io::Result<FileLock> {
        let mut inner = self.0.inner.lock();
        if inner.locked.contains(path) {
            return Err(io::Error::new(io::ErrorKind::WouldBlock, "already locked"));
        }
        if !inner.files.contains_key(path) {
            inner
                .files
                .insert(path.to_path_buf(), Arc::new(Mutex::new(vec![])));
        }
        inner.locked.insert(path.to_path_buf());
        Ok(FileLock::new(Box::new(SimLock {
            shared: Arc::clone(&self.0),
            path: path.to_path_buf(),
        })))
    }
}
