// Crash-point and single-fault sweeps with a simulated file system.
// Run: MODE=crash SEEDS=0..50 cargo test --offline --features verif --test audit_faults -- --nocapture
//      MODE=fault SEEDS=0..50 cargo test --offline --features verif --test audit_faults -- --nocapture

use raindb::fs::{
    FileLock, FileSystem, RandomAccessFile, ReadonlyRandomAccessFile, UnlockableFile,
};
use raindb::{Batch, DbOptions, RainDBError, ReadOptions, WriteOptions, DB};
use rand::rngs::StdRng;
use rand::{Rng, SeedableRng};
use std::collections::{BTreeMap, BTreeSet};
use std::io::{self, Read, Seek, SeekFrom, Write};
use std::path::{Path, PathBuf};
use std::sync::atomic::{AtomicBool, AtomicU64, Ordering};
use std::sync::{Arc, Mutex};

type FileData = Arc<Mutex<Vec<u8>>>;

#[derive(Default)]
struct Shared {
    files: Mutex<BTreeMap<PathBuf, FileData>>,
    locks: Mutex<BTreeSet<PathBuf>>,
    ticks: AtomicU64,
    acked: AtomicU64,
    // crash mode
    crash_prob_inv: AtomicU64, // 0 = off
    rng: Mutex<Option<StdRng>>,
    snaps: Mutex<Vec<Snap>>,
    // fault mode
    fail_from: AtomicU64, // tick at which failing starts (u64::MAX = off)
    fail_count: AtomicU64, // how many mutation ops fail
    fail_torn: AtomicBool,
    fail_log: Mutex<Vec<String>>,
}

struct Snap {
    tick: u64,
    acked: u64,
    acked_after: u64,
    what: String,
    files: BTreeMap<PathBuf, Vec<u8>>,
}

impl Shared {
    fn copy_files(&self) -> BTreeMap<PathBuf, Vec<u8>> {
        self.files
            .lock()
            .unwrap()
            .iter()
            .map(|(p, d)| (p.clone(), d.lock().unwrap().clone()))
            .collect()
    }

    /// Called before every mutation. `pending` is (file data, bytes about to be appended).
    fn tick(&self, what: &str, path: &Path, pending: Option<(&FileData, &[u8])>) -> io::Result<()> {
        let t = self.ticks.fetch_add(1, Ordering::SeqCst);
        let inv = self.crash_prob_inv.load(Ordering::SeqCst);
        if inv > 0 {
            let mut take = false;
            let mut torn = false;
            {
                let mut g = self.rng.lock().unwrap();
                let r = g.as_mut().unwrap();
                if r.gen_range(0..inv) == 0 {
                    take = true;
                    torn = r.gen_bool(0.5);
                }
            }
            if take && self.snaps.lock().unwrap().len() < 80 {
                let acked_before = self.acked.load(Ordering::SeqCst);
                let mut files = self.copy_files();
                let mut desc = format!("before {what} {}", path.display());
                if torn {
                    if let Some((_, bytes)) = pending {
                        if bytes.len() > 1 {
                            let cut = bytes.len() / 2;
                            files.get_mut(path).map(|f| f.extend_from_slice(&bytes[..cut]));
                            desc = format!("torn {what} {} ({} of {} bytes)", path.display(), cut, bytes.len());
                        }
                    }
                }
                self.snaps.lock().unwrap().push(Snap {
                    tick: t,
                    acked: acked_before,
                    acked_after: self.acked.load(Ordering::SeqCst),
                    what: desc,
                    files,
                });
            }
        }
        let from = self.fail_from.load(Ordering::SeqCst);
        if t >= from && t < from.saturating_add(self.fail_count.load(Ordering::SeqCst)) {
            let mut torn_note = String::new();
            if self.fail_torn.load(Ordering::SeqCst) {
                if let Some((data, bytes)) = pending {
                    let cut = bytes.len() / 2;
                    data.lock().unwrap().extend_from_slice(&bytes[..cut]);
                    torn_note = format!(" torn {cut}/{}", bytes.len());
                }
            }
            self.fail_log
                .lock()
                .unwrap()
                .push(format!("tick {t}: fail {what} {}{torn_note}", path.display()));
            return Err(io::Error::new(io::ErrorKind::Other, "injected fault"));
        }
        Ok(())
    }
}

struct SimFs(Arc<Shared>);

struct SimFile {
    path: PathBuf,
    data: FileData,
    pos: u64,
    shared: Arc<Shared>,
}

impl Read for SimFile {
    fn read(&mut self, buf: &mut [u8]) -> io::Result<usize> {
        let d = self.data.lock().unwrap();
        let pos = (self.pos as usize).min(d.len());
        let n = buf.len().min(d.len() - pos);
        buf[..n].copy_from_slice(&d[pos..pos + n]);
        self.pos = (pos + n) as u64;
        Ok(n)
    }
}

impl Seek for SimFile {
    fn seek(&mut self, pos: SeekFrom) -> io::Result<u64> {
        let len = self.data.lock().unwrap().len() as i64;
        let np = match pos {
            SeekFrom::Start(p) => p as i64,
            SeekFrom::End(o) => len + o,
            SeekFrom::Current(o) => self.pos as i64 + o,
        };
        if np < 0 {
            return Err(io::Error::new(io::ErrorKind::InvalidInput, "negative seek"));
        }
        self.pos = np as u64;
        Ok(self.pos)
    }
}

impl Write for SimFile {
    fn write(&mut self, buf: &[u8]) -> io::Result<usize> {
        // all writes are appends in raindb
        self.shared.tick("write", &self.path, Some((&self.data, buf)))?;
        self.data.lock().unwrap().extend_from_slice(buf);
        Ok(buf.len())
    }
    fn flush(&mut self) -> io::Result<()> {
        Ok(())
    }
}

impl ReadonlyRandomAccessFile for SimFile {
    fn read_from(&self, buf: &mut [u8], offset: usize) -> io::Result<usize> {
        let d = self.data.lock().unwrap();
        if offset > d.len() {
            return Err(io::Error::new(io::ErrorKind::UnexpectedEof, "offset past end"));
        }
        let n = buf.len().min(d.len() - offset);
        buf[..n].copy_from_slice(&d[offset..offset + n]);
        Ok(n)
    }
    fn len(&self) -> io::Result<u64> {
        Ok(self.data.lock().unwrap().len() as u64)
    }
}

impl RandomAccessFile for SimFile {
    fn append(&mut self, buf: &[u8]) -> io::Result<usize> {
        self.write(buf)
    }
}

struct SimLock {
    path: PathBuf,
    shared: Arc<Shared>,
}

impl UnlockableFile for SimLock {
    fn unlock(&self) -> io::Result<()> {
        self.shared.locks.lock().unwrap().remove(&self.path);
        Ok(())
    }
}

impl FileSystem for SimFs {
    fn get_name(&self) -> String {
        "SimFs".into()
    }
    fn create_dir(&self, _p: &Path) -> io::Result<()> {
        Ok(())
    }
    fn create_dir_all(&self, _p: &Path) -> io::Result<()> {
        Ok(())
    }
    fn list_dir(&self, path: &Path) -> io::Result<Vec<PathBuf>> {
        let files = self.0.files.lock().unwrap();
        let mut out = BTreeSet::new();
        for k in files.keys() {
            if let Ok(rest) = k.strip_prefix(path) {
                if let Some(first) = rest.components().next() {
                    out.insert(path.join(first));
                }
            }
        }
        Ok(out.into_iter().collect())
    }
    fn open_file(&self, path: &Path) -> io::Result<Box<dyn ReadonlyRandomAccessFile>> {
        let files = self.0.files.lock().unwrap();
        match files.get(path) {
            Some(d) => Ok(Box::new(SimFile {
                path: path.to_path_buf(),
                data: d.clone(),
                pos: 0,
                shared: self.0.clone(),
            })),
            None => Err(io::Error::new(io::ErrorKind::NotFound, "no such file")),
        }
    }
    fn rename(&self, from: &Path, to: &Path) -> io::Result<()> {
        self.0.tick("rename", to, None)?;
        let mut files = self.0.files.lock().unwrap();
        match files.remove(from) {
            Some(d) => {
                files.insert(to.to_path_buf(), d);
                Ok(())
            }
            None => Err(io::Error::new(io::ErrorKind::NotFound, "no such file")),
        }
    }
    fn create_file(&self, path: &Path, append: bool) -> io::Result<Box<dyn RandomAccessFile>> {
        self.0.tick("create", path, None)?;
        let mut files = self.0.files.lock().unwrap();
        let d = if append && files.contains_key(path) {
            files.get(path).unwrap().clone()
        } else {
            let d: FileData = Arc::new(Mutex::new(vec![]));
            files.insert(path.to_path_buf(), d.clone());
            d
        };
        let pos = d.lock().unwrap().len() as u64;
        Ok(Box::new(SimFile {
            path: path.to_path_buf(),
            data: d,
            pos,
            shared: self.0.clone(),
        }))
    }
    fn remove_file(&self, path: &Path) -> io::Result<()> {
        self.0.tick("remove", path, None)?;
        match self.0.files.lock().unwrap().remove(path) {
            Some(_) => Ok(()),
            None => Err(io::Error::new(io::ErrorKind::NotFound, "no such file")),
        }
    }
    fn remove_dir(&self, _p: &Path) -> io::Result<()> {
        Ok(())
    }
    fn remove_dir_all(&self, path: &Path) -> io::Result<()> {
        self.0.files.lock().unwrap().retain(|k, _| !k.starts_with(path));
        Ok(())
    }
    fn get_file_size(&self, path: &Path) -> io::Result<u64> {
        match self.0.files.lock().unwrap().get(path) {
            Some(d) => Ok(d.lock().unwrap().len() as u64),
            None => Err(io::Error::new(io::ErrorKind::NotFound, "no such file")),
        }
    }
    fn is_dir(&self, path: &Path) -> io::Result<bool> {
        let files = self.0.files.lock().unwrap();
        if files.contains_key(path) {
            return Ok(false);
        }
        Ok(files.keys().any(|k| k.starts_with(path)))
    }
    fn lock_file(&self, path: &Path) -> io::Result<FileLock> {
        {
            let mut files = self.0.files.lock().unwrap();
            files
                .entry(path.to_path_buf())
                .or_insert_with(|| Arc::new(Mutex::new(vec![])));
        }
        let mut locks = self.0.locks.lock().unwrap();
        if !locks.insert(path.to_path_buf()) {
            return Err(io::Error::new(io::ErrorKind::Other, "already locked"));
        }
        Ok(FileLock::new(Box::new(SimLock {
            path: path.to_path_buf(),
            shared: self.0.clone(),
        })))
    }
}

type Op = Vec<(Vec<u8>, Option<Vec<u8>>)>;

fn gen_op(rng: &mut StdRng) -> Op {
    let nk = 40;
    let key = |rng: &mut StdRng| format!("k{:03}", rng.gen_range(0..nk)).into_bytes();
    let val = |rng: &mut StdRng| {
        let len = match rng.gen_range(0..100) {
            0..=9 => 0,
            10..=79 => rng.gen_range(1..120),
            80..=97 => rng.gen_range(120..900),
            _ => rng.gen_range(30_000..70_000),
        };
        let tag: u8 = rng.gen();
        (0..len).map(|i| tag.wrapping_add((i % 7) as u8)).collect::<Vec<u8>>()
    };
    let r = rng.gen_range(0..100);
    if r < 60 {
        vec![(key(rng), Some(val(rng)))]
    } else if r < 85 {
        vec![(key(rng), None)]
    } else {
        (0..rng.gen_range(0..8))
            .map(|_| {
                let k = key(rng);
                if rng.gen_bool(0.7) {
                    (k, Some(val(rng)))
                } else {
                    (k, None)
                }
            })
            .collect()
    }
}

fn apply_model(model: &mut BTreeMap<Vec<u8>, Vec<u8>>, op: &Op) {
    for (k, v) in op {
        match v {
            Some(v) => {
                model.insert(k.clone(), v.clone());
            }
            None => {
                model.remove(k);
            }
        }
    }
}

fn to_batch(op: &Op) -> Batch {
    let mut b = Batch::new();
    for (k, v) in op {
        match v {
            Some(v) => {
                b.add_put(k.clone(), v.clone());
            }
            None => {
                b.add_delete(k.clone());
            }
        }
    }
    b
}

fn all_keys() -> Vec<Vec<u8>> {
    (0..40).map(|i| format!("k{:03}", i).into_bytes()).collect()
}

fn read_all(db: &DB) -> Result<BTreeMap<Vec<u8>, Vec<u8>>, String> {
    let mut m = BTreeMap::new();
    for k in all_keys() {
        match db.get(ReadOptions::default(), &k) {
            Ok(v) => {
                m.insert(k, v);
            }
            Err(RainDBError::KeyNotFound) => {}
            Err(e) => return Err(format!("get {:?} failed: {e:?}", String::from_utf8_lossy(&k))),
        }
    }
    Ok(m)
}

fn diff(a: &BTreeMap<Vec<u8>, Vec<u8>>, b: &BTreeMap<Vec<u8>, Vec<u8>>) -> String {
    let mut s = String::new();
    for k in all_keys() {
        if a.get(&k) != b.get(&k) {
            s += &format!(
                " {}: db={:?} model={:?};",
                String::from_utf8_lossy(&k),
                a.get(&k).map(|v| (v.len(), v.first().copied())),
                b.get(&k).map(|v| (v.len(), v.first().copied()))
            );
        }
    }
    s
}

fn gen_opts(rng: &mut StdRng, fs: Arc<dyn FileSystem>, path: &str) -> DbOptions {
    let mut o = DbOptions::default();
    o.filesystem_provider = fs;
    o.db_path = path.to_string();
    o.create_if_missing = true;
    o.max_memtable_size = [1usize, 300, 1200, 5000, 100_000][rng.gen_range(0..5)];
    o.max_file_size = [100u64, 1000, 10_000, 2 << 20][rng.gen_range(0..4)];
    o.max_block_size = [16usize, 256, 4096][rng.gen_range(0..3)];
    o.reuse_log_files = rng.gen_bool(0.5);
    o
}

fn crash_seed(seed: u64, nops: usize) -> Vec<String> {
    let mut failures = vec![];
    let mut rng = StdRng::seed_from_u64(seed);
    let shared = Arc::new(Shared::default());
    shared.fail_from.store(u64::MAX, Ordering::SeqCst);
    *shared.rng.lock().unwrap() = Some(StdRng::seed_from_u64(seed ^ 0xABCD));
    shared.crash_prob_inv.store(60, Ordering::SeqCst);
    let fs: Arc<dyn FileSystem> = Arc::new(SimFs(shared.clone()));
    let path = "crashdb";
    let mut opts = gen_opts(&mut rng, fs.clone(), path);
    let mut db = Some(DB::open(opts.clone()).unwrap());
    let mut ops: Vec<Op> = vec![];
    for _ in 0..nops {
        let r = rng.gen_range(0..100);
        if r < 93 {
            let op = gen_op(&mut rng);
            ops.push(op.clone());
            db.as_ref().unwrap().apply(WriteOptions::default(), to_batch(&op)).unwrap();
            shared.acked.store(ops.len() as u64, Ordering::SeqCst);
        } else if r < 96 {
            db.as_ref().unwrap().compact_range(None..None);
        } else {
            drop(db.take());
            opts = gen_opts(&mut rng, fs.clone(), path);
            db = Some(DB::open(opts.clone()).unwrap());
        }
    }
    shared.crash_prob_inv.store(0, Ordering::SeqCst);
    drop(db.take());
    let snaps: Vec<Snap> = std::mem::take(&mut *shared.snaps.lock().unwrap());
    for snap in snaps {
        // rebuild fs from the snapshot
        let s2 = Arc::new(Shared::default());
        s2.fail_from.store(u64::MAX, Ordering::SeqCst);
        {
            let mut f = s2.files.lock().unwrap();
            for (p, d) in &snap.files {
                f.insert(p.clone(), Arc::new(Mutex::new(d.clone())));
            }
        }
        let fs2: Arc<dyn FileSystem> = Arc::new(SimFs(s2.clone()));
        let mut model_a = BTreeMap::new();
        for op in &ops[..snap.acked as usize] {
            apply_model(&mut model_a, op);
        }
        // every state between the acknowledged prefix at the start of the copy and one operation
        // past the acknowledged prefix at its end is acceptable
        let mut candidates = vec![model_a.clone()];
        {
            let mut m = model_a.clone();
            let hi = ((snap.acked_after + 1) as usize).min(ops.len());
            for op in &ops[snap.acked as usize..hi] {
                apply_model(&mut m, op);
                candidates.push(m.clone());
            }
        }
        let model_b = candidates.last().unwrap().clone();
        let ctx = format!("seed {seed} snap tick {} acked {}..{} ({})", snap.tick, snap.acked, snap.acked_after, snap.what);
        let mut o2 = gen_opts(&mut rng, fs2.clone(), path);
        o2.create_if_missing = false;
        let db2 = match DB::open(o2.clone()) {
            Ok(d) => d,
            Err(e) => {
                // a crash before the database was first created is fine
                if snap.acked == 0 {
                    continue;
                }
                failures.push(format!("{ctx}: open failed: {e:?}"));
                continue;
            }
        };
        let got = match read_all(&db2) {
            Ok(g) => g,
            Err(e) => {
                failures.push(format!("{ctx}: {e}"));
                continue;
            }
        };
        let mut model = if let Some(m) = candidates.iter().find(|m| **m == got) {
            m.clone()
        } else {
            failures.push(format!(
                "{ctx}: recovered state matches neither; vs acked:{} | vs acked+1:{}",
                diff(&got, &model_a),
                diff(&got, &model_b)
            ));
            continue;
        };
        // second stage: more writes, clean reopen(s), verify
        let mut dbx = Some(db2);
        let mut stage_fail = false;
        for round in 0..3 {
            for _ in 0..rng.gen_range(0..12) {
                let op = gen_op(&mut rng);
                if let Err(e) = dbx.as_ref().unwrap().apply(WriteOptions::default(), to_batch(&op)) {
                    failures.push(format!("{ctx}: stage2 write failed: {e:?}"));
                    stage_fail = true;
                    break;
                }
                apply_model(&mut model, &op);
            }
            if stage_fail {
                break;
            }
            drop(dbx.take());
            let o3 = gen_opts(&mut rng, fs2.clone(), path);
            match DB::open(o3) {
                Ok(d) => {
                    match read_all(&d) {
                        Ok(g) => {
                            if g != model {
                                failures.push(format!(
                                    "{ctx}: stage2 round {round} mismatch after reopen:{}",
                                    diff(&g, &model)
                                ));
                                stage_fail = true;
                            }
                        }
                        Err(e) => {
                            failures.push(format!("{ctx}: stage2 round {round}: {e}"));
                            stage_fail = true;
                        }
                    }
                    dbx = Some(d);
                }
                Err(e) => {
                    failures.push(format!("{ctx}: stage2 round {round} reopen failed: {e:?}"));
                    stage_fail = true;
                }
            }
            if stage_fail {
                break;
            }
        }
    }
    failures
}

fn fault_seed(seed: u64, nops: usize) -> Vec<String> {
    let mut failures = vec![];
    let mut rng = StdRng::seed_from_u64(seed);
    let shared = Arc::new(Shared::default());
    shared.fail_from.store(u64::MAX, Ordering::SeqCst);
    let fs: Arc<dyn FileSystem> = Arc::new(SimFs(shared.clone()));
    let path = "faultdb";
    let mut opts = gen_opts(&mut rng, fs.clone(), path);
    let mut db = Some(DB::open(opts.clone()).unwrap());
    // acceptable values per key (None = absent)
    let mut acc: BTreeMap<Vec<u8>, Vec<Option<Vec<u8>>>> = BTreeMap::new();
    for k in all_keys() {
        acc.insert(k, vec![None]);
    }
    let mut faults_armed = 0;
    let check = |db: &DB, acc: &mut BTreeMap<Vec<u8>, Vec<Option<Vec<u8>>>>, pin: bool, ctx: &str, failures: &mut Vec<String>| {
        for k in all_keys() {
            let got = match db.get(ReadOptions::default(), &k) {
                Ok(v) => Some(v),
                Err(RainDBError::KeyNotFound) => None,
                Err(e) => {
                    failures.push(format!("{ctx}: get {:?} error {e:?}", String::from_utf8_lossy(&k)));
                    continue;
                }
            };
            let a = acc.get_mut(&k).unwrap();
            if !a.contains(&got) {
                failures.push(format!(
                    "{ctx}: key {:?}: got {:?}, acceptable {:?}",
                    String::from_utf8_lossy(&k),
                    got.as_ref().map(|v| (v.len(), v.first().copied())),
                    a.iter().map(|v| v.as_ref().map(|v| (v.len(), v.first().copied()))).collect::<Vec<_>>()
                ));
            }
            if pin {
                *a = vec![got];
            }
        }
    };
    for opn in 0..nops {
        let ctx = format!("seed {seed} op {opn} faults {:?}", shared.fail_log.lock().unwrap());
        let r = rng.gen_range(0..100);
        if r < 80 {
            let op = gen_op(&mut rng);
            match db.as_ref().unwrap().apply(WriteOptions::default(), to_batch(&op)) {
                Ok(()) => {
                    for (k, v) in &op {
                        *acc.get_mut(k).unwrap() = vec![v.clone()];
                    }
                }
                Err(_) => {
                    // the batch may or may not surface later; atomicity is not checked here
                    let mut cur: BTreeMap<Vec<u8>, Vec<Option<Vec<u8>>>> = BTreeMap::new();
                    for (k, v) in &op {
                        let e = cur.entry(k.clone()).or_insert_with(|| acc[k].clone());
                        // within the batch later entries overwrite earlier ones
                        let mut n = acc[k].clone();
                        n.push(v.clone());
                        *e = n;
                    }
                    for (k, v) in cur {
                        acc.insert(k, v);
                    }
                }
            }
        } else if r < 84 {
            check(db.as_ref().unwrap(), &mut acc, false, &ctx, &mut failures);
        } else if r < 87 {
            db.as_ref().unwrap().compact_range(None..None);
        } else if r < 93 && faults_armed < 3 {
            // arm a fault a little in the future
            let now = shared.ticks.load(Ordering::SeqCst);
            shared.fail_torn.store(rng.gen_bool(0.5), Ordering::SeqCst);
            shared.fail_count.store([1u64, 1, 2, 5, 1000][rng.gen_range(0..5)], Ordering::SeqCst);
            shared.fail_from.store(now + rng.gen_range(0..40), Ordering::SeqCst);
            faults_armed += 1;
        } else if r >= 93 {
            check(db.as_ref().unwrap(), &mut acc, false, &format!("{ctx} before close"), &mut failures);
            drop(db.take());
            shared.fail_from.store(u64::MAX, Ordering::SeqCst);
            opts = gen_opts(&mut rng, fs.clone(), path);
            match DB::open(opts.clone()) {
                Ok(d) => db = Some(d),
                Err(e) => {
                    failures.push(format!("{ctx}: reopen without faults failed: {e:?}"));
                    return failures;
                }
            }
            check(db.as_ref().unwrap(), &mut acc, true, &format!("{ctx} after reopen"), &mut failures);
            faults_armed = 0;
        }
        if failures.len() > 5 {
            return failures;
        }
    }
    {
        let fl = shared.fail_log.lock().unwrap();
        eprintln!("seed {seed}: injected {} faults, e.g. {:?}", fl.len(), fl.iter().take(3).collect::<Vec<_>>());
    }
    failures
}

fn parse_range(s: &str) -> (u64, u64) {
    let mut it = s.split("..");
    (it.next().unwrap().parse().unwrap(), it.next().unwrap().parse().unwrap())
}

#[test]
fn sweep() {
    let mode = std::env::var("MODE").unwrap_or("crash".into());
    let (a, b) = parse_range(&std::env::var("SEEDS").unwrap_or("0..5".into()));
    let nops: usize = std::env::var("OPS").unwrap_or("250".into()).parse().unwrap();
    let mut total = 0;
    for seed in a..b {
        let f = if mode == "crash" { crash_seed(seed, nops) } else { fault_seed(seed, nops) };
        if f.is_empty() {
            eprintln!("ok seed {seed}");
        } else {
            total += 1;
            for m in f.iter().take(4) {
                eprintln!("FAIL {m}");
            }
        }
    }
    assert_eq!(total, 0, "{total} failing seeds");
}
