// Large-data differential test: exercises size-triggered compactions at levels >= 1,
// compaction pointer wrap-around, trivial moves, grandparent cuts, table cache eviction.
// Run: BIG_CFG=0 cargo test --offline --test audit_big -- --nocapture

use raindb::fs::{FileSystem, InMemoryFileSystem};
use raindb::{Batch, DbOptions, RainDBError, ReadOptions, WriteOptions, DB};
use rand::rngs::StdRng;
use rand::{Rng, SeedableRng};
use std::collections::BTreeMap;
use std::sync::Arc;

fn val(rng: &mut StdRng, len: usize) -> Vec<u8> {
    (0..len).map(|_| rng.gen::<u8>()).collect()
}

fn check_all(db: &DB, model: &BTreeMap<Vec<u8>, Vec<u8>>, nkeys: u32, ctx: &str) {
    let mut bad = 0;
    for i in 0..nkeys {
        let k = format!("key{:07}", i).into_bytes();
        let got = db.get(ReadOptions::default(), &k);
        let ok = match (model.get(&k), &got) {
            (Some(v), Ok(g)) => v == g,
            (None, Err(RainDBError::KeyNotFound)) => true,
            _ => false,
        };
        if !ok {
            bad += 1;
            if bad < 10 {
                eprintln!(
                    "{ctx}: MISMATCH key {:?}: expected {:?}, got {:?}",
                    String::from_utf8_lossy(&k),
                    model.get(&k).map(|v| (v.len(), v[..4.min(v.len())].to_vec())),
                    got.as_ref().map(|v| (v.len(), v[..4.min(v.len())].to_vec()))
                );
            }
        }
    }
    assert_eq!(bad, 0, "{ctx}: {bad} mismatches");
}

fn levels(db: &DB) -> String {
    (0..7)
        .map(|l| {
            db.get_descriptor(raindb::db::DatabaseDescriptor::NumFilesAtLevel(l))
                .unwrap()
        })
        .collect::<Vec<_>>()
        .join(" ")
}

fn run(cfg: u32) {
    let (mem, file, block, nkeys, vlen, nops): (usize, u64, usize, u32, usize, usize) = match cfg {
        0 => (256 << 10, 64 << 10, 4096, 30_000, 1000, 60_000),
        1 => (64 << 10, 4 << 10, 1024, 20_000, 600, 40_000),
        2 => (1 << 20, 256 << 10, 4096, 40_000, 2000, 40_000),
        _ => (128 << 10, 16 << 10, 512, 50_000, 300, 150_000),
    };
    let mut rng = StdRng::seed_from_u64(cfg as u64 + 77);
    let fs: Arc<dyn FileSystem> = Arc::new(InMemoryFileSystem::new());
    let mut o = DbOptions::default();
    o.filesystem_provider = fs;
    o.db_path = format!("big_{cfg}");
    o.create_if_missing = true;
    o.max_memtable_size = mem;
    o.max_file_size = file;
    o.max_block_size = block;
    let mut db = DB::open(o.clone()).unwrap();
    let mut model = BTreeMap::new();
    let t0 = std::time::Instant::now();
    for opn in 0..nops {
        let r = rng.gen_range(0..100);
        // skewed key choice: moving hot window plus uniform
        let i = if rng.gen_bool(0.5) {
            rng.gen_range(0..nkeys)
        } else {
            ((opn as u32 / 7) + rng.gen_range(0..500)) % nkeys
        };
        let k = format!("key{:07}", i).into_bytes();
        if r < 75 {
            let l = rng.gen_range(vlen / 2..vlen * 2);
            let v = val(&mut rng, l);
            db.put(WriteOptions::default(), k.clone(), v.clone()).unwrap();
            model.insert(k, v);
        } else if r < 90 {
            db.delete(WriteOptions::default(), k.clone()).unwrap();
            model.remove(&k);
        } else if r < 93 {
            let mut b = Batch::new();
            for j in 0..20 {
                let k = format!("key{:07}", (i + j * 13) % nkeys).into_bytes();
                if j % 3 == 0 {
                    b.add_delete(k.clone());
                    model.remove(&k);
                } else {
                    let v = val(&mut rng, vlen);
                    b.add_put(k.clone(), v.clone());
                    model.insert(k, v);
                }
            }
            db.apply(WriteOptions::default(), b).unwrap();
        } else {
            let got = db.get(ReadOptions::default(), &k);
            match (model.get(&k), &got) {
                (Some(v), Ok(g)) if v == g => {}
                (None, Err(RainDBError::KeyNotFound)) => {}
                _ => panic!(
                    "cfg {cfg} op {opn}: key {:?} expected {:?} got {:?} levels {}",
                    String::from_utf8_lossy(&k),
                    model.get(&k).map(|v| v.len()),
                    got.as_ref().map(|v| v.len()),
                    levels(&db)
                ),
            }
        }
        if opn % 10_000 == 9_999 {
            eprintln!("cfg {cfg} op {opn} levels [{}] t={:?}", levels(&db), t0.elapsed());
            check_all(&db, &model, nkeys, &format!("cfg {cfg} op {opn}"));
            if opn % 20_000 == 19_999 {
                drop(db);
                o.reuse_log_files = !o.reuse_log_files;
                db = DB::open(o.clone()).unwrap();
                check_all(&db, &model, nkeys, &format!("cfg {cfg} op {opn} reopen"));
            }
        }
    }
    check_all(&db, &model, nkeys, &format!("cfg {cfg} final"));
    // let compactions settle, then check again
    std::thread::sleep(std::time::Duration::from_secs(3));
    eprintln!("cfg {cfg} settled levels [{}]", levels(&db));
    check_all(&db, &model, nkeys, &format!("cfg {cfg} settled"));
    db.compact_range(None..None);
    eprintln!("cfg {cfg} compacted levels [{}]", levels(&db));
    check_all(&db, &model, nkeys, &format!("cfg {cfg} compacted"));
}

#[test]
fn big() {
    let cfg: u32 = std::env::var("BIG_CFG").unwrap_or("0".to_string()).parse().unwrap();
    run(cfg);
}
