// Differential fuzzing of raindb against a BTreeMap model.
// Run: FUZZ_SEEDS=0..200 FUZZ_OPS=600 cargo test --offline --test audit_fuzz3 -- --nocapture

use raindb::fs::{FileSystem, InMemoryFileSystem, TmpFileSystem};
use raindb::{Batch, DbOptions, RainDBError, ReadOptions, WriteOptions, DB};
use rand::rngs::StdRng;
use rand::{Rng, SeedableRng};
use std::collections::BTreeMap;
use std::sync::Arc;

type Model = BTreeMap<Vec<u8>, Vec<u8>>;

fn gen_key(rng: &mut StdRng, style: u32) -> Vec<u8> {
    let alphabet: &[u8] = &[0x00, 0x01, b'a', b'b', 0x7f, 0xfe, 0xff];
    match style {
        0 => {
            // short keys over hostile alphabet
            let len = rng.gen_range(0..4);
            (0..len)
                .map(|_| alphabet[rng.gen_range(0..alphabet.len())])
                .collect()
        }
        1 => {
            // numeric keys
            format!("k{:04}", rng.gen_range(0..300)).into_bytes()
        }
        2 => {
            // long keys with shared prefixes
            let plen = [0usize, 1, 15, 16, 17, 100, 300][rng.gen_range(0..7)];
            let mut k = vec![b'p'; plen];
            let len = rng.gen_range(0..3);
            for _ in 0..len {
                k.push(alphabet[rng.gen_range(0..alphabet.len())]);
            }
            k
        }
        4 => {
            // very long keys (64 KiB+) differing at the start, middle or end
            let n = [65_536usize, 70_000, 100_000][rng.gen_range(0..3)];
            let mut k = vec![b'L'; n];
            let pos = [0usize, n / 2, n - 1][rng.gen_range(0..3)];
            k[pos] = alphabet[rng.gen_range(0..alphabet.len())];
            if rng.gen_bool(0.3) { k.truncate(n - rng.gen_range(0..3)); }
            k
        }
        _ => {
            if rng.gen_bool(0.1) { return gen_key(rng, 4); }
            if rng.gen_bool(0.5) {
                gen_key(rng, 0)
            } else if rng.gen_bool(0.5) {
                gen_key(rng, 1)
            } else {
                gen_key(rng, 2)
            }
        }
    }
}

fn gen_val(rng: &mut StdRng, big_ok: bool) -> Vec<u8> {
    let r = rng.gen_range(0..100);
    let len = if r < 10 {
        0
    } else if r < 20 {
        1
    } else if r < 70 {
        rng.gen_range(2..60)
    } else if r < 95 {
        rng.gen_range(60..1500)
    } else if big_ok {
        if rng.gen_bool(0.4) {
            rng.gen_range(32_000..34_000)
        } else if rng.gen_bool(0.15) {
            rng.gen_range(1_000_000..3_500_000)
        } else {
            rng.gen_range(60_000..140_000)
        }
    } else {
        rng.gen_range(1500..5000)
    };
    let compressible = rng.gen_bool(0.5);
    let tag: u8 = rng.gen();
    (0..len)
        .map(|i| {
            if compressible {
                tag
            } else {
                (i as u8).wrapping_mul(31).wrapping_add(tag) ^ rng.gen::<u8>()
            }
        })
        .collect()
}

fn gen_options(rng: &mut StdRng, base: &DbOptions) -> DbOptions {
    let mut o = base.clone();
    o.max_memtable_size = [1usize, 200, 1000, 3000, 10_000, 60_000, 4 << 20][rng.gen_range(0..7)];
    o.max_file_size = [1u64, 100, 700, 3000, 20_000, 2 << 20][rng.gen_range(0..6)];
    o.max_block_size = [1usize, 16, 100, 1000, 4096][rng.gen_range(0..5)];
    o.reuse_log_files = rng.gen_bool(0.5);
    o
}

fn check_key(db: &DB, model: &Model, key: &[u8], ctx: &str) {
    let got = db.get(ReadOptions::default(), key);
    match (model.get(key), got) {
        (Some(v), Ok(g)) => {
            if &g != v {
                panic!(
                    "{ctx}: key {:?}: expected value len {} (head {:?}), got len {} (head {:?})",
                    key,
                    v.len(),
                    &v[..v.len().min(8)],
                    g.len(),
                    &g[..g.len().min(8)]
                );
            }
        }
        (None, Err(RainDBError::KeyNotFound)) => {}
        (Some(v), Err(e)) => panic!(
            "{ctx}: key {:?}: expected value len {}, got error {:?}",
            key,
            v.len(),
            e
        ),
        (None, Ok(g)) => panic!(
            "{ctx}: key {:?}: expected KeyNotFound, got value len {} head {:?}",
            key,
            g.len(),
            &g[..g.len().min(8)]
        ),
        (None, Err(e)) => panic!("{ctx}: key {:?}: expected KeyNotFound, got error {:?}", key, e),
    }
}

fn check_all(db: &DB, model: &Model, touched: &[Vec<u8>], ctx: &str) {
    for k in touched {
        check_key(db, model, k, ctx);
    }
}

fn run_seed(seed: u64, nops: usize, use_disk: bool) {
    let mut rng = StdRng::seed_from_u64(seed);
    let fs: Arc<dyn FileSystem> = if use_disk {
        Arc::new(TmpFileSystem::new(None))
    } else {
        Arc::new(InMemoryFileSystem::new())
    };
    let mut base = DbOptions::default();
    base.filesystem_provider = fs;
    base.db_path = format!("fuzzdb_{seed}");
    base.create_if_missing = true;
    let style = rng.gen_range(0..5);
    let big_ok = rng.gen_bool(0.3);
    let fixed_opts = rng.gen_bool(0.3);

    let mut opts = gen_options(&mut rng, &base);
    let mut db = Some(DB::open(opts.clone()).unwrap());
    let mut model: Model = BTreeMap::new();
    let mut touched: Vec<Vec<u8>> = vec![];
    let mut touched_set = std::collections::BTreeSet::new();
    let mut log: Vec<String> = vec![format!(
        "open mem={} file={} block={} reuse={}",
        opts.max_memtable_size, opts.max_file_size, opts.max_block_size, opts.reuse_log_files
    )];

    macro_rules! touch {
        ($k:expr) => {
            if touched_set.insert($k.clone()) {
                touched.push($k.clone());
            }
        };
    }

    for opn in 0..nops {
        let ctx = format!("seed {seed} op {opn}");
        let r = rng.gen_range(0..1000);
        let dbr = db.as_ref().unwrap();
        if r < 450 {
            let k = gen_key(&mut rng, style);
            let v = gen_val(&mut rng, big_ok);
            touch!(k);
            dbr.put(WriteOptions::default(), k.clone(), v.clone()).unwrap();
            model.insert(k, v);
        } else if r < 600 {
            let k = if !touched.is_empty() && rng.gen_bool(0.7) {
                touched[rng.gen_range(0..touched.len())].clone()
            } else {
                gen_key(&mut rng, style)
            };
            touch!(k);
            dbr.delete(WriteOptions::default(), k.clone()).unwrap();
            model.remove(&k);
        } else if r < 680 {
            let n = rng.gen_range(0..12);
            let mut b = Batch::new();
            for _ in 0..n {
                let k = gen_key(&mut rng, style);
                touch!(k);
                if rng.gen_bool(0.7) {
                    let v = gen_val(&mut rng, false);
                    b.add_put(k.clone(), v.clone());
                    model.insert(k, v);
                } else {
                    b.add_delete(k.clone());
                    model.remove(&k);
                }
            }
            dbr.apply(WriteOptions::default(), b).unwrap();
        } else if r < 930 {
            let k = if !touched.is_empty() && rng.gen_bool(0.8) {
                touched[rng.gen_range(0..touched.len())].clone()
            } else {
                gen_key(&mut rng, style)
            };
            check_key(dbr, &model, &k, &ctx);
        } else if r < 960 {
            // compact range
            let a = if rng.gen_bool(0.3) { None } else { Some(gen_key(&mut rng, style)) };
            let b = if rng.gen_bool(0.3) { None } else { Some(gen_key(&mut rng, style)) };
            let (a, b) = match (a, b) {
                (Some(x), Some(y)) if x > y && rng.gen_bool(0.9) => (Some(y), Some(x)),
                o => o,
            };
            log.push(format!("{opn}: compact_range {:?}..{:?}", a, b));
            dbr.compact_range(a.as_deref()..b.as_deref());
            check_all(dbr, &model, &touched, &format!("{ctx} after compact_range"));
        } else if r < 990 {
            // reopen
            drop(db.take());
            if !fixed_opts {
                opts = gen_options(&mut rng, &base);
            } else {
                opts.reuse_log_files = rng.gen_bool(0.5);
            }
            log.push(format!(
                "{opn}: reopen mem={} file={} block={} reuse={}",
                opts.max_memtable_size, opts.max_file_size, opts.max_block_size, opts.reuse_log_files
            ));
            db = Some(match DB::open(opts.clone()) {
                Ok(d) => d,
                Err(e) => panic!("{ctx}: reopen failed: {e:?}\nlog: {log:#?}"),
            });
            check_all(db.as_ref().unwrap(), &model, &touched, &format!("{ctx} after reopen"));
        } else {
            check_all(dbr, &model, &touched, &format!("{ctx} full check"));
        }
    }
    let dbr = db.as_ref().unwrap();
    check_all(dbr, &model, &touched, &format!("seed {seed} final"));
    drop(db.take());
    let d = DB::open(opts.clone()).unwrap();
    check_all(&d, &model, &touched, &format!("seed {seed} final reopen"));
    drop(d);
}

fn parse_range(s: &str) -> (u64, u64) {
    let mut it = s.split("..");
    let a = it.next().unwrap().parse().unwrap();
    let b = it.next().unwrap().parse().unwrap();
    (a, b)
}

#[test]
fn fuzz() {
    let (a, b) = parse_range(&std::env::var("FUZZ_SEEDS").unwrap_or("0..20".to_string()));
    let nops: usize = std::env::var("FUZZ_OPS").unwrap_or("500".to_string()).parse().unwrap();
    let use_disk = std::env::var("FUZZ_DISK").is_ok();
    let mut failures = vec![];
    for seed in a..b {
        let res = std::panic::catch_unwind(|| run_seed(seed, nops, use_disk));
        if let Err(e) = res {
            let msg = if let Some(s) = e.downcast_ref::<String>() {
                s.clone()
            } else if let Some(s) = e.downcast_ref::<&str>() {
                s.to_string()
            } else {
                "?".to_string()
            };
            eprintln!("FAIL seed {seed}: {msg}");
            failures.push(seed);
        } else {
            eprintln!("ok seed {seed}");
        }
    }
    assert!(failures.is_empty(), "failing seeds: {failures:?}");
}
