//! Second audit of property C11: "Exactly the needed files are on disk: nothing live deleted,
//! nothing dead kept".
//!
//! Run with
//!
//!     cargo test --offline --features verif --test audit_demo -- --test-threads=1
//!
//! Every test fails if and only if the property (as stated in AUDIT/NOTES.md) is violated for the
//! scenario it drives.

#![cfg(feature = "verif")]
#![allow(dead_code)]

use std::collections::{BTreeMap, BTreeSet, HashMap};
use std::io::{self, Read, Seek, SeekFrom, Write};
use std::path::{Path, PathBuf};
use std::sync::atomic::{AtomicU64, Ordering};
use std::sync::{Arc, Mutex};
use std::time::{Duration, Instant};

use raindb::fs::{
    FileLock, FileSystem, InMemoryFileSystem, OsFileSystem, RandomAccessFile,
    ReadonlyRandomAccessFile,
};
use raindb::{DbOptions, RainDBError, RainDbIterator, ReadOptions, Snapshot, WriteOptions, DB};

// ---------------------------------------------------------------------------------------------
// Scratch space
// ---------------------------------------------------------------------------------------------

static SCRATCH_COUNTER: AtomicU64 = AtomicU64::new(0);

fn scratch_root() -> PathBuf {
    let mut root = PathBuf::from(env!("CARGO_MANIFEST_DIR"));
    root.push("target");
    root.push("audit2-scratch");
    root
}

fn fresh_dir(tag: &str) -> PathBuf {
    let mut dir = scratch_root();
    dir.push(format!(
        "{}-{}-{}",
        tag,
        std::process::id(),
        SCRATCH_COUNTER.fetch_add(1, Ordering::SeqCst)
    ));
    let _ = std::fs::remove_dir_all(&dir);
    std::fs::create_dir_all(&dir).unwrap();
    dir
}

fn copy_tree(from: &Path, to: &Path) {
    std::fs::create_dir_all(to).unwrap();
    let entries = match std::fs::read_dir(from) {
        Ok(entries) => entries,
        Err(_) => return,
    };
    for entry in entries {
        let entry = entry.unwrap();
        let path = entry.path();
        let target = to.join(entry.file_name());
        if path.is_dir() {
            copy_tree(&path, &target);
        } else {
            // A file can disappear between the listing and the copy only if somebody bypasses the
            // spy file system, which nobody does (all mutations are serialised by the spy's lock).
            std::fs::copy(&path, &target).unwrap();
        }
    }
}

// ---------------------------------------------------------------------------------------------
// A tiny deterministic random number generator
// ---------------------------------------------------------------------------------------------

struct Rng(u64);

impl Rng {
    fn new(seed: u64) -> Self {
        Rng(seed.wrapping_mul(0x9E37_79B9_7F4A_7C15) ^ 0xD1B5_4A32_D192_ED03)
    }

    fn next(&mut self) -> u64 {
        let mut x = self.0;
        x ^= x << 13;
        x ^= x >> 7;
        x ^= x << 17;
        self.0 = x;
        x
    }

    fn below(&mut self, bound: u64) -> u64 {
        self.next() % bound
    }
}

// ---------------------------------------------------------------------------------------------
// SpyFs: serialises and counts the mutating operations, takes crash images, injects faults
// ---------------------------------------------------------------------------------------------

#[derive(Clone, Debug, PartialEq, Eq)]
enum Fault {
    /// The operation fails, nothing reaches the file system.
    Fail,
    /// Writes only: half of the bytes reach the file, then the operation fails.
    Short,
}

#[derive(Clone, Debug)]
struct Image {
    /// The number of mutating operations that were applied before the image was taken.
    op_index: u64,
    /// Where the copy of the database directory is.
    path: PathBuf,
    /// The operation that was about to be applied.
    pending: String,
}

#[derive(Default)]
struct SpyState {
    /// Number of mutating operations seen so far.
    ops: u64,
    /// Number of non-mutating operations (open_file, list_dir, is_dir, get_file_size) seen so far.
    read_ops: u64,
    /// Take an image before every operation whose index satisfies `index % modulus == offset`.
    image_every: Option<(u64, u64)>,
    /// For images taken before a write: also apply the first half of the write to the copy.
    torn_images: bool,
    image_root: Option<PathBuf>,
    images: Vec<Image>,
    /// Faults for mutating operations by operation index.
    faults: HashMap<u64, Fault>,
    /// Faults for non-mutating operations by operation index.
    read_faults: HashMap<u64, Fault>,
    /// Faults by pattern: (substring of the operation description, number of matches to skip,
    /// number of matches to fail, kind).
    pattern_faults: Vec<(String, u64, u64, Fault)>,
    /// Descriptions of all mutating operations (index = position).
    trace: Vec<String>,
    faults_fired: Vec<String>,
}

struct SpyFs {
    inner: OsFileSystem,
    root: PathBuf,
    state: Arc<Mutex<SpyState>>,
}

impl SpyFs {
    fn new(root: &Path) -> Arc<SpyFs> {
        Arc::new(SpyFs {
            inner: OsFileSystem::new(),
            root: root.to_path_buf(),
            state: Arc::new(Mutex::new(SpyState::default())),
        })
    }

    fn short(&self, path: &Path) -> String {
        path.strip_prefix(&self.root)
            .unwrap_or(path)
            .to_string_lossy()
            .to_string()
    }

    fn ops(&self) -> u64 {
        self.state.lock().unwrap().ops
    }

    fn read_ops(&self) -> u64 {
        self.state.lock().unwrap().read_ops
    }

    fn take_images(&self, image_root: &Path, modulus: u64, offset: u64, torn: bool) {
        let mut state = self.state.lock().unwrap();
        state.image_root = Some(image_root.to_path_buf());
        state.image_every = Some((modulus, offset));
        state.torn_images = torn;
    }

    fn stop_images(&self) {
        self.state.lock().unwrap().image_every = None;
    }

    fn images(&self) -> Vec<Image> {
        self.state.lock().unwrap().images.clone()
    }

    fn fault_at(&self, op_index: u64, fault: Fault) {
        self.state.lock().unwrap().faults.insert(op_index, fault);
    }

    fn read_fault_at(&self, op_index: u64) {
        self.state
            .lock()
            .unwrap()
            .read_faults
            .insert(op_index, Fault::Fail);
    }

    fn fault_on(&self, pattern: &str, skip: u64, count: u64, fault: Fault) {
        self.state
            .lock()
            .unwrap()
            .pattern_faults
            .push((pattern.to_string(), skip, count, fault));
    }

    fn clear_faults(&self) {
        let mut state = self.state.lock().unwrap();
        state.faults.clear();
        state.read_faults.clear();
        state.pattern_faults.clear();
    }

    fn fired(&self) -> Vec<String> {
        self.state.lock().unwrap().faults_fired.clone()
    }

    fn trace_tail(&self, n: usize) -> Vec<String> {
        let state = self.state.lock().unwrap();
        let start = state.trace.len().saturating_sub(n);
        state.trace[start..].to_vec()
    }
}

/// Run a mutating operation under the spy's lock: count it, maybe take an image, maybe inject a
/// fault. `torn` = (file path, bytes) for writes.
fn spy_mutate<T>(
    state: &Arc<Mutex<SpyState>>,
    root: &Path,
    description: String,
    torn: Option<(&Path, &[u8])>,
    apply: impl FnOnce(Option<Fault>) -> io::Result<T>,
) -> io::Result<T> {
    let mut guard = state.lock().unwrap();
    let index = guard.ops;
    guard.ops += 1;
    guard.trace.push(description.clone());

    if let Some((modulus, offset)) = guard.image_every {
        if index % modulus == offset {
            let image_root = guard.image_root.clone().unwrap();
            let image_path = image_root.join(format!("img-{index}"));
            copy_tree(root, &image_path);
            if guard.torn_images {
                if let Some((file_path, bytes)) = torn {
                    if bytes.len() >= 2 {
                        let relative = file_path.strip_prefix(root).unwrap();
                        let mut file = std::fs::OpenOptions::new()
                            .append(true)
                            .create(true)
                            .open(image_path.join(relative))
                            .unwrap();
                        file.write_all(&bytes[..bytes.len() / 2]).unwrap();
                    }
                }
            }
            guard.images.push(Image {
                op_index: index,
                path: image_path,
                pending: description.clone(),
            });
        }
    }

    let mut fault = guard.faults.remove(&index);
    if fault.is_none() {
        for entry in guard.pattern_faults.iter_mut() {
            if description.contains(entry.0.as_str()) {
                if entry.1 > 0 {
                    entry.1 -= 1;
                } else if entry.2 > 0 {
                    entry.2 -= 1;
                    fault = Some(entry.3.clone());
                    break;
                }
            }
        }
    }
    if let Some(kind) = fault.as_ref() {
        guard
            .faults_fired
            .push(format!("#{index} {description} -> {kind:?}"));
    }

    // The operation itself is applied under the lock so that images are consistent.
    apply(fault)
}

fn spy_read<T>(
    state: &Arc<Mutex<SpyState>>,
    description: String,
    apply: impl FnOnce() -> io::Result<T>,
) -> io::Result<T> {
    {
        let mut guard = state.lock().unwrap();
        let index = guard.read_ops;
        guard.read_ops += 1;
        let mut fault = guard.read_faults.remove(&index);
        if fault.is_none() {
            for entry in guard.pattern_faults.iter_mut() {
                if description.contains(entry.0.as_str()) {
                    if entry.1 > 0 {
                        entry.1 -= 1;
                    } else if entry.2 > 0 {
                        entry.2 -= 1;
                        fault = Some(entry.3.clone());
                        break;
                    }
                }
            }
        }
        if fault.is_some() {
            guard
                .faults_fired
                .push(format!("r#{index} {description} -> Fail"));
            return Err(io::Error::new(
                io::ErrorKind::Other,
                format!("injected fault: {description}"),
            ));
        }
    }
    apply()
}

fn injected(description: &str) -> io::Error {
    io::Error::new(
        io::ErrorKind::Other,
        format!("injected fault: {description}"),
    )
}

struct SpyFile {
    inner: Box<dyn RandomAccessFile>,
    path: PathBuf,
    name: String,
    root: PathBuf,
    state: Arc<Mutex<SpyState>>,
}

impl Read for SpyFile {
    fn read(&mut self, buf: &mut [u8]) -> io::Result<usize> {
        self.inner.read(buf)
    }
}

impl Seek for SpyFile {
    fn seek(&mut self, pos: SeekFrom) -> io::Result<u64> {
        self.inner.seek(pos)
    }
}

impl Write for SpyFile {
    fn write(&mut self, buf: &[u8]) -> io::Result<usize> {
        let description = format!("write {} {}", self.name, buf.len());
        let inner = &mut self.inner;
        spy_mutate(
            &self.state,
            &self.root,
            description.clone(),
            Some((&self.path, buf)),
            |fault| match fault {
                None => {
                    inner.write_all(buf)?;
                    Ok(buf.len())
                }
                Some(Fault::Fail) => Err(injected(&description)),
                Some(Fault::Short) => {
                    inner.write_all(&buf[..buf.len() / 2])?;
                    Err(injected(&description))
                }
            },
        )
    }

    fn flush(&mut self) -> io::Result<()> {
        self.inner.flush()
    }
}

impl ReadonlyRandomAccessFile for SpyFile {
    fn read_from(&self, buf: &mut [u8], offset: usize) -> io::Result<usize> {
        self.inner.read_from(buf, offset)
    }

    fn len(&self) -> io::Result<u64> {
        self.inner.len()
    }
}

impl RandomAccessFile for SpyFile {
    fn append(&mut self, buf: &[u8]) -> io::Result<usize> {
        let description = format!("append {} {}", self.name, buf.len());
        let inner = &mut self.inner;
        spy_mutate(
            &self.state,
            &self.root,
            description.clone(),
            Some((&self.path, buf)),
            |fault| match fault {
                None => inner.append(buf),
                Some(Fault::Fail) => Err(injected(&description)),
                Some(Fault::Short) => {
                    inner.append(&buf[..buf.len() / 2])?;
                    Err(injected(&description))
                }
            },
        )
    }
}

impl FileSystem for SpyFs {
    fn get_name(&self) -> String {
        "SpyFs".to_string()
    }

    fn create_dir(&self, path: &Path) -> io::Result<()> {
        self.inner.create_dir(path)
    }

    fn create_dir_all(&self, path: &Path) -> io::Result<()> {
        self.inner.create_dir_all(path)
    }

    fn list_dir(&self, path: &Path) -> io::Result<Vec<PathBuf>> {
        spy_read(&self.state, format!("list {}", self.short(path)), || {
            self.inner.list_dir(path)
        })
    }

    fn open_file(&self, path: &Path) -> io::Result<Box<dyn ReadonlyRandomAccessFile>> {
        spy_read(&self.state, format!("open {}", self.short(path)), || {
            self.inner.open_file(path)
        })
    }

    fn rename(&self, from: &Path, to: &Path) -> io::Result<()> {
        let description = format!("rename {} {}", self.short(from), self.short(to));
        spy_mutate(
            &self.state,
            &self.root,
            description.clone(),
            None,
            |fault| match fault {
                None => self.inner.rename(from, to),
                Some(_) => Err(injected(&description)),
            },
        )
    }

    fn create_file(&self, path: &Path, append: bool) -> io::Result<Box<dyn RandomAccessFile>> {
        let description = format!(
            "create {} {}",
            self.short(path),
            if append { "append" } else { "truncate" }
        );
        let file = spy_mutate(
            &self.state,
            &self.root,
            description.clone(),
            None,
            |fault| match fault {
                None => self.inner.create_file(path, append),
                Some(_) => Err(injected(&description)),
            },
        )?;
        Ok(Box::new(SpyFile {
            inner: file,
            path: path.to_path_buf(),
            name: self.short(path),
            root: self.root.clone(),
            state: Arc::clone(&self.state),
        }))
    }

    fn remove_file(&self, path: &Path) -> io::Result<()> {
        let description = format!("remove {}", self.short(path));
        spy_mutate(
            &self.state,
            &self.root,
            description.clone(),
            None,
            |fault| match fault {
                None => self.inner.remove_file(path),
                Some(_) => Err(injected(&description)),
            },
        )
    }

    fn remove_dir(&self, path: &Path) -> io::Result<()> {
        self.inner.remove_dir(path)
    }

    fn remove_dir_all(&self, path: &Path) -> io::Result<()> {
        self.inner.remove_dir_all(path)
    }

    fn get_file_size(&self, path: &Path) -> io::Result<u64> {
        spy_read(&self.state, format!("size {}", self.short(path)), || {
            self.inner.get_file_size(path)
        })
    }

    fn is_dir(&self, path: &Path) -> io::Result<bool> {
        spy_read(&self.state, format!("isdir {}", self.short(path)), || {
            self.inner.is_dir(path)
        })
    }

    fn lock_file(&self, path: &Path) -> io::Result<FileLock> {
        self.inner.lock_file(path)
    }
}

// ---------------------------------------------------------------------------------------------
// Options, quiescence, directory audit
// ---------------------------------------------------------------------------------------------

#[derive(Clone, Copy, Debug)]
struct Config {
    memtable: usize,
    file: u64,
    block: usize,
    reuse: bool,
}

const SMALL: Config = Config {
    memtable: 3000,
    file: 2000,
    block: 256,
    reuse: true,
};

fn options(dir: &Path, fs: Arc<dyn FileSystem>, config: Config) -> DbOptions {
    // `DbOptions::default()` creates a fresh block cache: nothing is shared between two lives.
    DbOptions {
        db_path: dir.to_string_lossy().to_string(),
        max_memtable_size: config.memtable,
        max_file_size: config.file,
        max_block_size: config.block,
        filesystem_provider: fs,
        create_if_missing: true,
        error_if_exists: false,
        reuse_log_files: config.reuse,
        ..DbOptions::default()
    }
}

/// Wait until nothing is scheduled or pending in the background.
fn quiesce(db: &DB) -> raindb::verif::Probe {
    let deadline = Instant::now() + Duration::from_secs(120);
    let mut stable = 0;
    loop {
        let probe = db.verif_probe();
        // In the error state nothing is scheduled any more (an immutable memtable stays for ever)
        let idle = !probe.background_compaction_scheduled
            && (probe.bad_state.is_some()
                || (!probe.has_immutable_memtable && !probe.manual_compaction_pending));
        if idle {
            stable += 1;
            if stable >= 3 {
                return probe;
            }
        } else {
            stable = 0;
        }
        assert!(
            Instant::now() < deadline,
            "the database did not become idle within 120 s: {probe:?}"
        );
        std::thread::sleep(Duration::from_millis(2));
    }
}

fn list_names(dir: &Path) -> BTreeSet<String> {
    list_names_with(&OsFileSystem::new(), dir)
}

fn list_names_with(fs: &dyn FileSystem, dir: &Path) -> BTreeSet<String> {
    match fs.list_dir(dir) {
        Ok(entries) => entries
            .iter()
            .map(|entry| entry.file_name().unwrap().to_string_lossy().to_string())
            .collect(),
        Err(_) => BTreeSet::new(),
    }
}

/// Compare the database directory with what the property allows for an idle database without
/// readers. Returns a list of violations (empty = fine).
fn audit_directory(db: &DB, dir: &Path, probe: &raindb::verif::Probe) -> Vec<String> {
    audit_directory_with(&OsFileSystem::new(), db, dir, probe)
}

fn audit_directory_with(
    fs: &dyn FileSystem,
    db: &DB,
    dir: &Path,
    probe: &raindb::verif::Probe,
) -> Vec<String> {
    let mut violations = vec![];

    if let Some(error) = probe.bad_state.as_ref() {
        violations.push(format!("the database is in its error state: {error}"));
    }
    if probe.num_versions != 1 {
        violations.push(format!(
            "{} versions are linked although no reader and no compaction is active",
            probe.num_versions
        ));
    }
    if !probe.tables_in_use.is_empty() {
        violations.push(format!(
            "tables_in_use is not empty although no compaction is active: {:?}",
            probe.tables_in_use
        ));
    }

    // Root
    let manifest_name = format!("MANIFEST-{}.manifest", probe.manifest_file_number);
    // (the in-memory file system only shows a directory while it holds a file)
    let expected_root: BTreeSet<String> = ["CURRENT", "LOCK"]
        .iter()
        .map(|name| name.to_string())
        .chain(std::iter::once(manifest_name.clone()))
        .collect();
    let mut actual_root = list_names_with(fs, dir);
    actual_root.remove("wal");
    actual_root.remove("data");
    if actual_root != expected_root {
        violations.push(format!(
            "root directory holds {actual_root:?} (+ wal/, data/), the property allows exactly \
             {expected_root:?}"
        ));
    }
    let current_contents = fs.open_file(&dir.join("CURRENT")).and_then(|mut file| {
        let mut contents = String::new();
        file.read_to_string(&mut contents)?;
        Ok(contents)
    });
    match current_contents {
        Ok(contents) => {
            if contents != format!("{manifest_name}\n") {
                violations.push(format!(
                    "CURRENT names {contents:?} but the version set writes to {manifest_name}"
                ));
            }
        }
        Err(error) => violations.push(format!("CURRENT cannot be read: {error}")),
    }

    // Tables
    let expected_tables: BTreeSet<String> = db
        .verif_files()
        .iter()
        .map(|file| format!("{}.rdb", file.number))
        .collect();
    let actual_tables = list_names_with(fs, &dir.join("data"));
    if actual_tables != expected_tables {
        let dead: Vec<&String> = actual_tables.difference(&expected_tables).collect();
        let missing: Vec<&String> = expected_tables.difference(&actual_tables).collect();
        violations.push(format!(
            "data/ differs from the current version: dead files kept {dead:?}, live files missing \
             {missing:?}"
        ));
    }

    // Logs: an idle database without an immutable memtable needs exactly the log it writes to
    let actual_logs = list_names_with(fs, &dir.join("wal"));
    if actual_logs.len() != 1 {
        violations.push(format!(
            "wal/ holds {actual_logs:?}, an idle database needs exactly one log (recorded log \
             number {})",
            probe.curr_wal_number
        ));
    } else {
        let name = actual_logs.iter().next().unwrap();
        let number: Option<u64> = name
            .strip_prefix("wal-")
            .and_then(|rest| rest.strip_suffix(".log"))
            .and_then(|number| number.parse().ok());
        match number {
            Some(number) if number >= probe.curr_wal_number => {}
            _ => violations.push(format!(
                "wal/ holds {name} which is older than the recorded log number {}",
                probe.curr_wal_number
            )),
        }
    }

    violations
}

// ---------------------------------------------------------------------------------------------
// Model of acknowledged writes
// ---------------------------------------------------------------------------------------------

#[derive(Clone, Debug)]
struct WriteRecord {
    /// Mutating file-system operations applied before the write was started.
    started_at: u64,
    /// Mutating file-system operations applied when the write was acknowledged (`u64::MAX` = the
    /// write failed or was never acknowledged).
    acked_at: u64,
    value: Option<Vec<u8>>,
}

#[derive(Default, Clone)]
struct Model {
    history: BTreeMap<Vec<u8>, Vec<WriteRecord>>,
}

impl Model {
    fn latest(&self, key: &[u8]) -> Option<Vec<u8>> {
        self.history
            .get(key)
            .and_then(|records| {
                records
                    .iter()
                    .rev()
                    .find(|record| record.acked_at != u64::MAX)
            })
            .and_then(|record| record.value.clone())
    }

    /// The values that a database recovered from a crash after `ops` operations may report.
    fn allowed_after_crash(&self, key: &[u8], ops: u64) -> Vec<Option<Vec<u8>>> {
        let records = match self.history.get(key) {
            Some(records) => records,
            None => return vec![None],
        };
        let last_acked = records.iter().rposition(|record| record.acked_at <= ops);
        let mut allowed = vec![];
        match last_acked {
            Some(position) => allowed.push(records[position].value.clone()),
            None => allowed.push(None),
        }
        let from = last_acked.map_or(0, |position| position + 1);
        for record in &records[from..] {
            if record.started_at <= ops {
                allowed.push(record.value.clone());
            }
        }
        allowed
    }
}

fn db_get(db: &DB, key: &[u8]) -> Result<Option<Vec<u8>>, RainDBError> {
    match db.get(ReadOptions::default(), key) {
        Ok(value) => Ok(Some(value)),
        Err(RainDBError::KeyNotFound) => Ok(None),
        Err(error) => Err(error),
    }
}

fn key_of(index: u64) -> Vec<u8> {
    match index {
        0 => vec![],
        1 => vec![0xff, 0xff, 0xff],
        2 => vec![0xff],
        _ => format!("key{index:04}").into_bytes(),
    }
}

fn value_of(rng: &mut Rng, tag: u64) -> Vec<u8> {
    let len = match rng.below(10) {
        0 => 0,
        1..=6 => 40 + rng.below(200),
        7..=8 => 300 + rng.below(500),
        _ => 1500 + rng.below(3000),
    } as usize;
    let mut value = format!("v{tag}-").into_bytes();
    while value.len() < len {
        let byte = b'a' + (rng.below(26) as u8);
        value.push(byte);
    }
    value
}

// ---------------------------------------------------------------------------------------------
// Workload
// ---------------------------------------------------------------------------------------------

/// Drive a random workload. Returns the model. The database is left open in `db_slot`.
fn run_workload(
    dir: &Path,
    fs: &Arc<SpyFs>,
    config: Config,
    seed: u64,
    steps: u64,
    keys: u64,
    with_reopen: bool,
) -> (DB, Model) {
    let mut rng = Rng::new(seed);
    let mut model = Model::default();
    let mut db = DB::open(options(dir, fs.clone(), config)).expect("open of the live database");
    let mut snapshots: Vec<Snapshot> = vec![];
    let mut iterators = vec![];

    for step in 0..steps {
        let choice = rng.below(100);
        if choice < 70 {
            let key = key_of(rng.below(keys));
            let value = if rng.below(5) == 0 {
                None
            } else {
                Some(value_of(&mut rng, step))
            };
            let started_at = fs.ops();
            let result = match value.as_ref() {
                Some(value) => db.put(WriteOptions::default(), key.clone(), value.clone()),
                None => db.delete(WriteOptions::default(), key.clone()),
            };
            let acked_at = if result.is_ok() { fs.ops() } else { u64::MAX };
            model.history.entry(key).or_default().push(WriteRecord {
                started_at,
                acked_at,
                value,
            });
        } else if choice < 76 {
            snapshots.push(db.get_snapshot());
        } else if choice < 82 {
            if !snapshots.is_empty() {
                let position = rng.below(snapshots.len() as u64) as usize;
                db.release_snapshot(snapshots.swap_remove(position));
            }
        } else if choice < 87 {
            if iterators.len() < 3 {
                let mut iterator = db.new_iterator(ReadOptions::default()).unwrap();
                let _ = iterator.seek_to_first();
                iterators.push(iterator);
            }
        } else if choice < 92 {
            if !iterators.is_empty() {
                let position = rng.below(iterators.len() as u64) as usize;
                let mut iterator = iterators.swap_remove(position);
                for _ in 0..5 {
                    if iterator.is_valid() {
                        iterator.next();
                    }
                }
                drop(iterator);
            }
        } else if choice < 96 {
            if rng.below(2) == 0 {
                db.compact_range(None..None);
            } else {
                let low = key_of(3 + rng.below(keys));
                let high = key_of(3 + rng.below(keys));
                let (low, high) = if low <= high { (low, high) } else { (high, low) };
                db.compact_range(Some(low.as_slice())..Some(high.as_slice()));
            }
        } else if with_reopen {
            for snapshot in snapshots.drain(..) {
                db.release_snapshot(snapshot);
            }
            iterators.clear();
            drop(db);
            db = DB::open(options(dir, fs.clone(), config)).expect("reopen of the live database");
        }
    }

    for snapshot in snapshots.drain(..) {
        db.release_snapshot(snapshot);
    }
    iterators.clear();

    (db, model)
}

/// Open a crash image, wait until it is idle, audit the directory and compare the contents with
/// the model. Returns violations.
fn check_image(
    image_dir: &Path,
    config: Config,
    model: &Model,
    ops_at_crash: u64,
    label: &str,
) -> Vec<String> {
    let fs: Arc<dyn FileSystem> = Arc::new(OsFileSystem::new());
    let db = match DB::open(options(image_dir, fs, config)) {
        Ok(db) => db,
        Err(error) => {
            return vec![format!("{label}: the crash image cannot be opened: {error}")];
        }
    };
    let probe = quiesce(&db);
    let mut violations: Vec<String> = audit_directory(&db, image_dir, &probe)
        .into_iter()
        .map(|violation| format!("{label}: {violation}"))
        .collect();

    // Reads come after the directory audit so that a read can never be what pins a table.
    for key in model.history.keys() {
        let allowed = model.allowed_after_crash(key, ops_at_crash);
        match db_get(&db, key) {
            Ok(actual) => {
                if !allowed.contains(&actual) {
                    violations.push(format!(
                        "{label}: key {:?} reads {:?} after recovery, acknowledged before the \
                         crash: {:?}",
                        String::from_utf8_lossy(key),
                        actual.as_ref().map(|value| value.len()),
                        allowed
                            .iter()
                            .map(|value| value.as_ref().map(|value| value.len()))
                            .collect::<Vec<_>>()
                    ));
                }
            }
            Err(error) => violations.push(format!(
                "{label}: key {:?} cannot be read after recovery: {error}",
                String::from_utf8_lossy(key)
            )),
        }
    }

    drop(db);
    violations
}

fn report(violations: Vec<String>, what: &str) {
    if !violations.is_empty() {
        let shown: Vec<&String> = violations.iter().take(25).collect();
        panic!(
            "{what}: {} violations of \"exactly the needed files are on disk\", first ones:\n{}",
            violations.len(),
            shown
                .iter()
                .map(|violation| format!("  - {violation}"))
                .collect::<Vec<_>>()
                .join("\n")
        );
    }
}

// ---------------------------------------------------------------------------------------------
// B1: consecutive crashes. A crash image of a workload is reopened, crash images are taken during
// that recovery, each of those is reopened (and once more crashed) before the final check.
// ---------------------------------------------------------------------------------------------

fn consecutive_crashes(seed: u64, first: Config, second: Config, third: Config) {
    let dir = fresh_dir("b1-live");
    let images_1 = fresh_dir("b1-img1");
    let fs = SpyFs::new(&dir);
    fs.take_images(&images_1, 31, seed % 31, true);
    let (db, model) = run_workload(&dir, &fs, first, seed, 260, 40, true);
    fs.stop_images();
    drop(db);

    let mut violations = vec![];
    let mut second_level = 0;
    let mut third_level = 0;
    for image in fs.images() {
        // Second life: recover the image, take an image before every operation of the recovery
        let images_2 = fresh_dir("b1-img2");
        let fs_2 = SpyFs::new(&image.path);
        fs_2.take_images(&images_2, 2, (image.op_index / 31) % 2, true);
        let result = DB::open(options(&image.path, fs_2.clone(), second));
        match result {
            Ok(db) => {
                quiesce(&db);
                fs_2.stop_images();
                drop(db);
            }
            Err(error) => {
                violations.push(format!(
                    "image {} (before {}): cannot be opened: {error}",
                    image.op_index, image.pending
                ));
                continue;
            }
        }

        for image_2 in fs_2.images() {
            second_level += 1;
            let label = format!(
                "crash before op {} ({}) then crash in recovery before op {} ({})",
                image.op_index, image.pending, image_2.op_index, image_2.pending
            );

            // Third life: every fourth of them is crashed once more in the middle of its recovery
            if second_level % 4 == 0 {
                let images_3 = fresh_dir("b1-img3");
                let fs_3 = SpyFs::new(&image_2.path);
                fs_3.take_images(&images_3, 5, 2, true);
                if let Ok(db) = DB::open(options(&image_2.path, fs_3.clone(), third)) {
                    quiesce(&db);
                    fs_3.stop_images();
                    drop(db);
                }
                for image_3 in fs_3.images() {
                    third_level += 1;
                    let label = format!(
                        "{label} then crash before op {} ({})",
                        image_3.op_index, image_3.pending
                    );
                    violations.extend(check_image(
                        &image_3.path,
                        first,
                        &model,
                        image.op_index,
                        &label,
                    ));
                }
                let _ = std::fs::remove_dir_all(&images_3);
            }

            violations.extend(check_image(
                &image_2.path,
                third,
                &model,
                image.op_index,
                &label,
            ));
        }
        let _ = std::fs::remove_dir_all(&images_2);
        if violations.len() > 50 {
            break;
        }
    }

    eprintln!(
        "consecutive_crashes(seed {seed}): {} first-level images, {second_level} second-level, \
         {third_level} third-level",
        fs.images().len()
    );
    let _ = std::fs::remove_dir_all(&images_1);
    let _ = std::fs::remove_dir_all(&dir);
    report(violations, "consecutive crashes");
}

#[test]
fn b1_consecutive_crashes_reuse_on() {
    consecutive_crashes(11, SMALL, SMALL, SMALL);
}

#[test]
fn b1_consecutive_crashes_reuse_off() {
    let config = Config {
        reuse: false,
        ..SMALL
    };
    consecutive_crashes(12, config, config, config);
}

#[test]
fn b1_consecutive_crashes_options_change_between_lives() {
    // Log re-use and the memtable budget change from life to life: the recovery of the same logs
    // produces different numbers of tables (and so hands out different file numbers) in each life.
    let first = SMALL;
    let second = Config {
        reuse: false,
        memtable: 1200,
        ..SMALL
    };
    let third = Config {
        reuse: true,
        memtable: 100_000,
        file: 700,
        ..SMALL
    };
    consecutive_crashes(13, first, second, third);
}

// ---------------------------------------------------------------------------------------------
// B2: I/O errors (not crashes) at every file-system operation of an open, on clean and on crash
// images. The faulted life goes on if the open succeeded; the next, fault-free life is audited.
// ---------------------------------------------------------------------------------------------

/// After a life that had I/O faults: the same life must be exact after one more collection if it
/// is not in its error state, and the next life must be exact and must have everything.
fn finish_faulted_life(
    db: DB,
    dir: &Path,
    config: Config,
    model: &mut Model,
    ops_at_crash: u64,
    label: &str,
    violations: &mut Vec<String>,
) {
    // A few more writes in the faulted life (acknowledged ones must survive)
    let mut extra: Vec<(Vec<u8>, Vec<u8>)> = vec![];
    for index in 0..6u64 {
        let key = format!("post{index}").into_bytes();
        let value = vec![b'p'; 700];
        if db
            .put(WriteOptions::default(), key.clone(), value.clone())
            .is_ok()
        {
            extra.push((key, value));
        }
    }
    let probe = quiesce(&db);
    if probe.bad_state.is_none() {
        // One full round of collections, then the directory has to be exact in this life already
        db.compact_range(None..None);
        let probe = quiesce(&db);
        if probe.bad_state.is_none() {
            violations.extend(
                audit_directory(&db, dir, &probe)
                    .into_iter()
                    .map(|violation| format!("{label} [same life, after the fault]: {violation}")),
            );
        }
    }
    drop(db);

    let mut next = check_image(dir, config, model, ops_at_crash, &format!("{label} [next life]"));
    violations.append(&mut next);
    let fs: Arc<dyn FileSystem> = Arc::new(OsFileSystem::new());
    match DB::open(options(dir, fs, config)) {
        Ok(db) => {
            for (key, value) in extra {
                match db_get(&db, &key) {
                    Ok(Some(actual)) if actual == value => {}
                    other => violations.push(format!(
                        "{label} [next life]: acknowledged write {:?} reads {:?}",
                        String::from_utf8_lossy(&key),
                        other.map(|value| value.map(|value| value.len()))
                    )),
                }
            }
        }
        Err(error) => violations.push(format!("{label} [next life]: cannot be opened: {error}")),
    }
}

fn faults_during_open(seed: u64, live: Config, faulted: Config) {
    let dir = fresh_dir("b2-live");
    let images_root = fresh_dir("b2-img");
    let fs = SpyFs::new(&dir);
    fs.take_images(&images_root, 97, seed % 97, true);
    let (db, model) = run_workload(&dir, &fs, live, seed, 220, 40, false);
    fs.stop_images();
    let final_ops = fs.ops();
    drop(db);

    // Bases: the cleanly closed database and some crash images
    let mut bases: Vec<(PathBuf, u64, String)> = vec![(dir.clone(), final_ops, "clean".to_string())];
    for image in fs.images().into_iter().take(6) {
        bases.push((
            image.path.clone(),
            image.op_index,
            format!("image {} ({})", image.op_index, image.pending),
        ));
    }

    let mut violations = vec![];
    let mut runs = 0;
    for (base, ops_at_crash, base_label) in bases {
        // Count the operations of a fault-free open of a copy
        let probe_dir = fresh_dir("b2-probe");
        copy_tree(&base, &probe_dir);
        let probe_fs = SpyFs::new(&probe_dir);
        let (mutations, reads) = match DB::open(options(&probe_dir, probe_fs.clone(), faulted)) {
            Ok(db) => {
                quiesce(&db);
                drop(db);
                (probe_fs.ops(), probe_fs.read_ops())
            }
            Err(error) => {
                violations.push(format!("{base_label}: cannot be opened: {error}"));
                continue;
            }
        };
        let _ = std::fs::remove_dir_all(&probe_dir);

        let mut plans: Vec<(bool, u64, Fault)> = vec![];
        for index in 0..mutations {
            plans.push((true, index, Fault::Fail));
            plans.push((true, index, Fault::Short));
        }
        for index in 0..reads {
            plans.push((false, index, Fault::Fail));
        }

        for (is_mutation, index, fault) in plans {
            runs += 1;
            let work_dir = fresh_dir("b2-work");
            copy_tree(&base, &work_dir);
            let work_fs = SpyFs::new(&work_dir);
            if is_mutation {
                work_fs.fault_at(index, fault.clone());
            } else {
                work_fs.read_fault_at(index);
            }
            let label = format!(
                "{base_label}, {} op {index} of the open fails ({fault:?})",
                if is_mutation { "mutating" } else { "reading" }
            );
            let mut model_copy = model.clone();
            match DB::open(options(&work_dir, work_fs.clone(), faulted)) {
                Ok(db) => {
                    let label = format!("{label} {:?}", work_fs.fired());
                    work_fs.clear_faults();
                    finish_faulted_life(
                        db,
                        &work_dir,
                        faulted,
                        &mut model_copy,
                        ops_at_crash,
                        &label,
                        &mut violations,
                    );
                }
                Err(_) => {
                    let label = format!("{label} {:?} [open failed]", work_fs.fired());
                    violations.extend(check_image(
                        &work_dir,
                        faulted,
                        &model_copy,
                        ops_at_crash,
                        &label,
                    ));
                }
            }
            let _ = std::fs::remove_dir_all(&work_dir);
            if violations.len() > 50 {
                break;
            }
        }
    }

    eprintln!("faults_during_open(seed {seed}): {runs} faulted opens");
    let _ = std::fs::remove_dir_all(&images_root);
    let _ = std::fs::remove_dir_all(&dir);
    report(violations, "I/O errors during open");
}

#[test]
fn b2_io_errors_during_open_reuse_on() {
    faults_during_open(21, SMALL, SMALL);
}

#[test]
fn b2_io_errors_during_open_reuse_off_small_memtable() {
    let faulted = Config {
        reuse: false,
        memtable: 1200,
        ..SMALL
    };
    faults_during_open(22, SMALL, faulted);
}

// ---------------------------------------------------------------------------------------------
// B7: I/O errors while the database is in use: log creation, removals, listings, table and
// manifest writes. The same life is audited if it survived, the next life in any case.
// ---------------------------------------------------------------------------------------------

fn faults_during_operation(seed: u64, patterns: &[(&str, u64, u64, Fault)]) {
    let dir = fresh_dir("b7-live");
    let fs = SpyFs::new(&dir);
    let mut rng = Rng::new(seed);
    let mut model = Model::default();
    let db = DB::open(options(&dir, fs.clone(), SMALL)).unwrap();

    for (pattern, skip, count, fault) in patterns {
        fs.fault_on(pattern, *skip, *count, fault.clone());
    }

    let mut held = vec![];
    for step in 0..400u64 {
        let key = key_of(rng.below(40));
        let value = if rng.below(6) == 0 {
            None
        } else {
            Some(value_of(&mut rng, step))
        };
        let started_at = fs.ops();
        let result = match value.as_ref() {
            Some(value) => db.put(WriteOptions::default(), key.clone(), value.clone()),
            None => db.delete(WriteOptions::default(), key.clone()),
        };
        let acked_at = if result.is_ok() { fs.ops() } else { u64::MAX };
        model.history.entry(key).or_default().push(WriteRecord {
            started_at,
            acked_at,
            value,
        });
        if step % 57 == 20 {
            held.push(db.new_iterator(ReadOptions::default()).unwrap());
        }
        if step % 57 == 50 {
            held.clear();
        }
        if step % 131 == 100 {
            db.compact_range(None..None);
        }
    }
    held.clear();
    let fired = fs.fired();
    fs.clear_faults();
    let final_ops = fs.ops();

    let mut violations = vec![];
    let label = format!("faults {fired:?}");
    finish_faulted_life(
        db,
        &dir,
        SMALL,
        &mut model,
        final_ops,
        &label,
        &mut violations,
    );
    eprintln!("faults_during_operation(seed {seed}): {} faults fired", fired.len());
    assert!(!fired.is_empty(), "no fault fired, the scenario tests nothing");
    let _ = std::fs::remove_dir_all(&dir);
    report(violations, "I/O errors during operation");
}

#[test]
fn b7_log_creation_fails_now_and_then() {
    // Not a poisoning error: the write that wanted to rotate the memtable fails, the next one tries
    // again (with the same log number)
    faults_during_operation(
        31,
        &[
            ("create wal/", 2, 1, Fault::Fail),
            ("create wal/", 3, 2, Fault::Fail),
            ("create wal/", 5, 1, Fault::Fail),
        ],
    );
}

#[test]
fn b7_removals_and_listings_fail_now_and_then() {
    faults_during_operation(
        32,
        &[
            ("remove data/", 3, 4, Fault::Fail),
            ("remove wal/", 2, 2, Fault::Fail),
            ("list data", 1, 2, Fault::Fail),
            ("list wal", 2, 2, Fault::Fail),
            ("isdir data/", 30, 3, Fault::Fail),
            ("isdir wal/", 10, 2, Fault::Fail),
        ],
    );
}

#[test]
fn b7_table_write_of_a_compaction_fails_short() {
    // The 40th write to a table file stops half way: flush or compaction output, error state
    faults_during_operation(33, &[("write data/", 40, 1, Fault::Short)]);
}

#[test]
fn b7_table_creation_of_a_compaction_fails() {
    faults_during_operation(34, &[("create data/", 9, 1, Fault::Fail)]);
}

#[test]
fn b7_manifest_write_fails_short() {
    faults_during_operation(35, &[("write MANIFEST", 7, 1, Fault::Short)]);
}

#[test]
fn b7_log_write_fails_short() {
    faults_during_operation(36, &[("write wal/", 150, 1, Fault::Short)]);
}

#[test]
fn b7_table_cannot_be_opened_for_its_check_after_the_build() {
    faults_during_operation(37, &[("open data/", 6, 1, Fault::Fail)]);
}

// ---------------------------------------------------------------------------------------------
// B6: the same audit on the in-memory file system (`DbOptions::with_memory_env`)
// ---------------------------------------------------------------------------------------------

#[test]
fn b6_in_memory_file_system_directory_is_exact() {
    let fs: Arc<dyn FileSystem> = Arc::new(InMemoryFileSystem::new());
    let dir = PathBuf::from("/memdb/c11");
    let mut rng = Rng::new(61);
    let mut expected: BTreeMap<Vec<u8>, Option<Vec<u8>>> = BTreeMap::new();
    let mut violations = vec![];

    for life in 0..4u64 {
        let config = Config {
            reuse: life % 2 == 0,
            ..SMALL
        };
        let db = DB::open(options(&dir, Arc::clone(&fs), config)).unwrap();
        let probe = quiesce(&db);
        violations.extend(
            audit_directory_with(&*fs, &db, &dir, &probe)
                .into_iter()
                .map(|violation| format!("life {life} after open: {violation}")),
        );
        for (key, value) in expected.iter() {
            let actual = db_get(&db, key).unwrap();
            if &actual != value {
                violations.push(format!(
                    "life {life}: key {:?} lost or changed across the reopen",
                    String::from_utf8_lossy(key)
                ));
            }
        }

        let mut held = vec![];
        let mut snapshots = vec![];
        for step in 0..300u64 {
            let key = key_of(rng.below(40));
            if rng.below(6) == 0 {
                db.delete(WriteOptions::default(), key.clone()).unwrap();
                expected.insert(key, None);
            } else {
                let value = value_of(&mut rng, step);
                db.put(WriteOptions::default(), key.clone(), value.clone())
                    .unwrap();
                expected.insert(key, Some(value));
            }
            if step % 41 == 7 {
                held.push(db.new_iterator(ReadOptions::default()).unwrap());
                snapshots.push(db.get_snapshot());
            }
            if step % 41 == 33 {
                held.clear();
                for snapshot in snapshots.drain(..) {
                    db.release_snapshot(snapshot);
                }
            }
            if step % 97 == 60 {
                db.compact_range(None..None);
            }
        }
        held.clear();
        for snapshot in snapshots.drain(..) {
            db.release_snapshot(snapshot);
        }
        quiesce(&db);
        db.compact_range(None..None);
        let probe = quiesce(&db);
        violations.extend(
            audit_directory_with(&*fs, &db, &dir, &probe)
                .into_iter()
                .map(|violation| format!("life {life} at its end: {violation}")),
        );
        drop(db);
    }

    report(violations, "in-memory file system");
}

// ---------------------------------------------------------------------------------------------
// B3: an iterator that outlives its database object, and the next open of the same directory
// ---------------------------------------------------------------------------------------------

#[test]
fn b3_reopen_while_an_iterator_of_the_previous_instance_is_alive() {
    let dir = fresh_dir("b3");
    let fs: Arc<dyn FileSystem> = Arc::new(OsFileSystem::new());
    let db = DB::open(options(&dir, Arc::clone(&fs), SMALL)).unwrap();
    let mut old_contents: Vec<(Vec<u8>, Vec<u8>)> = vec![];
    for index in 0..40u64 {
        let key = key_of(3 + index);
        let value = format!("old-{index}-{}", "x".repeat(300)).into_bytes();
        db.put(WriteOptions::default(), key.clone(), value.clone())
            .unwrap();
        old_contents.push((key, value));
    }
    db.compact_range(None..None);
    quiesce(&db);
    let pinned: BTreeSet<String> = db
        .verif_files()
        .iter()
        .map(|file| format!("{}.rdb", file.number))
        .collect();
    assert!(pinned.len() >= 3);

    let mut iterator = db.new_iterator(ReadOptions::default()).unwrap();
    iterator.seek_to_first().unwrap();

    for index in 0..40u64 {
        db.put(
            WriteOptions::default(),
            key_of(3 + index),
            format!("new-{index}-{}", "y".repeat(300)).into_bytes(),
        )
        .unwrap();
    }
    db.compact_range(None..None);
    quiesce(&db);
    let still_there: BTreeSet<String> = list_names(&dir.join("data"))
        .intersection(&pinned)
        .cloned()
        .collect();
    assert_eq!(
        still_there, pinned,
        "the tables pinned by the iterator were removed while the first instance was open"
    );

    // The iterator outlives the database object (supported: see "do not panic when the database
    // is dropped while one of its iterators is alive")
    drop(db);
    let db = DB::open(options(&dir, Arc::clone(&fs), SMALL)).unwrap();
    quiesce(&db);

    let mut violations = vec![];
    let after_reopen: BTreeSet<String> = list_names(&dir.join("data"))
        .intersection(&pinned)
        .cloned()
        .collect();
    if after_reopen != pinned {
        let removed: Vec<&String> = pinned.difference(&after_reopen).collect();
        violations.push(format!(
            "the open of the next instance removed {removed:?}; a live iterator (created by the \
             previous instance, not yet released) still reads from these tables"
        ));
    }

    // What the iterator reports afterwards
    let mut seen = vec![];
    while iterator.is_valid() {
        let (key, value) = iterator.current().unwrap();
        seen.push((key.clone(), value.clone()));
        iterator.next();
    }
    if let Some(error) = iterator.status() {
        violations.push(format!("the iterator ends with an error: {error}"));
    }
    if seen != old_contents {
        violations.push(format!(
            "the iterator reports {} entries instead of the {} of its snapshot",
            seen.len(),
            old_contents.len()
        ));
    }
    drop(iterator);
    drop(db);
    let _ = std::fs::remove_dir_all(&dir);
    report(violations, "iterator that outlives its database");
}

// ---------------------------------------------------------------------------------------------
// B9: crash at every operation of the creation of a database and of its first two flushes
// ---------------------------------------------------------------------------------------------

#[test]
fn b9_crash_at_every_operation_of_the_creation_and_first_flushes() {
    for (round, config) in [
        SMALL,
        Config {
            reuse: false,
            ..SMALL
        },
    ]
    .into_iter()
    .enumerate()
    {
        let dir = fresh_dir("b9-live");
        let images = fresh_dir("b9-img");
        let fs = SpyFs::new(&dir);
        fs.take_images(&images, 1, 0, round == 1);
        let mut model = Model::default();
        let db = DB::open(options(&dir, fs.clone(), config)).unwrap();
        for index in 0..14u64 {
            let key = key_of(index);
            let value = vec![b'a' + index as u8; 450];
            let started_at = fs.ops();
            db.put(WriteOptions::default(), key.clone(), value.clone())
                .unwrap();
            model.history.entry(key).or_default().push(WriteRecord {
                started_at,
                acked_at: fs.ops(),
                value: Some(value),
            });
        }
        quiesce(&db);
        fs.stop_images();
        drop(db);

        let mut violations = vec![];
        let all_images = fs.images();
        for image in &all_images {
            let label = format!(
                "reuse={} crash before op {} ({})",
                config.reuse, image.op_index, image.pending
            );
            violations.extend(check_image(
                &image.path,
                config,
                &model,
                image.op_index,
                &label,
            ));
            // and once more with the other setting of log re-use, on the result of the first check
            let other = Config {
                reuse: !config.reuse,
                ..config
            };
            violations.extend(check_image(
                &image.path,
                other,
                &model,
                image.op_index,
                &format!("{label} [second reopen, reuse={}]", other.reuse),
            ));
        }
        eprintln!("b9 round {round}: {} images", all_images.len());
        let _ = std::fs::remove_dir_all(&images);
        let _ = std::fs::remove_dir_all(&dir);
        report(violations, "crash during creation / first flushes");
    }
}

// ---------------------------------------------------------------------------------------------
// B13: many threads, tiny memtables and files, seek- and size-triggered compactions, manual
// compactions from two threads, iterators and snapshots; then everything is released and the
// directory has to be exact after one more collection. Looks for leaked versions or marks.
// ---------------------------------------------------------------------------------------------

#[test]
fn b13_concurrent_readers_writers_and_compactors_leave_an_exact_directory() {
    let dir = fresh_dir("b13");
    let fs: Arc<dyn FileSystem> = Arc::new(OsFileSystem::new());
    let config = Config {
        memtable: 1500,
        file: 600,
        block: 128,
        reuse: true,
    };
    let db = Arc::new(DB::open(options(&dir, Arc::clone(&fs), config)).unwrap());
    let stop = Arc::new(std::sync::atomic::AtomicBool::new(false));
    let mut threads = vec![];

    for writer in 0..2u64 {
        let db = Arc::clone(&db);
        let stop = Arc::clone(&stop);
        threads.push(std::thread::spawn(move || {
            let mut rng = Rng::new(100 + writer);
            let mut step = 0;
            while !stop.load(Ordering::SeqCst) {
                step += 1;
                let key = key_of(rng.below(120));
                if rng.below(5) == 0 {
                    db.delete(WriteOptions::default(), key).unwrap();
                } else {
                    let value = value_of(&mut rng, step);
                    db.put(WriteOptions::default(), key, value).unwrap();
                }
            }
        }));
    }
    for reader in 0..3u64 {
        let db = Arc::clone(&db);
        let stop = Arc::clone(&stop);
        threads.push(std::thread::spawn(move || {
            let mut rng = Rng::new(200 + reader);
            while !stop.load(Ordering::SeqCst) {
                // Point reads of keys that do not exist charge seeks to the tables they touch
                let key = format!("key{:04}x", rng.below(120)).into_bytes();
                let _ = db.get(ReadOptions::default(), &key);
                let _ = db.get(ReadOptions::default(), &key_of(rng.below(120)));
            }
        }));
    }
    for scanner in 0..2u64 {
        let db = Arc::clone(&db);
        let stop = Arc::clone(&stop);
        threads.push(std::thread::spawn(move || {
            let mut rng = Rng::new(300 + scanner);
            while !stop.load(Ordering::SeqCst) {
                let snapshot = db.get_snapshot();
                let mut iterator = db
                    .new_iterator(ReadOptions {
                        fill_cache: true,
                        snapshot: Some(snapshot.clone()),
                    })
                    .unwrap();
                if rng.below(2) == 0 {
                    let _ = iterator.seek_to_first();
                    while iterator.is_valid() {
                        iterator.next();
                    }
                } else {
                    let _ = iterator.seek_to_last();
                    while iterator.is_valid() {
                        iterator.prev();
                    }
                }
                assert!(iterator.status().is_none(), "{:?}", iterator.status());
                drop(iterator);
                db.release_snapshot(snapshot);
            }
        }));
    }
    for compactor in 0..2u64 {
        let db = Arc::clone(&db);
        let stop = Arc::clone(&stop);
        threads.push(std::thread::spawn(move || {
            let mut rng = Rng::new(400 + compactor);
            while !stop.load(Ordering::SeqCst) {
                if rng.below(3) == 0 {
                    db.compact_range(None..None);
                } else {
                    let low = key_of(3 + rng.below(120));
                    let high = key_of(3 + rng.below(120));
                    let (low, high) = if low <= high { (low, high) } else { (high, low) };
                    db.compact_range(Some(low.as_slice())..Some(high.as_slice()));
                }
                std::thread::sleep(Duration::from_millis(5));
            }
        }));
    }

    std::thread::sleep(Duration::from_secs(12));
    stop.store(true, Ordering::SeqCst);
    for thread in threads {
        thread.join().unwrap();
    }

    quiesce(&db);
    db.compact_range(None..None);
    let probe = quiesce(&db);
    let violations = audit_directory(&db, &dir, &probe);
    drop(db);
    let _ = std::fs::remove_dir_all(&dir);
    report(violations, "concurrent use");
}

// ---------------------------------------------------------------------------------------------
// B4 / B3b: more tables than the table cache holds (1000). Tables pinned by an iterator are
// evicted from the cache by a compaction and have to be opened by path again.
// ---------------------------------------------------------------------------------------------

const MANY: u64 = 3900;

fn many_tables_config() -> Config {
    Config {
        memtable: 30_000,
        file: 300,
        block: 128,
        reuse: true,
    }
}

fn many_key(index: u64) -> Vec<u8> {
    format!("k{index:05}").into_bytes()
}

#[test]
fn b4_tables_pinned_by_an_iterator_survive_eviction_from_the_table_cache() {
    let dir = fresh_dir("b4");
    let fs: Arc<dyn FileSystem> = Arc::new(OsFileSystem::new());
    let db = DB::open(options(&dir, Arc::clone(&fs), many_tables_config())).unwrap();
    let mut old_contents = vec![];
    let mut rng = Rng::new(77);
    for position in 0..MANY {
        // Every memtable covers the whole key range, the values do not compress
        let index = (position * 7919) % MANY;
        let mut value = format!("old-{index}-").into_bytes();
        while value.len() < 260 {
            value.push(rng.below(256) as u8);
        }
        db.put(WriteOptions::default(), many_key(index), value.clone())
            .unwrap();
        old_contents.push((many_key(index), value));
    }
    old_contents.sort();
    db.compact_range(None..None);
    quiesce(&db);
    let pinned: BTreeSet<String> = db
        .verif_files()
        .iter()
        .map(|file| format!("{}.rdb", file.number))
        .collect();
    assert!(pinned.len() > 1100, "only {} tables", pinned.len());

    let mut iterator = db.new_iterator(ReadOptions::default()).unwrap();
    iterator.seek_to_first().unwrap();

    for position in 0..MANY {
        let index = (position * 7919) % MANY;
        let mut value = format!("new-{index}-").into_bytes();
        while value.len() < 260 {
            value.push(rng.below(256) as u8);
        }
        db.put(WriteOptions::default(), many_key(index), value)
            .unwrap();
    }
    db.compact_range(None..None);
    quiesce(&db);

    let mut violations = vec![];
    let on_disk = list_names(&dir.join("data"));
    let removed: Vec<&String> = pinned.difference(&on_disk).collect();
    if !removed.is_empty() {
        violations.push(format!(
            "{} tables pinned by a live iterator were removed, e.g. {:?}",
            removed.len(),
            &removed[..removed.len().min(5)]
        ));
    }
    let mut seen = vec![];
    while iterator.is_valid() {
        let (key, value) = iterator.current().unwrap();
        seen.push((key.clone(), value.clone()));
        iterator.next();
    }
    if let Some(error) = iterator.status() {
        violations.push(format!("the iterator ends with an error: {error}"));
    }
    if seen != old_contents {
        violations.push(format!(
            "the iterator reports {} entries instead of the {} of its snapshot",
            seen.len(),
            old_contents.len()
        ));
    }
    drop(iterator);

    // Released: after one more collection the directory is exact
    db.compact_range(None..None);
    let probe = quiesce(&db);
    violations.extend(audit_directory(&db, &dir, &probe));
    drop(db);
    let _ = std::fs::remove_dir_all(&dir);
    report(violations, "pinned tables beyond the table cache");
}

#[test]
fn b3b_iterator_of_the_previous_instance_fails_after_the_next_open_collected_its_tables() {
    let dir = fresh_dir("b3b");
    let fs: Arc<dyn FileSystem> = Arc::new(OsFileSystem::new());
    let db = DB::open(options(&dir, Arc::clone(&fs), many_tables_config())).unwrap();
    let mut old_contents = vec![];
    let mut rng = Rng::new(77);
    for position in 0..MANY {
        // Every memtable covers the whole key range, the values do not compress
        let index = (position * 7919) % MANY;
        let mut value = format!("old-{index}-").into_bytes();
        while value.len() < 260 {
            value.push(rng.below(256) as u8);
        }
        db.put(WriteOptions::default(), many_key(index), value.clone())
            .unwrap();
        old_contents.push((many_key(index), value));
    }
    old_contents.sort();
    db.compact_range(None..None);
    quiesce(&db);
    let pinned: BTreeSet<String> = db
        .verif_files()
        .iter()
        .map(|file| format!("{}.rdb", file.number))
        .collect();
    assert!(pinned.len() > 1100, "only {} tables", pinned.len());

    let mut iterator = db.new_iterator(ReadOptions::default()).unwrap();
    iterator.seek_to_first().unwrap();

    for position in 0..MANY {
        let index = (position * 7919) % MANY;
        let mut value = format!("new-{index}-").into_bytes();
        while value.len() < 260 {
            value.push(rng.below(256) as u8);
        }
        db.put(WriteOptions::default(), many_key(index), value)
            .unwrap();
    }
    db.compact_range(None..None);
    quiesce(&db);
    assert!(
        pinned.is_subset(&list_names(&dir.join("data"))),
        "pinned tables removed in the first life"
    );

    drop(db);
    let db = DB::open(options(&dir, Arc::clone(&fs), many_tables_config())).unwrap();
    quiesce(&db);

    let mut violations = vec![];
    let on_disk = list_names(&dir.join("data"));
    let removed: Vec<&String> = pinned.difference(&on_disk).collect();
    if !removed.is_empty() {
        violations.push(format!(
            "the open of the next instance removed {} tables that a live iterator of the previous \
             instance still needs, e.g. {:?}",
            removed.len(),
            &removed[..removed.len().min(5)]
        ));
    }
    let mut seen = vec![];
    while iterator.is_valid() {
        let (key, value) = iterator.current().unwrap();
        seen.push((key.clone(), value.clone()));
        iterator.next();
    }
    if let Some(error) = iterator.status() {
        violations.push(format!(
            "the iterator ends after {} entries with the error: {error}",
            seen.len()
        ));
    }
    if seen != old_contents {
        violations.push(format!(
            "the iterator reports {} entries instead of the {} of its snapshot",
            seen.len(),
            old_contents.len()
        ));
    }
    drop(iterator);
    drop(db);
    let _ = std::fs::remove_dir_all(&dir);
    report(violations, "iterator that outlives its database (more than 1000 tables)");
}

// ---------------------------------------------------------------------------------------------
// B5: clean reopens with options that change from life to life (log re-use, memtable budget, file
// size - the latter decides whether the manifest is re-used), snapshots held across manual
// compactions, iterators. The directory is audited right after every open (before any read) and
// at the end of every life (after the readers are gone and one more collection ran).
// ---------------------------------------------------------------------------------------------

#[test]
fn b5_lives_with_changing_options_snapshots_and_manual_compactions() {
    let dir = fresh_dir("b5");
    let fs: Arc<dyn FileSystem> = Arc::new(OsFileSystem::new());
    let configs = [
        SMALL,
        Config {
            reuse: false,
            memtable: 1200,
            ..SMALL
        },
        Config {
            reuse: true,
            file: 500,
            ..SMALL
        },
        Config {
            reuse: true,
            memtable: 200_000,
            file: 100_000,
            ..SMALL
        },
        Config {
            reuse: false,
            memtable: 900,
            file: 400,
            block: 64,
        },
        SMALL,
        Config {
            reuse: true,
            memtable: 200_000,
            file: 300,
            ..SMALL
        },
        SMALL,
    ];
    let mut rng = Rng::new(51);
    let mut expected: BTreeMap<Vec<u8>, Option<Vec<u8>>> = BTreeMap::new();
    let mut violations = vec![];

    for (life, config) in configs.iter().enumerate() {
        let db = DB::open(options(&dir, Arc::clone(&fs), *config)).unwrap();
        let probe = quiesce(&db);
        violations.extend(
            audit_directory(&db, &dir, &probe)
                .into_iter()
                .map(|violation| format!("life {life} {config:?} after open: {violation}")),
        );
        for (key, value) in expected.iter() {
            let actual = db_get(&db, key).unwrap();
            if &actual != value {
                violations.push(format!(
                    "life {life}: key {:?} lost or changed across the reopen",
                    String::from_utf8_lossy(key)
                ));
            }
        }

        let mut held = vec![];
        let mut snapshots: Vec<(Snapshot, BTreeMap<Vec<u8>, Option<Vec<u8>>>)> = vec![];
        let steps = 150 + rng.below(200);
        for step in 0..steps {
            let key = key_of(rng.below(50));
            if rng.below(5) == 0 {
                db.delete(WriteOptions::default(), key.clone()).unwrap();
                expected.insert(key, None);
            } else {
                let value = value_of(&mut rng, step);
                db.put(WriteOptions::default(), key.clone(), value.clone())
                    .unwrap();
                expected.insert(key, Some(value));
            }
            match rng.below(40) {
                0 => snapshots.push((db.get_snapshot(), expected.clone())),
                1 => held.push(db.new_iterator(ReadOptions::default()).unwrap()),
                2 => db.compact_range(None..None),
                3 => {
                    let low = key_of(3 + rng.below(50));
                    db.compact_range(Some(low.as_slice())..None);
                }
                4 => {
                    if !held.is_empty() {
                        held.remove(0);
                    }
                }
                5 => {
                    // A read through a snapshot that was held across flushes and compactions
                    if !snapshots.is_empty() {
                        let (snapshot, contents) =
                            snapshots.remove(rng.below(snapshots.len() as u64) as usize);
                        for (key, value) in contents.iter() {
                            let actual = match db.get(
                                ReadOptions {
                                    fill_cache: true,
                                    snapshot: Some(snapshot.clone()),
                                },
                                key,
                            ) {
                                Ok(value) => Some(value),
                                Err(RainDBError::KeyNotFound) => None,
                                Err(error) => panic!("snapshot read failed: {error}"),
                            };
                            if &actual != value {
                                violations.push(format!(
                                    "life {life}: snapshot read of {:?} is wrong",
                                    String::from_utf8_lossy(key)
                                ));
                            }
                        }
                        db.release_snapshot(snapshot);
                    }
                }
                _ => {}
            }
        }
        held.clear();
        for (snapshot, _) in snapshots.drain(..) {
            db.release_snapshot(snapshot);
        }
        quiesce(&db);
        db.compact_range(None..None);
        let probe = quiesce(&db);
        violations.extend(
            audit_directory(&db, &dir, &probe)
                .into_iter()
                .map(|violation| format!("life {life} {config:?} at its end: {violation}")),
        );
        drop(db);
    }

    let _ = std::fs::remove_dir_all(&dir);
    report(violations, "lives with changing options");
}

// ---------------------------------------------------------------------------------------------
// B14: the database is closed while the compaction thread is in the middle of something
// (a table compaction, a flush between build and manifest write, a half-done collection).
// The next life has to find everything and has to end up with an exact directory.
// ---------------------------------------------------------------------------------------------

#[derive(Default)]
struct ParkState {
    /// point -> arrivals to let pass before parking
    plan: HashMap<&'static str, u64>,
    parked: Vec<&'static str>,
    released: bool,
    notes: Vec<(&'static str, Vec<u64>)>,
}

#[derive(Default)]
struct Hooks {
    state: Mutex<ParkState>,
    changed: std::sync::Condvar,
}

impl Hooks {
    fn park_at(&self, point: &'static str, after: u64) {
        let mut state = self.state.lock().unwrap();
        state.plan.insert(point, after);
        state.released = false;
    }

    fn wait_parked(&self, point: &'static str, timeout: Duration) -> bool {
        let deadline = Instant::now() + timeout;
        let mut state = self.state.lock().unwrap();
        while !state.parked.contains(&point) {
            let now = Instant::now();
            if now >= deadline {
                return false;
            }
            state = self.changed.wait_timeout(state, deadline - now).unwrap().0;
        }
        true
    }

    fn release_all(&self) {
        let mut state = self.state.lock().unwrap();
        state.plan.clear();
        state.released = true;
        self.changed.notify_all();
    }
}

impl raindb::verif::Handler for Hooks {
    fn pause(&self, point: &'static str, _args: &[u64]) {
        let mut state = self.state.lock().unwrap();
        let park = match state.plan.get_mut(point) {
            Some(remaining) if *remaining == 0 => true,
            Some(remaining) => {
                *remaining -= 1;
                false
            }
            None => false,
        };
        if !park {
            return;
        }
        state.plan.remove(point);
        state.parked.push(point);
        self.changed.notify_all();
        while !state.released {
            state = self.changed.wait(state).unwrap();
        }
        state.parked.retain(|parked| *parked != point);
    }

    fn note(&self, point: &'static str, args: &[u64]) {
        self.state.lock().unwrap().notes.push((point, args.to_vec()));
    }
}

/// Serialises the tests that install the process-wide handler.
static HOOK_LOCK: Mutex<()> = Mutex::new(());

fn close_in_the_middle_of(point: &'static str, after: u64) {
    let _serial = HOOK_LOCK.lock().unwrap_or_else(|poisoned| poisoned.into_inner());
    let dir = fresh_dir("b14");
    let fs: Arc<dyn FileSystem> = Arc::new(OsFileSystem::new());
    let hooks = Arc::new(Hooks::default());
    raindb::verif::set_handler(Some(hooks.clone()));

    let db = DB::open(options(&dir, Arc::clone(&fs), SMALL)).unwrap();
    let mut rng = Rng::new(141);
    let mut expected: BTreeMap<Vec<u8>, Option<Vec<u8>>> = BTreeMap::new();
    for step in 0..150u64 {
        let key = key_of(rng.below(40));
        let value = value_of(&mut rng, step);
        db.put(WriteOptions::default(), key.clone(), value.clone())
            .unwrap();
        expected.insert(key, Some(value));
    }
    quiesce(&db);

    hooks.park_at(point, after);
    let mut parked = false;
    for step in 0..400u64 {
        let key = key_of(rng.below(40));
        let value = value_of(&mut rng, 1000 + step);
        match db.put(WriteOptions::default(), key.clone(), value.clone()) {
            Ok(()) => {
                expected.insert(key, Some(value));
            }
            Err(error) => panic!("write failed: {error}"),
        }
        // Let the background work that this write started run until it is parked or done, so
        // that this thread never blocks behind the parked compaction thread
        let deadline = Instant::now() + Duration::from_secs(60);
        loop {
            if hooks.wait_parked(point, Duration::from_millis(1)) {
                parked = true;
                break;
            }
            let probe = db.verif_probe();
            if !probe.background_compaction_scheduled && !probe.has_immutable_memtable {
                break;
            }
            assert!(Instant::now() < deadline, "background work does not finish");
        }
        if parked {
            break;
        }
    }
    assert!(parked, "the compaction thread never reached {point}");

    // Close while the compaction thread is parked there; let it go a little later
    let releaser = {
        let hooks = Arc::clone(&hooks);
        std::thread::spawn(move || {
            std::thread::sleep(Duration::from_millis(150));
            hooks.release_all();
        })
    };
    drop(db);
    releaser.join().unwrap();
    raindb::verif::set_handler(None);

    let mut violations = vec![];
    for reuse in [true, false] {
        let config = Config { reuse, ..SMALL };
        let db = DB::open(options(&dir, Arc::clone(&fs), config)).unwrap();
        let probe = quiesce(&db);
        violations.extend(
            audit_directory(&db, &dir, &probe)
                .into_iter()
                .map(|violation| format!("closed at {point}, reopened (reuse={reuse}): {violation}")),
        );
        for (key, value) in expected.iter() {
            let actual = db_get(&db, key).unwrap();
            if &actual != value {
                violations.push(format!(
                    "closed at {point}: acknowledged write to {:?} is lost after the reopen",
                    String::from_utf8_lossy(key)
                ));
            }
        }
        drop(db);
    }
    let _ = std::fs::remove_dir_all(&dir);
    report(violations, "close in the middle of background work");
}

#[test]
fn b14_close_during_a_table_compaction() {
    close_in_the_middle_of("compact.step", 25);
}

#[test]
fn b14_close_between_table_build_and_manifest_write_of_a_flush() {
    close_in_the_middle_of("flush.after_build", 2);
}

#[test]
fn b14_close_before_the_manifest_write_of_a_flush_or_compaction() {
    close_in_the_middle_of("manifest.before_append", 3);
}

#[test]
fn b14_close_after_the_manifest_write_before_the_version_is_installed() {
    close_in_the_middle_of("manifest.after_append", 3);
}

#[test]
fn b14_close_in_the_middle_of_a_collection() {
    close_in_the_middle_of("gc.delete_one", 4);
}

// ---------------------------------------------------------------------------------------------
// B10: values far larger than the memtable budget, the file size and a log block (records that
// span several 32 KiB log blocks, one table per write), empty and 0xff keys; crash images (torn)
// ---------------------------------------------------------------------------------------------

#[test]
fn b10_very_large_values_crash_images() {
    let mut violations = vec![];
    for reuse in [true, false] {
        let config = Config { reuse, ..SMALL };
        let dir = fresh_dir("b10-live");
        let images = fresh_dir("b10-img");
        let fs = SpyFs::new(&dir);
        fs.take_images(&images, 3, 1, true);
        let mut model = Model::default();
        let mut rng = Rng::new(101);
        let mut db = DB::open(options(&dir, fs.clone(), config)).unwrap();
        for step in 0..24u64 {
            let key = key_of(rng.below(6));
            let value = if step % 7 == 6 {
                None
            } else {
                let mut value = vec![0u8; (40_000 + rng.below(120_000)) as usize];
                for byte in value.iter_mut() {
                    *byte = rng.below(256) as u8;
                }
                Some(value)
            };
            let started_at = fs.ops();
            match value.as_ref() {
                Some(value) => db
                    .put(WriteOptions::default(), key.clone(), value.clone())
                    .unwrap(),
                None => db.delete(WriteOptions::default(), key.clone()).unwrap(),
            }
            model.history.entry(key).or_default().push(WriteRecord {
                started_at,
                acked_at: fs.ops(),
                value,
            });
            if step == 9 {
                db.compact_range(None..None);
            }
            if step == 15 {
                drop(db);
                db = DB::open(options(&dir, fs.clone(), config)).unwrap();
            }
        }
        quiesce(&db);
        fs.stop_images();
        drop(db);
        let all_images = fs.images();
        for image in &all_images {
            let label = format!(
                "large values, reuse={reuse}, crash before op {} ({})",
                image.op_index, image.pending
            );
            violations.extend(check_image(
                &image.path,
                config,
                &model,
                image.op_index,
                &label,
            ));
        }
        eprintln!("b10 reuse={reuse}: {} images", all_images.len());
        let _ = std::fs::remove_dir_all(&images);
        let _ = std::fs::remove_dir_all(&dir);
    }
    report(violations, "very large values");
}
