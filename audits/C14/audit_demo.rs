//! Audit of property C14: "Filters never hide a key that is present".
//!
//! Run with: cargo test --offline --features verif --test audit_demo
//!
//! Every test fails if and only if a filter answered "no match" (or a lookup was cut short) for a
//! key that is present.

use std::collections::{BTreeMap, BTreeSet};
use std::io::Read;
use std::path::PathBuf;
use std::sync::{Arc, Mutex};

use integer_encoding::{FixedInt, VarInt};
use raindb::filter_policy::FilterPolicyError;
use raindb::fs::{FileSystem, InMemoryFileSystem};
use raindb::{BloomFilterPolicy, DbOptions, FilterPolicy, ReadOptions, WriteOptions, DB};

// ---------------------------------------------------------------------------------------------
// Helpers
// ---------------------------------------------------------------------------------------------

/// Small deterministic PRNG (xorshift64*).
struct Rng(u64);

impl Rng {
    fn new(seed: u64) -> Self {
        Rng(seed.wrapping_mul(0x9E37_79B9_7F4A_7C15) | 1)
    }

    fn next(&mut self) -> u64 {
        let mut x = self.0;
        x ^= x >> 12;
        x ^= x << 25;
        x ^= x >> 27;
        self.0 = x;
        x.wrapping_mul(0x2545_F491_4F6C_DD1D)
    }

    fn below(&mut self, n: u64) -> u64 {
        self.next() % n
    }

    fn bytes(&mut self, len: usize) -> Vec<u8> {
        (0..len).map(|_| (self.next() >> 32) as u8).collect()
    }
}

/// Key sets of many shapes: empty key, every length mod 4, arbitrary bytes, 0xff runs, duplicates.
fn key_set(rng: &mut Rng, count: usize, shape: usize) -> Vec<Vec<u8>> {
    let mut keys: Vec<Vec<u8>> = Vec::with_capacity(count);
    for idx in 0..count {
        let key = match shape % 6 {
            // Lengths 0, 1, 2, ... so every length mod 4 and the empty key appear
            0 => rng.bytes(idx % 23),
            // Fixed-width decimal
            1 => format!("{:08}", idx).into_bytes(),
            // Runs of 0xff of every length
            2 => vec![0xff; idx % 19],
            // High bytes only (sign-extension hazards in the hash tail)
            3 => {
                let len = 1 + idx % 11;
                (0..len).map(|_| 0x80 | (rng.next() as u8)).collect()
            }
            // Long keys
            4 => rng.bytes(100 + (idx % 7)),
            // Few distinct keys => many duplicates
            _ => vec![(idx % 5) as u8; idx % 4],
        };
        keys.push(key);
    }
    // Some explicit duplicates and the empty key
    if count > 3 {
        let dup = keys[0].clone();
        keys[count / 2] = dup;
        keys[count - 1] = vec![];
    }
    keys
}

fn hex(bytes: &[u8]) -> String {
    let shown: String = bytes.iter().take(24).map(|b| format!("{:02x}", b)).collect();
    if bytes.len() > 24 {
        format!("{}..({} bytes)", shown, bytes.len())
    } else {
        format!("{}({} bytes)", shown, bytes.len())
    }
}

// ---------------------------------------------------------------------------------------------
// Attack 1: the Bloom policy itself
// ---------------------------------------------------------------------------------------------

#[test]
fn a1_bloom_policy_never_rejects_a_member_key() {
    let sizes: [usize; 16] = [
        0, 1, 2, 3, 4, 5, 7, 8, 9, 15, 16, 17, 63, 64, 100, 1000,
    ];
    let mut violations: Vec<String> = vec![];
    for bits_per_key in 1..=64usize {
        let policy = BloomFilterPolicy::new(bits_per_key);
        for (size_idx, size) in sizes.iter().enumerate() {
            for shape in 0..6 {
                let mut rng = Rng::new((bits_per_key * 1000 + size_idx * 10 + shape) as u64);
                let keys = key_set(&mut rng, *size, shape);
                let filter = policy.create_filter(&keys);
                for key in &keys {
                    match policy.key_may_match(key, &filter) {
                        Ok(true) => {}
                        other => violations.push(format!(
                            "bits_per_key={bits_per_key} n={size} shape={shape} key={} -> {:?}",
                            hex(key),
                            other
                        )),
                    }
                }
            }
        }
    }
    // A few large sets (thousands of keys)
    for bits_per_key in [1usize, 2, 7, 10, 33, 64] {
        let policy = BloomFilterPolicy::new(bits_per_key);
        for size in [4097usize, 10_000] {
            let mut rng = Rng::new((bits_per_key * 77 + size) as u64);
            let keys = key_set(&mut rng, size, 0);
            let filter = policy.create_filter(&keys);
            for key in &keys {
                if !matches!(policy.key_may_match(key, &filter), Ok(true)) {
                    violations.push(format!(
                        "bits_per_key={bits_per_key} n={size} key={}",
                        hex(key)
                    ));
                }
            }
        }
    }
    assert!(
        violations.is_empty(),
        "The property requires 'may match' for every key the filter was created from, but the \
         Bloom filter rejected {} member keys, e.g. {:?}",
        violations.len(),
        &violations[..violations.len().min(5)]
    );
}

/// A filter written with one bits_per_key and consulted by a policy object configured with
/// another one (database reopened with different options) must still match all member keys.
#[test]
fn a2_bloom_filter_read_back_with_another_bits_per_key() {
    let mut violations: Vec<String> = vec![];
    for write_bits in [1usize, 2, 3, 5, 10, 20, 43, 44, 64] {
        for read_bits in [1usize, 2, 10, 33, 64] {
            let writer = BloomFilterPolicy::new(write_bits);
            let reader = BloomFilterPolicy::new(read_bits);
            let mut rng = Rng::new((write_bits * 100 + read_bits) as u64);
            let keys = key_set(&mut rng, 300, 0);
            let filter = writer.create_filter(&keys);
            for key in &keys {
                if !matches!(reader.key_may_match(key, &filter), Ok(true)) {
                    violations.push(format!(
                        "written with {write_bits} bits, read with {read_bits}: key {}",
                        hex(key)
                    ));
                }
            }
        }
    }
    assert!(
        violations.is_empty(),
        "member keys rejected when the reading policy has another bits_per_key: {:?}",
        &violations[..violations.len().min(5)]
    );
}

// ---------------------------------------------------------------------------------------------
// An exact (no false positives) filter policy that records everything it is asked.
// ---------------------------------------------------------------------------------------------

#[derive(Debug, Default)]
struct PolicyLog {
    /// Key sets `create_filter` was called with.
    created: Vec<Vec<Vec<u8>>>,
    /// (key, filter, answer) of every `key_may_match` call.
    asked: Vec<(Vec<u8>, Vec<u8>, bool)>,
}

/// The filter is the literal list of distinct keys. It has no false positives, so a filter that is
/// consulted for the wrong block is always noticed.
#[derive(Debug)]
struct ExactPolicy {
    name: String,
    log: Mutex<PolicyLog>,
}

impl ExactPolicy {
    fn new(name: &str) -> Self {
        ExactPolicy {
            name: name.to_string(),
            log: Mutex::new(PolicyLog::default()),
        }
    }

    fn decode(filter: &[u8]) -> Option<BTreeSet<Vec<u8>>> {
        if filter.len() < 8 || &filter[..4] != b"EXCT" {
            return None;
        }
        let count = u32::decode_fixed(&filter[4..8]) as usize;
        let mut keys = BTreeSet::new();
        let mut pos = 8;
        for _ in 0..count {
            if pos + 4 > filter.len() {
                return None;
            }
            let len = u32::decode_fixed(&filter[pos..pos + 4]) as usize;
            pos += 4;
            if pos + len > filter.len() {
                return None;
            }
            keys.insert(filter[pos..pos + len].to_vec());
            pos += len;
        }
        if pos != filter.len() {
            return None;
        }
        Some(keys)
    }
}

impl FilterPolicy for ExactPolicy {
    fn get_name(&self) -> String {
        self.name.clone()
    }

    fn create_filter(&self, keys: &[Vec<u8>]) -> Vec<u8> {
        self.log.lock().unwrap().created.push(keys.to_vec());
        let distinct: BTreeSet<&Vec<u8>> = keys.iter().collect();
        let mut out = b"EXCT".to_vec();
        out.extend(u32::encode_fixed_vec(distinct.len() as u32));
        for key in distinct {
            out.extend(u32::encode_fixed_vec(key.len() as u32));
            out.extend_from_slice(key);
        }
        out
    }

    fn key_may_match(&self, key: &[u8], filter: &[u8]) -> Result<bool, FilterPolicyError> {
        // This policy only ever produces filters that `decode` understands. A filter it cannot
        // decode was therefore not produced by this policy. It contains none of this policy's keys.
        let answer = match ExactPolicy::decode(filter) {
            Some(keys) => keys.contains(key),
            None => false,
        };
        self.log
            .lock()
            .unwrap()
            .asked
            .push((key.to_vec(), filter.to_vec(), answer));
        Ok(answer)
    }
}

/// A Bloom policy that records the questions it is asked.
#[derive(Debug)]
struct RecordingBloom {
    inner: BloomFilterPolicy,
    log: Mutex<PolicyLog>,
}

impl RecordingBloom {
    fn new(bits_per_key: usize) -> Self {
        RecordingBloom {
            inner: BloomFilterPolicy::new(bits_per_key),
            log: Mutex::new(PolicyLog::default()),
        }
    }
}

impl FilterPolicy for RecordingBloom {
    fn get_name(&self) -> String {
        self.inner.get_name()
    }

    fn create_filter(&self, keys: &[Vec<u8>]) -> Vec<u8> {
        self.log.lock().unwrap().created.push(keys.to_vec());
        self.inner.create_filter(keys)
    }

    fn key_may_match(&self, key: &[u8], filter: &[u8]) -> Result<bool, FilterPolicyError> {
        let answer = self.inner.key_may_match(key, filter);
        self.log.lock().unwrap().asked.push((
            key.to_vec(),
            filter.to_vec(),
            *answer.as_ref().unwrap_or(&true),
        ));
        answer
    }
}

// ---------------------------------------------------------------------------------------------
// Independent parser of the table file format (LevelDB table format as documented in docs/ and in
// the builder): used to consult the filter block with each data block's offset directly.
// ---------------------------------------------------------------------------------------------

fn read_whole_file(fs: &Arc<dyn FileSystem>, path: &PathBuf) -> Vec<u8> {
    let file = fs.open_file(path).unwrap();
    let len = file.len().unwrap() as usize;
    let mut buf = vec![0u8; len];
    file.read_from(&mut buf, 0).unwrap();
    buf
}

fn decode_handle(buf: &[u8]) -> (u64, u64, usize) {
    let (offset, n1) = u64::decode_var(buf).unwrap();
    let (size, n2) = u64::decode_var(&buf[n1..]).unwrap();
    (offset, size, n1 + n2)
}

fn read_raw_block(file: &[u8], offset: u64, size: u64) -> Vec<u8> {
    let start = offset as usize;
    let end = start + size as usize;
    let contents = &file[start..end];
    match file[end] {
        0 => contents.to_vec(),
        1 => {
            let mut out = vec![];
            snap::read::FrameDecoder::new(contents)
                .read_to_end(&mut out)
                .unwrap();
            out
        }
        other => panic!("unknown compression type {other}"),
    }
}

/// Entries (full key bytes, value) of a prefix-compressed block.
fn parse_block(block: &[u8]) -> Vec<(Vec<u8>, Vec<u8>)> {
    let num_restarts = u32::decode_fixed(&block[block.len() - 4..]) as usize;
    let data_end = block.len() - 4 * (1 + num_restarts);
    let mut entries = vec![];
    let mut pos = 0;
    let mut last_key: Vec<u8> = vec![];
    while pos < data_end {
        let (shared, n) = u32::decode_var(&block[pos..]).unwrap();
        pos += n;
        let (unshared, n) = u32::decode_var(&block[pos..]).unwrap();
        pos += n;
        let (value_len, n) = u32::decode_var(&block[pos..]).unwrap();
        pos += n;
        last_key.truncate(shared as usize);
        last_key.extend_from_slice(&block[pos..pos + unshared as usize]);
        pos += unshared as usize;
        let value = block[pos..pos + value_len as usize].to_vec();
        pos += value_len as usize;
        entries.push((last_key.clone(), value));
    }
    entries
}

struct ParsedTable {
    /// (offset of the data block, user keys stored in it)
    data_blocks: Vec<(u64, Vec<Vec<u8>>)>,
    /// The individual filters in order, with LevelDB semantics.
    filters: Vec<Vec<u8>>,
    /// The base (log2 of the filter range size) stored in the filter block.
    base_lg: u8,
    /// Offset and size (without the 5 byte trailer) of the filter block in the file.
    filter_block_handle: (u64, u64),
}

fn parse_table(file: &[u8], filter_block_name: &str) -> ParsedTable {
    let footer = &file[file.len() - 48..];
    let (meta_off, meta_size, n) = decode_handle(footer);
    let (index_off, index_size, _) = decode_handle(&footer[n..]);

    let metaindex = parse_block(&read_raw_block(file, meta_off, meta_size));
    let (_, filter_handle) = metaindex
        .iter()
        .find(|(key, _)| key.as_slice() == filter_block_name.as_bytes())
        .unwrap_or_else(|| panic!("no metaindex entry named {filter_block_name}"));
    let (filter_off, filter_size, _) = decode_handle(filter_handle);
    let filter_block = read_raw_block(file, filter_off, filter_size);

    let base_lg = filter_block[filter_block.len() - 1];
    let array_offset =
        u32::decode_fixed(&filter_block[filter_block.len() - 5..filter_block.len() - 1]) as usize;
    let num_filters = (filter_block.len() - 5 - array_offset) / 4;
    let mut filters = vec![];
    for idx in 0..num_filters {
        // Offset `num_filters` is the array offset word itself, as in LevelDB.
        let start =
            u32::decode_fixed(&filter_block[array_offset + 4 * idx..array_offset + 4 * idx + 4])
                as usize;
        let limit = u32::decode_fixed(
            &filter_block[array_offset + 4 * idx + 4..array_offset + 4 * idx + 8],
        ) as usize;
        assert!(start <= limit && limit <= array_offset, "bad filter offsets");
        filters.push(filter_block[start..limit].to_vec());
    }

    let index = parse_block(&read_raw_block(file, index_off, index_size));
    let mut data_blocks = vec![];
    for (_separator, handle) in index {
        let (off, size, _) = decode_handle(&handle);
        let entries = parse_block(&read_raw_block(file, off, size));
        let user_keys = entries
            .iter()
            .map(|(key, _)| key[..key.len() - 9].to_vec())
            .collect();
        data_blocks.push((off, user_keys));
    }

    ParsedTable {
        data_blocks,
        filters,
        base_lg,
        filter_block_handle: (filter_off, filter_size),
    }
}

/// Check the filter block of a table against its data blocks. Returns descriptions of violations.
fn check_filter_block(
    parsed: &ParsedTable,
    policy: &dyn FilterPolicy,
    context: &str,
) -> Vec<String> {
    let mut violations = vec![];
    for (offset, user_keys) in &parsed.data_blocks {
        let filter_index = (*offset >> parsed.base_lg) as usize;
        if parsed.filters.is_empty() || filter_index >= parsed.filters.len() {
            // Treated as "may match" by readers
            continue;
        }
        let filter = &parsed.filters[filter_index];
        for user_key in user_keys {
            let matched = if filter.is_empty() {
                false
            } else {
                policy.key_may_match(user_key, filter).unwrap_or(true)
            };
            if !matched {
                violations.push(format!(
                    "{context}: block at offset {offset} (filter #{filter_index}, {} bytes) \
                     stores user key {} but the filter answers 'no match'",
                    filter.len(),
                    hex(user_key)
                ));
            }
        }
    }
    violations
}

// ---------------------------------------------------------------------------------------------
// Attacks 3-5: table layouts
// ---------------------------------------------------------------------------------------------

#[cfg(feature = "verif")]
mod table_level {
    use super::*;
    use raindb::verif::table::{self, Entry, Lookup};
    use raindb::Operation;

    pub(super) struct Layout {
        pub max_block_size: usize,
        pub num_user_keys: usize,
        pub key_shape: usize,
        /// value length pattern
        pub value_pattern: usize,
        pub versions_per_key: usize,
        pub seed: u64,
    }

    pub(super) fn make_entries(layout: &Layout) -> Vec<Entry> {
        let mut rng = Rng::new(layout.seed);
        let distinct: BTreeSet<Vec<u8>> = key_set(&mut rng, layout.num_user_keys, layout.key_shape)
            .into_iter()
            .collect();
        let mut entries: Vec<Entry> = vec![];
        let mut sequence: u64 = 1_000_000;
        for (idx, user_key) in distinct.into_iter().enumerate() {
            let versions = if layout.versions_per_key > 1 {
                1 + (rng.below(layout.versions_per_key as u64) as usize)
            } else {
                1
            };
            for version in 0..versions {
                sequence -= 1;
                let value_len = match layout.value_pattern % 7 {
                    0 => 0,
                    1 => 10,
                    2 => 100,
                    // One block spans several 2 KiB filter ranges
                    3 => 5000,
                    // Occasional huge value between many tiny ones
                    4 => {
                        if idx % 37 == 5 {
                            9000
                        } else {
                            3
                        }
                    }
                    5 => rng.below(3000) as usize,
                    _ => {
                        if idx % 2 == 0 {
                            2040
                        } else {
                            1
                        }
                    }
                };
                // Alternate compressible and incompressible values so that on-disk block sizes
                // differ a lot from the uncompressed sizes.
                let value = if (idx + version) % 3 == 0 {
                    vec![b'v'; value_len]
                } else {
                    rng.bytes(value_len)
                };
                let operation = if version == 0 && idx % 11 == 3 {
                    Operation::Delete
                } else {
                    Operation::Put
                };
                entries.push((user_key.clone(), sequence, operation, value));
            }
        }
        // Entries were generated in ascending user key order with descending sequence numbers:
        // this is internal key order.
        entries
    }

    pub(super) fn layouts() -> Vec<Layout> {
        let mut layouts = vec![];
        let mut seed = 1;
        for max_block_size in [1usize, 40, 128, 256, 700, 1024, 2047, 2048, 2049, 4096, 16384] {
            for value_pattern in 0..7 {
                for key_shape in [0usize, 1, 3, 4] {
                    seed += 1;
                    layouts.push(Layout {
                        max_block_size,
                        num_user_keys: 400 + (seed as usize % 5) * 150,
                        key_shape,
                        value_pattern,
                        versions_per_key: if seed % 3 == 0 { 4 } else { 1 },
                        seed,
                    });
                }
            }
        }
        // Key shapes with very few distinct keys but many versions each (a user key that spans
        // several blocks and several filter ranges).
        for max_block_size in [1usize, 64, 512, 4096] {
            seed += 1;
            layouts.push(Layout {
                max_block_size,
                num_user_keys: 60,
                key_shape: 2,
                value_pattern: 5,
                versions_per_key: 40,
                seed,
            });
            seed += 1;
            layouts.push(Layout {
                max_block_size,
                num_user_keys: 60,
                key_shape: 5,
                value_pattern: 2,
                versions_per_key: 200,
                seed,
            });
        }
        // Thousands of keys in one table
        layouts.push(Layout {
            max_block_size: 4096,
            num_user_keys: 6000,
            key_shape: 1,
            value_pattern: 1,
            versions_per_key: 1,
            seed: 4242,
        });
        layouts
    }

    fn options_with(policy: Arc<dyn FilterPolicy>, max_block_size: usize) -> DbOptions {
        let mut options = DbOptions::with_memory_env();
        options.db_path = "/audit".to_string();
        options.max_block_size = max_block_size;
        options.filter_policy = policy;
        options
    }

    /// Build one table per layout, then
    ///  (a) consult the filter block, parsed independently of RainDB's reader, with the offset of
    ///      every data block for every user key stored in the block;
    ///  (b) look every stored entry up through `Table::get` and require that it is found;
    ///  (c) require that every question `Table::get` put to the policy was about a filter that was
    ///      created from a key set containing the key.
    fn run_layouts(make_policy: &dyn Fn() -> (Arc<dyn FilterPolicy>, Box<dyn Fn() -> PolicyLog>)) {
        let mut violations: Vec<String> = vec![];
        let mut num_multi_block_ranges = 0;
        let mut num_multi_range_blocks = 0;
        for (layout_idx, layout) in layouts().iter().enumerate() {
            let (policy, take_log) = make_policy();
            let options = options_with(Arc::clone(&policy), layout.max_block_size);
            let entries = make_entries(layout);
            let context = format!(
                "layout #{layout_idx} (max_block_size={}, keys={}, shape={}, values={}, \
                 versions={})",
                layout.max_block_size,
                layout.num_user_keys,
                layout.key_shape,
                layout.value_pattern,
                layout.versions_per_key
            );
            table::build(&options, 7, &entries).unwrap();

            // (a)
            let fs = options.filesystem_provider();
            let path = PathBuf::from("/audit/data/7.rdb");
            let file = read_whole_file(&fs, &path);
            let filter_block_name = format!("filter.{}", policy.get_name());
            let parsed = parse_table(&file, &filter_block_name);
            let stored: usize = parsed.data_blocks.iter().map(|(_, keys)| keys.len()).sum();
            assert_eq!(stored, entries.len(), "{context}: harness: parsed entry count");
            violations.extend(check_filter_block(&parsed, &*policy, &context));

            // Layout statistics so that we know the scope is really exercised
            let mut blocks_per_range: BTreeMap<u64, usize> = BTreeMap::new();
            for (idx, (offset, _)) in parsed.data_blocks.iter().enumerate() {
                *blocks_per_range.entry(offset >> 11).or_default() += 1;
                if let Some((next, _)) = parsed.data_blocks.get(idx + 1) {
                    if (next >> 11) > (offset >> 11) + 1 {
                        num_multi_range_blocks += 1;
                    }
                }
            }
            num_multi_block_ranges += blocks_per_range.values().filter(|n| **n > 1).count();

            // (b)
            let _ = take_log();
            let reader = table::open(&options, 7).unwrap();
            for (user_key, sequence, operation, value) in &entries {
                for fill_cache in [false, true] {
                    let expected = match operation {
                        Operation::Put => Lookup::Value(value.clone()),
                        Operation::Delete => Lookup::Deleted,
                    };
                    let actual = reader.get(user_key, *sequence, fill_cache);
                    if actual != expected {
                        violations.push(format!(
                            "{context}: Table::get({} @ {sequence}) returned {:?} but the table \
                             stores {:?} for it",
                            hex(user_key),
                            short(&actual),
                            short(&expected)
                        ));
                    }
                }
                // A reader at the newest snapshot must find the newest version of the user key
                let newest = reader.get(user_key, u64::MAX, false);
                if matches!(newest, Lookup::NotInFile | Lookup::Error(_)) {
                    violations.push(format!(
                        "{context}: Table::get({} @ MAX) returned {:?} although the table \
                         contains the user key",
                        hex(user_key),
                        short(&newest)
                    ));
                }
            }

            // (c)
            let log = take_log();
            for (key, filter, answer) in &log.asked {
                if !*answer {
                    violations.push(format!(
                        "{context}: Table::get consulted a {}-byte filter for stored key {} and \
                         was answered 'no match'",
                        filter.len(),
                        hex(key)
                    ));
                }
            }
            if violations.len() > 20 {
                break;
            }
        }
        assert!(
            num_multi_block_ranges > 100 && num_multi_range_blocks > 100,
            "harness: the layouts must cover both several blocks per 2 KiB range \
             ({num_multi_block_ranges}) and blocks spanning several ranges \
             ({num_multi_range_blocks})"
        );
        assert!(
            violations.is_empty(),
            "The property requires that a table's filter block answers 'may match' for every user \
             key stored in the block it is consulted for, and that lookups of stored keys are not \
             cut short. Observed {} violations, e.g.:\n{}",
            violations.len(),
            violations[..violations.len().min(8)].join("\n")
        );
    }

    fn short(lookup: &Lookup) -> String {
        match lookup {
            Lookup::Value(value) => format!("Value({})", hex(value)),
            other => format!("{:?}", other),
        }
    }

    #[test]
    fn a3_table_filter_block_with_exact_policy() {
        run_layouts(&|| {
            let policy = Arc::new(ExactPolicy::new("audit.Exact"));
            let for_log = Arc::clone(&policy);
            (
                policy as Arc<dyn FilterPolicy>,
                Box::new(move || std::mem::take(&mut *for_log.log.lock().unwrap())),
            )
        });
    }

    #[test]
    fn a4_table_filter_block_with_bloom_policy() {
        let counter = std::sync::atomic::AtomicUsize::new(0);
        run_layouts(&|| {
            let n = counter.fetch_add(1, std::sync::atomic::Ordering::SeqCst);
            let policy = Arc::new(RecordingBloom::new(1 + n % 64));
            let for_log = Arc::clone(&policy);
            (
                policy as Arc<dyn FilterPolicy>,
                Box::new(move || std::mem::take(&mut *for_log.log.lock().unwrap())),
            )
        });
    }

    /// Every key set handed to `create_filter` must be exactly the user keys of the data blocks
    /// that start inside one 2 KiB range, and the filter must sit at that range's index.
    #[test]
    fn a5_filter_ranges_line_up_with_block_offsets() {
        let mut violations: Vec<String> = vec![];
        for (layout_idx, layout) in layouts().iter().enumerate() {
            let policy = Arc::new(ExactPolicy::new("audit.Exact"));
            let options = options_with(
                Arc::clone(&policy) as Arc<dyn FilterPolicy>,
                layout.max_block_size,
            );
            let entries = make_entries(layout);
            table::build(&options, 9, &entries).unwrap();
            let fs = options.filesystem_provider();
            let file = read_whole_file(&fs, &PathBuf::from("/audit/data/9.rdb"));
            let parsed = parse_table(&file, "filter.audit.Exact");
            assert_eq!(parsed.base_lg, 11);

            let mut expected: BTreeMap<usize, BTreeSet<Vec<u8>>> = BTreeMap::new();
            for (offset, user_keys) in &parsed.data_blocks {
                expected
                    .entry((*offset >> 11) as usize)
                    .or_default()
                    .extend(user_keys.iter().cloned());
            }
            for (range, keys) in &expected {
                let actual = parsed
                    .filters
                    .get(*range)
                    .and_then(|filter| ExactPolicy::decode(filter));
                if actual.as_ref() != Some(keys) {
                    violations.push(format!(
                        "layout #{layout_idx}: filter #{range} holds {:?} keys but the blocks \
                         starting in that range hold {} keys",
                        actual.map(|set| set.len()),
                        keys.len()
                    ));
                }
            }
        }
        assert!(
            violations.is_empty(),
            "filters do not line up with the block offsets: {}",
            violations[..violations.len().min(8)].join("\n")
        );
    }

    /// A table written under one filter policy and opened under a *differently named* policy.
    ///
    /// The name of the policy is part of the metaindex key precisely so that a policy is never
    /// handed a filter it did not create (see the docs of `FilterPolicy::get_name`). The lookup
    /// must then either ignore the foreign filter block or still find every stored key.
    #[test]
    fn a6_table_opened_with_a_differently_named_policy() {
        let mut violations: Vec<String> = vec![];
        // (name of the reading policy, bits per key of the writing Bloom policy)
        for reader_name in ["AAA.Exact", "RainDB.Bloom", "RainDB.BloomFilter2", "ZZZ.Exact"] {
            let layout = Layout {
                max_block_size: 512,
                num_user_keys: 500,
                key_shape: 1,
                value_pattern: 2,
                versions_per_key: 1,
                seed: 99,
            };
            let entries = make_entries(&layout);
            let writer_options = options_with(Arc::new(BloomFilterPolicy::new(10)), 512);
            table::build(&writer_options, 11, &entries).unwrap();

            let mut reader_options = writer_options.clone();
            let reading_policy = Arc::new(ExactPolicy::new(reader_name));
            reader_options.filter_policy = Arc::clone(&reading_policy) as Arc<dyn FilterPolicy>;
            let reader = table::open(&reader_options, 11).unwrap();
            let mut missing = 0;
            for (user_key, sequence, operation, _value) in &entries {
                let actual = reader.get(user_key, *sequence, false);
                let found = match operation {
                    Operation::Put => matches!(actual, Lookup::Value(_)),
                    Operation::Delete => matches!(actual, Lookup::Deleted),
                };
                if !found {
                    missing += 1;
                }
            }
            let foreign_questions = reading_policy.log.lock().unwrap().asked.len();
            if missing > 0 {
                violations.push(format!(
                    "reading policy '{reader_name}': {missing} of {} stored keys were reported \
                     NotInFile; the policy was handed {foreign_questions} filters that were \
                     created by 'RainDB.BloomFilter'",
                    entries.len()
                ));
            }
        }
        assert!(
            violations.is_empty(),
            "The property requires that a lookup is never cut short by a filter for a key the \
             table contains. Observed:\n{}",
            violations.join("\n")
        );
    }
}

// ---------------------------------------------------------------------------------------------
// Attack 7: whole database, differential against a model
// ---------------------------------------------------------------------------------------------

fn db_options(fs: Arc<dyn FileSystem>, policy: Arc<dyn FilterPolicy>, seed: u64) -> DbOptions {
    let mut options = DbOptions::with_memory_env();
    options.filesystem_provider = fs;
    options.db_path = format!("/auditdb{seed}");
    options.create_if_missing = true;
    options.filter_policy = policy;
    options.max_memtable_size = [600usize, 3000, 20_000][(seed % 3) as usize];
    options.max_file_size = [500u64, 4000, 50_000][((seed / 3) % 3) as usize];
    options.max_block_size = [100usize, 700, 4096][((seed / 9) % 3) as usize];
    options
}

fn db_key(rng: &mut Rng, space: u64) -> Vec<u8> {
    let n = rng.below(space);
    match n % 5 {
        0 => format!("k{:06}", n).into_bytes(),
        1 => vec![0xff; (n % 13) as usize],
        2 => n.to_le_bytes()[..(1 + n % 8) as usize].to_vec(),
        3 => {
            let mut key = format!("long-{:05}-", n).into_bytes();
            key.extend(vec![b'x'; (n % 90) as usize]);
            key
        }
        _ => vec![(n % 251) as u8, 0, (n % 7) as u8],
    }
}

fn run_db_differential(policy_for: &dyn Fn(u64) -> Arc<dyn FilterPolicy>) {
    let mut violations: Vec<String> = vec![];
    for seed in 0..27u64 {
        let fs: Arc<dyn FileSystem> = Arc::new(InMemoryFileSystem::new());
        let options = db_options(Arc::clone(&fs), policy_for(seed), seed);
        let mut model: BTreeMap<Vec<u8>, Option<Vec<u8>>> = BTreeMap::new();
        let mut rng = Rng::new(1000 + seed);
        let mut db = DB::open(options.clone()).unwrap();
        let mut snapshots: Vec<(raindb::Snapshot, BTreeMap<Vec<u8>, Option<Vec<u8>>>)> = vec![];
        for step in 0..3000 {
            let key = db_key(&mut rng, 700);
            if rng.below(10) < 2 {
                db.delete(WriteOptions::default(), key.clone()).unwrap();
                model.insert(key, None);
            } else {
                let len = match rng.below(20) {
                    0 => 5000,
                    1 => 0,
                    _ => rng.below(120) as usize,
                };
                let value = rng.bytes(len);
                db.put(WriteOptions::default(), key.clone(), value.clone())
                    .unwrap();
                model.insert(key, Some(value));
            }
            if step % 1000 == 999 {
                db.compact_range(None..None);
            }
            if step == 1500 {
                drop(db);
                db = DB::open(options.clone()).unwrap();
            }
            if step == 1800 || step == 2300 || step == 2800 {
                // Old versions of user keys now survive compactions: one user key can span
                // several blocks and several filter ranges of a table.
                snapshots.push((db.get_snapshot(), model.clone()));
            }
        }
        for round in 0..2 {
            for (key, expected) in &model {
                let actual = db.get(ReadOptions::default(), key);
                let ok = match (expected, &actual) {
                    (Some(value), Ok(found)) => value == found,
                    (None, Err(raindb::RainDBError::KeyNotFound)) => true,
                    _ => false,
                };
                if !ok {
                    violations.push(format!(
                        "seed {seed} round {round}: get({}) returned {:?} but the last write was \
                         {:?}",
                        hex(key),
                        actual.as_ref().map(|v| hex(v)),
                        expected.as_ref().map(|v| hex(v))
                    ));
                }
            }
            for (snapshot_idx, (snapshot, old_model)) in snapshots.iter().enumerate() {
                for (key, expected) in old_model {
                    let read_options = ReadOptions {
                        fill_cache: round == 1,
                        snapshot: Some(snapshot.clone()),
                    };
                    let actual = db.get(read_options, key);
                    let ok = match (expected, &actual) {
                        (Some(value), Ok(found)) => value == found,
                        (None, Err(raindb::RainDBError::KeyNotFound)) => true,
                        _ => false,
                    };
                    if !ok {
                        violations.push(format!(
                            "seed {seed} round {round} snapshot #{snapshot_idx}: get({}) \
                             returned {:?} but the last write before the snapshot was {:?}",
                            hex(key),
                            actual.as_ref().map(|v| hex(v)),
                            expected.as_ref().map(|v| hex(v))
                        ));
                    }
                }
            }
            db.compact_range(None..None);
        }
        for (snapshot, _) in snapshots {
            db.release_snapshot(snapshot);
        }
        drop(db);
        if violations.len() > 10 {
            break;
        }
    }
    assert!(
        violations.is_empty(),
        "The property requires that no present key is hidden. Observed {} wrong reads, e.g.:\n{}",
        violations.len(),
        violations[..violations.len().min(8)].join("\n")
    );
}

#[test]
fn a7_database_with_bloom_filters_finds_every_present_key() {
    run_db_differential(&|seed| Arc::new(BloomFilterPolicy::new(1 + (seed as usize * 5) % 64)));
}

#[test]
fn a8_database_with_exact_filters_finds_every_present_key() {
    run_db_differential(&|_seed| Arc::new(ExactPolicy::new("audit.Exact")));
}

// ---------------------------------------------------------------------------------------------
// Attack 9: a database reopened with a differently named filter policy (public API only)
// ---------------------------------------------------------------------------------------------

/// Write a database under `writer`, close it, reopen it under `reader` and read every key back.
/// Returns (number of keys, keys that could not be read back).
fn reopen_with_other_policy(
    writer: Arc<dyn FilterPolicy>,
    reader: Arc<dyn FilterPolicy>,
    db_path: &str,
) -> (usize, Vec<String>) {
    let fs: Arc<dyn FileSystem> = Arc::new(InMemoryFileSystem::new());
    let mut options = DbOptions::with_memory_env();
    options.filesystem_provider = Arc::clone(&fs);
    options.db_path = db_path.to_string();
    options.create_if_missing = true;
    options.max_memtable_size = 4000;
    options.max_block_size = 512;
    options.filter_policy = writer;

    let mut model: BTreeMap<Vec<u8>, Vec<u8>> = BTreeMap::new();
    {
        let db = DB::open(options.clone()).unwrap();
        for idx in 0..2000u32 {
            let key = format!("key{:05}", idx).into_bytes();
            let value = format!("value{idx}").into_bytes();
            db.put(WriteOptions::default(), key.clone(), value.clone())
                .unwrap();
            model.insert(key, value);
        }
        // Make sure that everything is in table files
        db.compact_range(None..None);
        for (key, value) in &model {
            assert_eq!(
                &db.get(ReadOptions::default(), key).unwrap(),
                value,
                "harness: the writing session must see its own keys"
            );
        }
    }

    options.filter_policy = reader;
    let db = DB::open(options).unwrap();
    let mut hidden = vec![];
    for (key, value) in &model {
        match db.get(ReadOptions::default(), key) {
            Ok(found) if &found == value => {}
            other => hidden.push(format!(
                "{} -> {:?}",
                String::from_utf8_lossy(key),
                other.map(|v| hex(&v))
            )),
        }
    }
    (model.len(), hidden)
}

/// The database was written with a custom policy (name "audit.Exact") and is reopened with the
/// default options, i.e. the built-in `BloomFilterPolicy`. The filter blocks in the files are
/// stored under the metaindex key "filter.audit.Exact", the reader asks for
/// "filter.RainDB.BloomFilter". The Bloom policy must never see those filters.
#[test]
fn a9_database_written_with_custom_policy_reopened_with_default_bloom() {
    let (total, hidden) = reopen_with_other_policy(
        Arc::new(ExactPolicy::new("audit.Exact")),
        Arc::new(BloomFilterPolicy::new(10)),
        "/reopen1",
    );
    assert!(
        hidden.is_empty(),
        "The property requires that a lookup is never cut short by a filter for a key the table \
         contains. After reopening with the default BloomFilterPolicy, {} of {total} present keys \
         cannot be read, e.g. {:?}",
        hidden.len(),
        &hidden[..hidden.len().min(5)]
    );
}

/// The reverse direction: written with the default Bloom policy, reopened with a custom policy
/// whose name sorts before "RainDB.BloomFilter".
#[test]
fn a10_database_written_with_default_bloom_reopened_with_custom_policy() {
    let (total, hidden) = reopen_with_other_policy(
        Arc::new(BloomFilterPolicy::new(10)),
        Arc::new(ExactPolicy::new("Exact.v1")),
        "/reopen2",
    );
    assert!(
        hidden.is_empty(),
        "The property requires that a lookup is never cut short by a filter for a key the table \
         contains. After reopening with the policy 'Exact.v1', {} of {total} present keys cannot \
         be read, e.g. {:?}",
        hidden.len(),
        &hidden[..hidden.len().min(5)]
    );
}

/// Control: a reading policy whose name sorts after every stored name gets no filter at all and
/// everything is found. (Shows that a9/a10 are about the metaindex lookup and nothing else.)
#[test]
fn a11_control_reopened_with_policy_name_sorting_last() {
    let (_total, hidden) = reopen_with_other_policy(
        Arc::new(BloomFilterPolicy::new(10)),
        Arc::new(ExactPolicy::new("zzz.Exact")),
        "/reopen3",
    );
    assert!(hidden.is_empty(), "unexpected hidden keys: {:?}", hidden);
}

// ---------------------------------------------------------------------------------------------
// Attack 12: a policy whose filter for a (small) key set is the empty byte string
// ---------------------------------------------------------------------------------------------

/// A policy that satisfies the `FilterPolicy` contract (a member key always matches) but does not
/// bother to build a filter for small key sets: it emits an empty filter, which it reads back as
/// "may match everything". For bigger sets it delegates to Bloom.
#[derive(Debug)]
struct SparsePolicy {
    bloom: BloomFilterPolicy,
    min_keys: usize,
}

impl FilterPolicy for SparsePolicy {
    fn get_name(&self) -> String {
        "audit.Sparse".to_string()
    }

    fn create_filter(&self, keys: &[Vec<u8>]) -> Vec<u8> {
        if keys.len() < self.min_keys {
            return vec![];
        }
        self.bloom.create_filter(keys)
    }

    fn key_may_match(&self, key: &[u8], filter: &[u8]) -> Result<bool, FilterPolicyError> {
        if filter.is_empty() {
            return Ok(true);
        }
        self.bloom.key_may_match(key, filter)
    }
}

#[test]
fn a12_policy_that_emits_empty_filters_for_small_key_sets() {
    // The policy level part of the property holds for this policy
    let policy = SparsePolicy {
        bloom: BloomFilterPolicy::new(10),
        min_keys: 8,
    };
    let mut rng = Rng::new(5);
    for size in [0usize, 1, 7, 8, 9, 100] {
        let keys = key_set(&mut rng, size, 0);
        let filter = policy.create_filter(&keys);
        for key in &keys {
            assert!(policy.key_may_match(key, &filter).unwrap(), "harness");
        }
    }

    let fs: Arc<dyn FileSystem> = Arc::new(InMemoryFileSystem::new());
    let mut options = DbOptions::with_memory_env();
    options.filesystem_provider = fs;
    options.db_path = "/sparse".to_string();
    options.create_if_missing = true;
    options.max_block_size = 4096;
    options.filter_policy = Arc::new(policy);
    let db = DB::open(options).unwrap();
    let mut model: BTreeMap<Vec<u8>, Vec<u8>> = BTreeMap::new();
    for idx in 0..40u32 {
        let key = format!("key{:05}", idx).into_bytes();
        // ~1 KiB incompressible values: 2 keys per 2 KiB filter range
        let value = rng.bytes(1000);
        db.put(WriteOptions::default(), key.clone(), value.clone())
            .unwrap();
        model.insert(key, value);
    }
    db.compact_range(None..None);
    let mut hidden = vec![];
    for (key, value) in &model {
        match db.get(ReadOptions::default(), key) {
            Ok(found) if &found == value => {}
            other => hidden.push(format!(
                "{} -> {:?}",
                String::from_utf8_lossy(key),
                other.map(|v| hex(&v))
            )),
        }
    }
    assert!(
        hidden.is_empty(),
        "The property requires that the filter block answers 'may match' for every stored user \
         key. The policy answers 'may match' for all of them, but {} of {} present keys cannot be \
         read, e.g. {:?}",
        hidden.len(),
        model.len(),
        &hidden[..hidden.len().min(5)]
    );
}

// ---------------------------------------------------------------------------------------------
// Attack 13: I/O faults and damage in the filter block
// ---------------------------------------------------------------------------------------------

#[derive(Clone, Copy, Debug)]
enum Fault {
    /// Reads overlapping [lo, hi) fail.
    FailRead(usize, usize),
    /// Reads overlapping [lo, hi) are reported short by one byte.
    ShortRead(usize, usize),
    /// The byte at this file offset is XORed with the mask.
    Flip(usize, u8),
}

struct FaultFile {
    inner: Box<dyn raindb::fs::ReadonlyRandomAccessFile>,
    fault: Fault,
}

impl std::io::Read for FaultFile {
    fn read(&mut self, buf: &mut [u8]) -> std::io::Result<usize> {
        self.inner.read(buf)
    }
}

impl std::io::Seek for FaultFile {
    fn seek(&mut self, pos: std::io::SeekFrom) -> std::io::Result<u64> {
        self.inner.seek(pos)
    }
}

impl raindb::fs::ReadonlyRandomAccessFile for FaultFile {
    fn read_from(&self, buf: &mut [u8], offset: usize) -> std::io::Result<usize> {
        let end = offset + buf.len();
        match self.fault {
            Fault::FailRead(lo, hi) if offset < hi && lo < end => Err(std::io::Error::new(
                std::io::ErrorKind::Other,
                "injected read failure",
            )),
            Fault::ShortRead(lo, hi) if offset < hi && lo < end => {
                let n = self.inner.read_from(buf, offset)?;
                Ok(n.saturating_sub(1))
            }
            Fault::Flip(at, mask) => {
                let n = self.inner.read_from(buf, offset)?;
                if at >= offset && at < end {
                    buf[at - offset] ^= mask;
                }
                Ok(n)
            }
            _ => self.inner.read_from(buf, offset),
        }
    }

    fn len(&self) -> std::io::Result<u64> {
        self.inner.len()
    }
}

struct FaultFs {
    inner: Arc<dyn FileSystem>,
    fault: Mutex<Option<Fault>>,
}

impl FileSystem for FaultFs {
    fn get_name(&self) -> String {
        "FaultFs".to_string()
    }
    fn create_dir(&self, path: &std::path::Path) -> std::io::Result<()> {
        self.inner.create_dir(path)
    }
    fn create_dir_all(&self, path: &std::path::Path) -> std::io::Result<()> {
        self.inner.create_dir_all(path)
    }
    fn list_dir(&self, path: &std::path::Path) -> std::io::Result<Vec<PathBuf>> {
        self.inner.list_dir(path)
    }
    fn open_file(
        &self,
        path: &std::path::Path,
    ) -> std::io::Result<Box<dyn raindb::fs::ReadonlyRandomAccessFile>> {
        let file = self.inner.open_file(path)?;
        match *self.fault.lock().unwrap() {
            Some(fault) => Ok(Box::new(FaultFile { inner: file, fault })),
            None => Ok(file),
        }
    }
    fn rename(&self, from: &std::path::Path, to: &std::path::Path) -> std::io::Result<()> {
        self.inner.rename(from, to)
    }
    fn create_file(
        &self,
        path: &std::path::Path,
        append: bool,
    ) -> std::io::Result<Box<dyn raindb::fs::RandomAccessFile>> {
        self.inner.create_file(path, append)
    }
    fn remove_file(&self, path: &std::path::Path) -> std::io::Result<()> {
        self.inner.remove_file(path)
    }
    fn remove_dir(&self, path: &std::path::Path) -> std::io::Result<()> {
        self.inner.remove_dir(path)
    }
    fn remove_dir_all(&self, path: &std::path::Path) -> std::io::Result<()> {
        self.inner.remove_dir_all(path)
    }
    fn get_file_size(&self, path: &std::path::Path) -> std::io::Result<u64> {
        self.inner.get_file_size(path)
    }
    fn is_dir(&self, path: &std::path::Path) -> std::io::Result<bool> {
        self.inner.is_dir(path)
    }
    fn lock_file(&self, path: &std::path::Path) -> std::io::Result<raindb::fs::FileLock> {
        self.inner.lock_file(path)
    }
}

/// Whatever happens to the filter block (unreadable, short read, any single damaged byte in the
/// block or its trailer), a stored key must not be reported absent: either the table ignores the
/// filter block, or the open/lookup reports an error.
#[cfg(feature = "verif")]
#[test]
fn a13_faults_in_the_filter_block_never_hide_keys() {
    use raindb::verif::table::{self, Lookup};
    use raindb::Operation;

    let fault_fs = Arc::new(FaultFs {
        inner: Arc::new(InMemoryFileSystem::new()),
        fault: Mutex::new(None),
    });
    let policy: Arc<dyn FilterPolicy> = Arc::new(BloomFilterPolicy::new(10));
    let mut options = DbOptions::with_memory_env();
    options.filesystem_provider = Arc::clone(&fault_fs) as Arc<dyn FileSystem>;
    options.db_path = "/faults".to_string();
    options.max_block_size = 300;
    options.filter_policy = Arc::clone(&policy);

    let layout = table_level::Layout {
        max_block_size: 300,
        num_user_keys: 150,
        key_shape: 1,
        value_pattern: 2,
        versions_per_key: 1,
        seed: 31,
    };
    let entries = table_level::make_entries(&layout);
    table::build(&options, 5, &entries).unwrap();
    let fs = options.filesystem_provider();
    let file = read_whole_file(&fs, &PathBuf::from("/faults/data/5.rdb"));
    let parsed = parse_table(&file, "filter.RainDB.BloomFilter");
    let (off, size) = parsed.filter_block_handle;
    let (lo, hi) = (off as usize, (off + size) as usize + 5);
    assert!(parsed.filters.len() > 3, "harness: want several filters");

    let mut faults = vec![Fault::FailRead(lo, hi), Fault::ShortRead(lo, hi)];
    for at in lo..hi {
        faults.push(Fault::Flip(at, 1 << (at % 8)));
        faults.push(Fault::Flip(at, 0xff));
    }

    let mut violations = vec![];
    let mut opened = 0;
    for fault in faults {
        *fault_fs.fault.lock().unwrap() = Some(fault);
        let reader = match table::open(&options, 5) {
            Ok(reader) => reader,
            // Refusing to open the table hides nothing silently
            Err(_) => continue,
        };
        opened += 1;
        for (user_key, sequence, operation, value) in &entries {
            let actual = reader.get(user_key, *sequence, false);
            let ok = match (&actual, operation) {
                (Lookup::Error(_), _) => true,
                (Lookup::Value(found), Operation::Put) => found == value,
                (Lookup::Deleted, Operation::Delete) => true,
                _ => false,
            };
            if !ok {
                violations.push(format!(
                    "{:?}: get({}) -> {:?}",
                    fault,
                    hex(user_key),
                    actual
                ));
            }
        }
    }
    *fault_fs.fault.lock().unwrap() = None;
    assert!(opened > 0, "harness: no faulty table could be opened");
    assert!(
        violations.is_empty(),
        "a fault in the filter block hid stored keys ({} cases), e.g. {:?}",
        violations.len(),
        &violations[..violations.len().min(5)]
    );
}

// ---------------------------------------------------------------------------------------------
// Attack 14: readers racing flushes and compactions
// ---------------------------------------------------------------------------------------------

/// Keys are only ever overwritten, never deleted. While a writer forces flushes and compactions
/// (tiny memtable and file sizes), readers must find every key at every moment.
#[test]
fn a14_concurrent_readers_never_miss_a_present_key() {
    use std::sync::atomic::{AtomicBool, Ordering};

    let fs: Arc<dyn FileSystem> = Arc::new(InMemoryFileSystem::new());
    let mut options = DbOptions::with_memory_env();
    options.filesystem_provider = fs;
    options.db_path = "/race".to_string();
    options.create_if_missing = true;
    options.max_memtable_size = 2000;
    options.max_file_size = 3000;
    options.max_block_size = 256;
    options.filter_policy = Arc::new(ExactPolicy::new("audit.Exact"));
    let db = Arc::new(DB::open(options).unwrap());

    let keys: Vec<Vec<u8>> = (0..300u32)
        .map(|idx| format!("key{:04}", idx).into_bytes())
        .collect();
    for key in &keys {
        db.put(WriteOptions::default(), key.clone(), b"initial".to_vec())
            .unwrap();
    }

    let stop = Arc::new(AtomicBool::new(false));
    let mut readers = vec![];
    for reader_idx in 0..3usize {
        let db = Arc::clone(&db);
        let keys = keys.clone();
        let stop = Arc::clone(&stop);
        readers.push(std::thread::spawn(move || {
            let mut misses = vec![];
            let mut rounds = 0usize;
            while !stop.load(Ordering::SeqCst) {
                for key in keys.iter().skip(reader_idx).step_by(3) {
                    if let Err(err) = db.get(ReadOptions::default(), key) {
                        misses.push(format!("{} -> {:?}", String::from_utf8_lossy(key), err));
                    }
                }
                rounds += 1;
            }
            (rounds, misses)
        }));
    }

    let mut rng = Rng::new(77);
    for step in 0..6000 {
        let key = keys[rng.below(keys.len() as u64) as usize].clone();
        let len = rng.below(60) as usize;
        db.put(WriteOptions::default(), key, rng.bytes(len)).unwrap();
        if step % 2000 == 1999 {
            db.compact_range(None..None);
        }
    }
    stop.store(true, Ordering::SeqCst);
    let mut all_misses = vec![];
    for reader in readers {
        let (rounds, misses) = reader.join().unwrap();
        assert!(rounds > 0);
        all_misses.extend(misses);
    }
    assert!(
        all_misses.is_empty(),
        "readers missed keys that were present the whole time ({} misses), e.g. {:?}",
        all_misses.len(),
        &all_misses[..all_misses.len().min(5)]
    );
}
