// Deterministic schedule sweep for C06: park a writer at every scheduling point of the write path
// and read with every kind of reader while it is parked.
// Run: cargo test --offline --release --features verif --test audit_sched -- --nocapture --test-threads 1
#![cfg(feature = "verif")]
use std::collections::BTreeMap;
use std::sync::atomic::{AtomicUsize, Ordering};
use std::sync::Arc;
use std::thread;
use std::time::Duration;

use parking_lot::{Condvar, Mutex};
use raindb::{Batch, DbOptions, RainDBError, RainDbIterator, ReadOptions, Snapshot, WriteOptions, DB};

const K: usize = 6;

#[derive(Default)]
struct Gate {
    /// (point, hit index to park at, thread name that is parked)
    armed: Option<(&'static str, usize, String)>,
    hits: usize,
    parked: bool,
    release: bool,
}

struct Sched {
    gate: Mutex<Gate>,
    cv: Condvar,
    publishes: Mutex<Vec<u64>>,
}

struct Both(Arc<Sched>, Arc<Sched>);
impl raindb::verif::Handler for Both {
    fn pause(&self, point: &'static str, args: &[u64]) {
        self.0.pause(point, args);
        self.1.pause(point, args);
    }
    fn note(&self, point: &'static str, args: &[u64]) {
        self.0.note(point, args);
    }
}
fn new_sched() -> Arc<Sched> {
    Arc::new(Sched { gate: Mutex::new(Gate::default()), cv: Condvar::new(), publishes: Mutex::new(vec![]) })
}

impl raindb::verif::Handler for Sched {
    fn pause(&self, point: &'static str, _args: &[u64]) {
        let name = thread::current().name().unwrap_or("").to_string();
        let mut g = self.gate.lock();
        let hit = match &g.armed {
            Some((p, _, who)) if *p == point && *who == name => true,
            _ => false,
        };
        if !hit {
            return;
        }
        let nth = g.armed.as_ref().unwrap().1;
        let idx = g.hits;
        g.hits += 1;
        if idx != nth {
            return;
        }
        g.parked = true;
        self.cv.notify_all();
        while !g.release {
            self.cv.wait(&mut g);
        }
        g.parked = false;
        g.armed = None;
        self.cv.notify_all();
    }
    fn note(&self, point: &'static str, args: &[u64]) {
        if point == "seq.publish" {
            self.publishes.lock().push(args[0]);
        }
    }
}

impl Sched {
    fn arm(&self, point: &'static str, nth: usize, who: &str) {
        let mut g = self.gate.lock();
        *g = Gate::default();
        g.armed = Some((point, nth, who.to_string()));
    }
    /// Returns false if the thread never parked (point not reached).
    fn wait_parked(&self) -> bool {
        let mut g = self.gate.lock();
        let deadline = std::time::Instant::now() + Duration::from_secs(5);
        while !g.parked {
            if self.cv.wait_until(&mut g, deadline).timed_out() {
                return g.parked;
            }
        }
        true
    }
    fn release(&self) {
        let mut g = self.gate.lock();
        g.release = true;
        self.cv.notify_all();
    }
}

fn key(f: usize, i: usize) -> Vec<u8> {
    format!("k{:02}-f{}", i, f).into_bytes()
}

fn val(id: u64, pad: usize) -> Vec<u8> {
    let mut v = format!("{:06}:", id).into_bytes();
    v.extend(std::iter::repeat(b'p').take(pad));
    v
}

fn id_of(v: &[u8]) -> u64 {
    std::str::from_utf8(&v[..6]).unwrap().parse().unwrap()
}

type View = BTreeMap<Vec<u8>, u64>;

fn view_gets(db: &DB, snap: Option<&Snapshot>, families: usize) -> View {
    let mut view = View::new();
    for f in 0..families {
        for i in 0..K {
            let ro = ReadOptions { fill_cache: true, snapshot: snap.cloned() };
            match db.get(ro, &key(f, i)) {
                Ok(v) => {
                    view.insert(key(f, i), id_of(&v));
                }
                Err(RainDBError::KeyNotFound) => {}
                Err(e) => panic!("get error {e}"),
            }
        }
    }
    view
}

fn view_iter<I: RainDbIterator<Key = Vec<u8>, Error = RainDBError>>(it: &mut I) -> (View, View) {
    let mut fwd = View::new();
    it.seek_to_first().unwrap();
    while it.is_valid() {
        let (k, v) = it.current().unwrap();
        fwd.insert(k.clone(), id_of(v));
        it.next();
    }
    assert!(it.status().is_none());
    let mut bwd = View::new();
    it.seek_to_last().unwrap();
    while it.is_valid() {
        let (k, v) = it.current().unwrap();
        bwd.insert(k.clone(), id_of(v));
        it.prev();
    }
    (fwd, bwd)
}

fn expect(families: &[Option<u64>]) -> View {
    let mut view = View::new();
    for (f, id) in families.iter().enumerate() {
        if let Some(id) = id {
            for i in 0..K {
                view.insert(key(f, i), *id);
            }
        }
    }
    view
}

static COUNTER: AtomicUsize = AtomicUsize::new(0);
static CHECKS: AtomicUsize = AtomicUsize::new(0);

fn all_readers(db: &DB, want: &View, families: usize, ctx: &str) {
    let s = db.get_snapshot();
    let got = view_gets(db, Some(&s), families);
    assert_eq!(&got, want, "{ctx}: snapshot gets");
    let mut it = db
        .new_iterator(ReadOptions { fill_cache: true, snapshot: Some(s.clone()) })
        .unwrap();
    let (f, b) = view_iter(&mut it);
    assert_eq!(&f, want, "{ctx}: snapshot iterator forward");
    assert_eq!(&b, want, "{ctx}: snapshot iterator backward");
    drop(it);
    db.release_snapshot(s);
    let mut it = db.new_iterator(ReadOptions::default()).unwrap();
    let (f, b) = view_iter(&mut it);
    assert_eq!(&f, want, "{ctx}: plain iterator forward");
    assert_eq!(&b, want, "{ctx}: plain iterator backward");
    let got = view_gets(db, None, families);
    assert_eq!(&got, want, "{ctx}: plain gets");
    CHECKS.fetch_add(6, Ordering::Relaxed);
}

#[derive(Clone, Copy, Debug)]
enum Base {
    Memtable,
    Flushed,
    Compacted,
}

fn scenario(g0: &Arc<Sched>, g1: &Arc<Sched>, point: &'static str, nth: usize, base: Base, memtable: usize, pad: usize, delete: bool, group: bool) -> bool {
    let n = COUNTER.fetch_add(1, Ordering::Relaxed);
    let mut options = DbOptions::with_memory_env();
    options.db_path = format!("/audit-sched-{n}");
    options.create_if_missing = true;
    options.max_memtable_size = memtable;
    options.max_file_size = 2048;
    options.max_block_size = 128;
    let db = Arc::new(DB::open(options).unwrap());
    let ctx = format!("point {point}#{nth} base {base:?} memtable {memtable} pad {pad} delete {delete} group {group}");

    // base state: families 0,1,2 at id 1
    for f in 0..3 {
        let mut b = Batch::new();
        for i in 0..K {
            b.add_put(key(f, i), val(1, 10));
        }
        db.apply(WriteOptions::default(), b).unwrap();
    }
    match base {
        Base::Memtable => {}
        Base::Flushed | Base::Compacted => {
            db.compact_range(None..None);
            if let Base::Flushed = base {
                for f in 0..3 {
                    let mut b = Batch::new();
                    for i in 0..K {
                        b.add_put(key(f, i), val(1, 11));
                    }
                    db.apply(WriteOptions::default(), b).unwrap();
                }
            }
        }
    }
    let mut before = expect(&[Some(1), Some(1), Some(1)]);
    all_readers(&db, &before, 3, &format!("{ctx}: before"));

    let make = move |f: usize, id: u64| {
        let mut b = Batch::new();
        for i in 0..K {
            if delete {
                b.add_delete(key(f, i));
            } else {
                b.add_put(key(f, i), val(id, pad));
            }
        }
        b
    };
    let name_a = format!("writer-a-{n}");
    let name_b = format!("writer-b-{n}");
    let mut threads = vec![];
    let spawn = |name: &str, f: usize, id: u64| {
        let dbw = Arc::clone(&db);
        thread::Builder::new()
            .name(name.to_string())
            .spawn(move || dbw.apply(WriteOptions::default(), make(f, id)).unwrap())
            .unwrap()
    };
    let gate: &Arc<Sched>;
    if !group {
        g0.arm(point, nth, &name_a);
        threads.push(spawn(&name_a, 0, 2));
        gate = g0;
    } else {
        g0.arm("write.before_wal", 0, &name_a);
        threads.push(spawn(&name_a, 0, 2));
        assert!(g0.wait_parked(), "{ctx}: leader did not park");
        g1.arm(point, nth, &name_b);
        g0.publishes.lock().clear();
        threads.push(spawn(&name_b, 1, 3));
        thread::sleep(Duration::from_millis(15));
        threads.push(spawn("writer-c", 2, 3));
        thread::sleep(Duration::from_millis(15));
        // nothing visible while all three are queued
        all_readers(&db, &before, 3, &format!("{ctx}: all queued"));
        g0.release();
        gate = g1;
        before = expect(&[if delete { None } else { Some(2) }, Some(1), Some(1)]);
    }
    let parked = gate.wait_parked();
    if !parked {
        gate.release();
        for t in threads {
            t.join().unwrap();
        }
        return false;
    }

    // while parked: nothing of the in-flight batch (group) may be visible
    all_readers(&db, &before, 3, &format!("{ctx}: while parked"));
    // readers created now, used later
    let old_snap = db.get_snapshot();
    let mut old_it = db.new_iterator(ReadOptions::default()).unwrap();
    old_it.seek_to_first().unwrap();

    gate.release();
    for t in threads {
        t.join().unwrap();
    }
    if group {
        let p = g0.publishes.lock().clone();
        // A's publish, then either one group publish (B+C) or two
        if p.len() == 2 {
            GROUPED.fetch_add(1, Ordering::Relaxed);
        }
    }

    let a = if delete { None } else { Some(2) };
    let bc = if !group {
        Some(1)
    } else if delete {
        None
    } else {
        Some(3)
    };
    let after = expect(&[a, bc, bc]);
    all_readers(&db, &after, 3, &format!("{ctx}: after"));
    let (f, b) = view_iter(&mut old_it);
    assert_eq!(f, before, "{ctx}: old iterator forward");
    assert_eq!(b, before, "{ctx}: old iterator backward");
    assert_eq!(view_gets(&db, Some(&old_snap), 3), before, "{ctx}: old snapshot gets");
    // the same after the memtable went to disk
    db.compact_range(None..None);
    assert_eq!(view_gets(&db, Some(&old_snap), 3), before, "{ctx}: old snapshot gets after compaction");
    let (f, b) = view_iter(&mut old_it);
    assert_eq!(f, before, "{ctx}: old iterator forward after compaction");
    assert_eq!(b, before, "{ctx}: old iterator backward after compaction");
    all_readers(&db, &after, 3, &format!("{ctx}: after compaction"));
    CHECKS.fetch_add(7, Ordering::Relaxed);
    drop(old_it);
    db.release_snapshot(old_snap);
    true
}

static GROUPED: AtomicUsize = AtomicUsize::new(0);

#[test]
fn sweep() {
    let g0 = new_sched();
    let g1 = new_sched();
    raindb::verif::set_handler(Some(Arc::new(Both(g0.clone(), g1.clone()))));
    let mut points: Vec<(&'static str, usize)> = vec![("write.before_wal", 0), ("write.after_wal", 0), ("write.after_mem", 0)];
    for i in 0..2 * K {
        points.push(("write.mem_insert", i));
    }
    let mut ran = 0;
    let mut skipped = 0;
    for &(point, nth) in &points {
        for base in [Base::Memtable, Base::Flushed, Base::Compacted] {
            // memtable budgets: tiny (every write rotates), small, large; pad: small and larger than budget
            for &(memtable, pad) in &[(1usize, 10usize), (700, 10), (700, 400), (1 << 20, 10), (4096, 70_000)] {
                for delete in [false, true] {
                    for group in [false, true] {
                        if !group && point == "write.mem_insert" && nth >= K {
                            continue;
                        }
                        if scenario(&g0, &g1, point, nth, base, memtable, pad, delete, group) {
                            ran += 1;
                        } else {
                            skipped += 1;
                        }
                    }
                }
            }
        }
    }
    eprintln!(
        "scenarios run: {ran}, not parked: {skipped}, group scenarios with a real 2-writer group: {}, reader checks: {}",
        GROUPED.load(Ordering::Relaxed),
        CHECKS.load(Ordering::Relaxed)
    );
    assert!(ran > 0);
}
