// Stress search for C06 (batch atomicity as seen by readers).
// Run: cargo test --offline --release --test audit_stress -- --nocapture
use std::collections::BTreeMap;
use std::sync::atomic::{AtomicBool, AtomicU64, Ordering};
use std::sync::Arc;
use std::thread;
use std::time::{Duration, Instant};

use raindb::{Batch, DbOptions, RainDBError, RainDbIterator, ReadOptions, WriteOptions, DB};

const FAMILIES: usize = 6;
const KEYS_PER_FAMILY: usize = 8;

fn key(f: usize, i: usize) -> Vec<u8> {
    format!("k{:02}-f{}", i, f).into_bytes()
}

fn is_family(k: &[u8]) -> bool {
    k.len() > 4 && k[4] == b'f'
}

fn parse_key(k: &[u8]) -> (usize, usize) {
    let s = std::str::from_utf8(k).unwrap();
    let i: usize = s[1..3].parse().unwrap();
    let f: usize = s[5..].parse().unwrap();
    (f, i)
}

fn value(id: u64, pad: usize) -> Vec<u8> {
    let mut v = format!("{:012}:", id).into_bytes();
    v.extend(std::iter::repeat(b'x').take(pad));
    v
}

fn id_of(v: &[u8]) -> u64 {
    std::str::from_utf8(&v[..12]).unwrap().parse().unwrap()
}

#[cfg(feature = "verif")]
struct Chaos {
    state: AtomicU64,
    level: u64,
}
#[cfg(feature = "verif")]
impl raindb::verif::Handler for Chaos {
    fn pause(&self, point: &'static str, _args: &[u64]) {
        let x = self
            .state
            .fetch_add(0x9E3779B97F4A7C15, Ordering::Relaxed)
            .wrapping_mul(0xBF58476D1CE4E5B9);
        let r = (x >> 40) % 100;
        if point == "compact.step" {
            if r < 2 {
                thread::sleep(Duration::from_micros(200));
            }
            return;
        }
        if r < self.level {
            thread::sleep(Duration::from_micros(50 + (x >> 20) % 1500));
        } else if r < 2 * self.level {
            thread::yield_now();
        }
    }
    fn note(&self, _point: &'static str, _args: &[u64]) {}
}

struct Lcg(u64);
impl Lcg {
    fn next(&mut self) -> u64 {
        self.0 = self
            .0
            .wrapping_mul(6364136223846793005)
            .wrapping_add(1442695040888963407);
        self.0 >> 33
    }
}

/// Check that every family is entirely present with one id or entirely absent.
fn check(view: &BTreeMap<(usize, usize), u64>, what: &str) -> Result<(), String> {
    for f in 0..FAMILIES {
        let ids: Vec<Option<u64>> = (0..KEYS_PER_FAMILY)
            .map(|i| view.get(&(f, i)).copied())
            .collect();
        if ids.iter().any(|x| *x != ids[0]) {
            return Err(format!("{what}: family {f} torn: {ids:?}"));
        }
    }
    Ok(())
}

fn run(seed: u64, memtable: usize, file_size: u64, block: usize, millis: u64) -> Result<(), String> {
    let mut options = DbOptions::with_memory_env();
    options.db_path = format!("/audit-stress-{seed}");
    options.create_if_missing = true;
    options.max_memtable_size = memtable;
    options.max_file_size = file_size;
    options.max_block_size = block;
    let db = Arc::new(DB::open(options).map_err(|e| e.to_string())?);
    let stop = Arc::new(AtomicBool::new(false));
    let next_id = Arc::new(AtomicU64::new(1));
    let failure: Arc<parking_lot::Mutex<Option<String>>> = Arc::new(parking_lot::Mutex::new(None));
    let mut handles = vec![];

    for w in 0..3u64 {
        let db = Arc::clone(&db);
        let stop = Arc::clone(&stop);
        let next_id = Arc::clone(&next_id);
        let failure = Arc::clone(&failure);
        handles.push(thread::spawn(move || {
            let mut rng = Lcg(seed * 1000 + w);
            while !stop.load(Ordering::Relaxed) {
                let f = (rng.next() as usize) % FAMILIES;
                let id = next_id.fetch_add(1, Ordering::Relaxed);
                let mut batch = Batch::new();
                let kind = rng.next() % 10;
                let pad = (rng.next() % 200) as usize;
                // order of keys in batch: forward or reverse
                let order: Vec<usize> = if rng.next() % 2 == 0 {
                    (0..KEYS_PER_FAMILY).collect()
                } else {
                    (0..KEYS_PER_FAMILY).rev().collect()
                };
                if kind == 0 {
                    for &i in &order {
                        batch.add_delete(key(f, i));
                    }
                } else if kind == 1 {
                    // noisy batch: put, delete, put
                    for &i in &order {
                        batch.add_put(key(f, i), value(0, 3));
                    }
                    for &i in &order {
                        batch.add_delete(key(f, i));
                    }
                    for &i in &order {
                        batch.add_put(key(f, i), value(id, pad));
                    }
                } else {
                    for &i in &order {
                        batch.add_put(key(f, i), value(id, pad));
                    }
                }
                if let Err(e) = db.apply(WriteOptions { synchronous: rng.next() % 4 == 0 }, batch) {
                    *failure.lock() = Some(format!("write error: {e}"));
                    return;
                }
            }
        }));
    }

    // filler writer: pushes data down the tree
    if std::env::var("AUDIT_FILLER").is_ok() {
        let db = Arc::clone(&db);
        let stop = Arc::clone(&stop);
        let failure = Arc::clone(&failure);
        handles.push(thread::spawn(move || {
            let mut rng = Lcg(seed * 13 + 3);
            while !stop.load(Ordering::Relaxed) {
                let mut batch = Batch::new();
                let n = 1 + rng.next() % 6;
                for _ in 0..n {
                    // keys sort between the family keys: "k03-a...."
                    let k = format!("k{:02}-a{:05}", rng.next() % 8, rng.next() % 3000).into_bytes();
                    if rng.next() % 5 == 0 {
                        batch.add_delete(k);
                    } else {
                        batch.add_put(k, vec![b'z'; 20 + (rng.next() % 300) as usize]);
                    }
                }
                if let Err(e) = db.apply(WriteOptions::default(), batch) {
                    *failure.lock() = Some(format!("filler write error: {e}"));
                    return;
                }
            }
        }));
    }

    // compactor
    {
        let db = Arc::clone(&db);
        let stop = Arc::clone(&stop);
        handles.push(thread::spawn(move || {
            let mut rng = Lcg(seed * 77 + 5);
            while !stop.load(Ordering::Relaxed) {
                thread::sleep(Duration::from_millis(rng.next() % 30));
                if rng.next() % 2 == 0 {
                    db.compact_range(None..None);
                } else {
                    let a = key(0, (rng.next() as usize) % KEYS_PER_FAMILY);
                    let b = key(5, (rng.next() as usize) % KEYS_PER_FAMILY);
                    db.compact_range(Some(a.as_slice())..Some(b.as_slice()));
                }
            }
        }));
    }

    for r in 0..3u64 {
        let db = Arc::clone(&db);
        let stop = Arc::clone(&stop);
        let failure = Arc::clone(&failure);
        handles.push(thread::spawn(move || {
            let mut rng = Lcg(seed * 31 + r);
            let mut rounds = 0u64;
            while !stop.load(Ordering::Relaxed) {
                rounds += 1;
                let mode = rng.next() % 4;
                let res: Result<(), String> = (|| {
                    let snap = if mode != 1 { Some(db.get_snapshot()) } else { None };
                    if rng.next() % 3 == 0 {
                        thread::sleep(Duration::from_millis(rng.next() % 5));
                    }
                    let mut views: Vec<(String, BTreeMap<(usize, usize), u64>)> = vec![];
                    if mode == 0 || mode == 3 {
                        // gets under the snapshot
                        let mut view = BTreeMap::new();
                        for f in 0..FAMILIES {
                            for i in 0..KEYS_PER_FAMILY {
                                let ro = ReadOptions { fill_cache: rng.next() % 2 == 0, snapshot: snap.clone() };
                                match db.get(ro, &key(f, i)) {
                                    Ok(v) => {
                                        view.insert((f, i), id_of(&v));
                                    }
                                    Err(RainDBError::KeyNotFound) => {}
                                    Err(e) => return Err(format!("get error {e}")),
                                }
                            }
                        }
                        views.push(("snapshot gets".into(), view));
                    }
                    if mode >= 1 {
                        let ro = ReadOptions { fill_cache: true, snapshot: snap.clone() };
                        let mut it = db.new_iterator(ro).map_err(|e| e.to_string())?;
                        if rng.next() % 3 == 0 {
                            thread::sleep(Duration::from_millis(rng.next() % 5));
                        }
                        // forward
                        let mut view = BTreeMap::new();
                        it.seek_to_first().map_err(|e| e.to_string())?;
                        while it.is_valid() {
                            let (k, v) = it.current().unwrap();
                            if is_family(k) {
                                view.insert(parse_key(k), id_of(v));
                            }
                            it.next();
                        }
                        if let Some(e) = it.status() {
                            return Err(format!("iter status {e}"));
                        }
                        views.push(("iter forward".into(), view));
                        // backward
                        let mut view = BTreeMap::new();
                        it.seek_to_last().map_err(|e| e.to_string())?;
                        while it.is_valid() {
                            let (k, v) = it.current().unwrap();
                            if is_family(k) {
                                view.insert(parse_key(k), id_of(v));
                            }
                            it.prev();
                        }
                        views.push(("iter backward".into(), view));
                        // zig-zag: forward 3, back 1
                        let mut view = BTreeMap::new();
                        it.seek_to_first().map_err(|e| e.to_string())?;
                        let mut step = 0;
                        while it.is_valid() {
                            let (k, v) = it.current().unwrap();
                            if is_family(k) {
                                view.insert(parse_key(k), id_of(v));
                            }
                            step += 1;
                            if step % 4 == 3 {
                                it.prev();
                                if !it.is_valid() {
                                    it.seek_to_first().map_err(|e| e.to_string())?;
                                    // avoid endless loop
                                    it.next();
                                }
                            } else {
                                it.next();
                            }
                        }
                        views.push(("iter zigzag".into(), view));
                        // seeks
                        let mut view = BTreeMap::new();
                        for f in 0..FAMILIES {
                            for i in 0..KEYS_PER_FAMILY {
                                let k = key(f, i);
                                it.seek(&k).map_err(|e| e.to_string())?;
                                if it.is_valid() {
                                    let (ck, v) = it.current().unwrap();
                                    if *ck == k {
                                        view.insert((f, i), id_of(v));
                                    }
                                }
                            }
                        }
                        views.push(("iter seeks".into(), view));
                    }
                    for (name, v) in &views {
                        check(v, name)?;
                    }
                    for w in views.windows(2) {
                        if w[0].1 != w[1].1 {
                            return Err(format!(
                                "views disagree ({} vs {}) mode {mode}: {:?} vs {:?}",
                                w[0].0, w[1].0, w[0].1, w[1].1
                            ));
                        }
                    }
                    if let Some(s) = snap {
                        db.release_snapshot(s);
                    }
                    Ok(())
                })();
                if let Err(e) = res {
                    let mut g = failure.lock();
                    if g.is_none() {
                        *g = Some(format!("reader {r} round {rounds}: {e}"));
                    }
                    return;
                }
            }
        }));
    }

    let start = Instant::now();
    while start.elapsed() < Duration::from_millis(millis) && failure.lock().is_none() {
        thread::sleep(Duration::from_millis(20));
    }
    stop.store(true, Ordering::Relaxed);
    for h in handles {
        h.join().map_err(|_| "thread panicked".to_string())?;
    }
    let ids = next_id.load(Ordering::Relaxed);
    let f = failure.lock().clone();
    eprintln!("seed {seed} mem {memtable} file {file_size} block {block}: {ids} batches, failure {f:?}");
    match f {
        Some(e) => Err(e),
        None => Ok(()),
    }
}

#[test]
fn stress() {
    let secs: u64 = std::env::var("AUDIT_MILLIS").ok().and_then(|s| s.parse().ok()).unwrap_or(1500);
    let seeds: u64 = std::env::var("AUDIT_SEEDS").ok().and_then(|s| s.parse().ok()).unwrap_or(8);
    let configs: [(usize, u64, usize); 4] = [(2048, 4096, 256), (512, 1024, 64), (16 * 1024, 8 * 1024, 1024), (1, 1, 1)];
    #[cfg(feature = "verif")]
    if let Ok(level) = std::env::var("AUDIT_CHAOS") {
        raindb::verif::set_handler(Some(Arc::new(Chaos {
            state: AtomicU64::new(12345),
            level: level.parse().unwrap(),
        })));
    }
    let base: u64 = std::env::var("AUDIT_BASE").ok().and_then(|s| s.parse().ok()).unwrap_or(0);
    let mut failures = vec![];
    for seed in base..base + seeds {
        let (m, f, b) = configs[(seed % 4) as usize];
        if let Err(e) = run(seed, m, f, b, secs) {
            failures.push(format!("seed {seed}: {e}"));
        }
    }
    assert!(failures.is_empty(), "{failures:#?}");
}
