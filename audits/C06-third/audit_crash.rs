// Crash / single-fault sweep for C06: after the N-th file mutation only a prefix of the bytes
// lands and (crash mode) every later mutation fails; then the database is reopened on the same
// files and every family must be entirely at one id.
// Run: cargo test --offline --release --test audit_crash -- --nocapture
use std::collections::BTreeMap;
use std::io::{self, Read, Seek, Write};
use std::path::{Path, PathBuf};
use std::sync::atomic::{AtomicBool, AtomicU64, Ordering};
use std::sync::Arc;

use raindb::fs::{FileLock, FileSystem, InMemoryFileSystem, RandomAccessFile, ReadonlyRandomAccessFile};
use raindb::{Batch, DbOptions, RainDBError, RainDbIterator, ReadOptions, WriteOptions, DB};

const K: usize = 5;
const STRIDE_DIV: u64 = 40;
const FAMILIES: usize = 3;

struct Ctl {
    count: AtomicU64,
    fail_at: u64,
    /// after the fault: true = everything fails (crash), false = only that one call fails
    sticky: bool,
    dead: AtomicBool,
    /// how much of the faulted buffer lands: 0 = nothing, 1 = half, 2 = all (error reported anyway)
    landing: u8,
}

impl Ctl {
    /// Returns Ok(n) = number of bytes of buf to write and then whether to report an error.
    fn mutate(&self, len: usize) -> (usize, bool) {
        if self.dead.load(Ordering::SeqCst) {
            return (0, true);
        }
        let n = self.count.fetch_add(1, Ordering::SeqCst);
        if n == self.fail_at {
            if self.sticky {
                self.dead.store(true, Ordering::SeqCst);
            }
            let landed = match self.landing {
                0 => 0,
                1 => len / 2,
                _ => len,
            };
            return (landed, true);
        }
        (len, false)
    }
    fn meta(&self) -> io::Result<()> {
        let (_, fail) = self.mutate(0);
        if fail {
            Err(io::Error::new(io::ErrorKind::Other, "injected"))
        } else {
            Ok(())
        }
    }
}

struct FaultFs {
    inner: Arc<InMemoryFileSystem>,
    ctl: Arc<Ctl>,
}

struct FaultFile {
    inner: Box<dyn RandomAccessFile>,
    ctl: Arc<Ctl>,
}

impl Read for FaultFile {
    fn read(&mut self, buf: &mut [u8]) -> io::Result<usize> {
        self.inner.read(buf)
    }
}
impl Seek for FaultFile {
    fn seek(&mut self, pos: io::SeekFrom) -> io::Result<u64> {
        self.inner.seek(pos)
    }
}
impl Write for FaultFile {
    fn write(&mut self, buf: &[u8]) -> io::Result<usize> {
        let (n, fail) = self.ctl.mutate(buf.len());
        if n > 0 {
            self.inner.write_all(&buf[..n])?;
        }
        if fail {
            return Err(io::Error::new(io::ErrorKind::Other, "injected"));
        }
        Ok(n)
    }
    fn flush(&mut self) -> io::Result<()> {
        self.inner.flush()
    }
}
impl ReadonlyRandomAccessFile for FaultFile {
    fn read_from(&self, buf: &mut [u8], offset: usize) -> io::Result<usize> {
        self.inner.read_from(buf, offset)
    }
    fn len(&self) -> io::Result<u64> {
        self.inner.len()
    }
}
impl RandomAccessFile for FaultFile {
    fn append(&mut self, buf: &[u8]) -> io::Result<usize> {
        let (n, fail) = self.ctl.mutate(buf.len());
        if n > 0 {
            self.inner.append(&buf[..n])?;
        }
        if fail {
            return Err(io::Error::new(io::ErrorKind::Other, "injected"));
        }
        Ok(n)
    }
}

impl FileSystem for FaultFs {
    fn get_name(&self) -> String {
        "FaultFs".to_string()
    }
    fn create_dir(&self, path: &Path) -> io::Result<()> {
        self.inner.create_dir(path)
    }
    fn create_dir_all(&self, path: &Path) -> io::Result<()> {
        self.inner.create_dir_all(path)
    }
    fn list_dir(&self, path: &Path) -> io::Result<Vec<PathBuf>> {
        self.inner.list_dir(path)
    }
    fn open_file(&self, path: &Path) -> io::Result<Box<dyn ReadonlyRandomAccessFile>> {
        self.inner.open_file(path)
    }
    fn rename(&self, from: &Path, to: &Path) -> io::Result<()> {
        self.ctl.meta()?;
        self.inner.rename(from, to)
    }
    fn create_file(&self, path: &Path, append: bool) -> io::Result<Box<dyn RandomAccessFile>> {
        self.ctl.meta()?;
        let inner = self.inner.create_file(path, append)?;
        Ok(Box::new(FaultFile { inner, ctl: Arc::clone(&self.ctl) }))
    }
    fn remove_file(&self, path: &Path) -> io::Result<()> {
        self.ctl.meta()?;
        self.inner.remove_file(path)
    }
    fn remove_dir(&self, path: &Path) -> io::Result<()> {
        self.inner.remove_dir(path)
    }
    fn remove_dir_all(&self, path: &Path) -> io::Result<()> {
        self.inner.remove_dir_all(path)
    }
    fn get_file_size(&self, path: &Path) -> io::Result<u64> {
        self.inner.get_file_size(path)
    }
    fn is_dir(&self, path: &Path) -> io::Result<bool> {
        self.inner.is_dir(path)
    }
    fn lock_file(&self, path: &Path) -> io::Result<FileLock> {
        self.inner.lock_file(path)
    }
}

fn key(f: usize, i: usize) -> Vec<u8> {
    format!("k{:02}-f{}", i, f).into_bytes()
}
fn val(id: u64, pad: usize) -> Vec<u8> {
    let mut v = format!("{:06}:", id).into_bytes();
    v.extend(std::iter::repeat(b'p').take(pad));
    v
}
fn id_of(v: &[u8]) -> u64 {
    std::str::from_utf8(&v[..6]).unwrap().parse().unwrap()
}

fn options(fs: Arc<dyn FileSystem>, path: &str, memtable: usize, reuse: bool) -> DbOptions {
    let mut o = DbOptions::with_memory_env();
    o.filesystem_provider = fs;
    o.db_path = path.to_string();
    o.create_if_missing = true;
    o.max_memtable_size = memtable;
    o.max_file_size = 4096;
    o.max_block_size = 256;
    o.reuse_log_files = reuse;
    o
}

/// The workload. Returns the ids acknowledged per family (last acked) and the id attempted last.
fn workload(db: &DB, pads: &[usize], acked: &mut [u64; FAMILIES], attempted: &mut [u64; FAMILIES], first_id: u64) -> Vec<Vec<u64>> {
    let mut cands: Vec<Vec<u64>> = vec![vec![0]; FAMILIES];
    let mut id = first_id;
    for round in 0..6 {
        for f in 0..FAMILIES {
            id += 1;
            let mut b = Batch::new();
            let pad = pads[(round + f) % pads.len()];
            if (round + f) % 5 == 4 {
                for i in 0..K {
                    b.add_delete(key(f, i));
                }
                attempted[f] = 0;
            } else {
                for i in 0..K {
                    b.add_put(key(f, i), val(id, pad));
                }
                attempted[f] = id;
            }
            match db.apply(WriteOptions { synchronous: true }, b) {
                Ok(()) => {
                    acked[f] = attempted[f];
                    cands[f] = vec![attempted[f]];
                }
                Err(_) => cands[f].push(attempted[f]),
            }
        }
    }
    cands
}

fn check(db: &DB, ctx: &str) -> Result<[u64; FAMILIES], String> {
    let mut out = [0u64; FAMILIES];
    let mut via_get: BTreeMap<Vec<u8>, u64> = BTreeMap::new();
    for f in 0..FAMILIES {
        let mut ids = vec![];
        for i in 0..K {
            match db.get(ReadOptions::default(), &key(f, i)) {
                Ok(v) => {
                    ids.push(id_of(&v));
                    via_get.insert(key(f, i), id_of(&v));
                }
                Err(RainDBError::KeyNotFound) => ids.push(0),
                Err(e) => return Err(format!("{ctx}: get error {e}")),
            }
        }
        if ids.iter().any(|x| *x != ids[0]) {
            return Err(format!("{ctx}: family {f} torn (gets): {ids:?}"));
        }
        out[f] = ids[0];
    }
    let mut it = db.new_iterator(ReadOptions::default()).map_err(|e| e.to_string())?;
    let mut via_iter: BTreeMap<Vec<u8>, u64> = BTreeMap::new();
    it.seek_to_first().map_err(|e| e.to_string())?;
    while it.is_valid() {
        let (k, v) = it.current().unwrap();
        via_iter.insert(k.clone(), id_of(v));
        it.next();
    }
    if let Some(e) = it.status() {
        return Err(format!("{ctx}: iterator status {e}"));
    }
    if via_iter != via_get {
        return Err(format!("{ctx}: iterator and gets disagree: {via_iter:?} vs {via_get:?}"));
    }
    Ok(out)
}

struct Outcome {
    violations: Vec<String>,
    reopen_failures: usize,
    lost_acked: usize,
    runs: usize,
}

fn sweep(memtable: usize, pads: &[usize], sticky: bool, landing: u8, reuse: bool, out: &mut Outcome) {
    // measure the number of mutations of a fault-free run
    let mut fail_at = 0u64;
    let mut total: Option<u64> = None;
    loop {
        if let Some(t) = total {
            if fail_at > t + 2 {
                break;
            }
        }
        let mem = Arc::new(InMemoryFileSystem::new());
        let path = "/crash";
        let ctl = Arc::new(Ctl {
            count: AtomicU64::new(0),
            fail_at: if total.is_none() { u64::MAX } else { fail_at },
            sticky,
            dead: AtomicBool::new(false),
            landing,
        });
        let fs: Arc<dyn FileSystem> = Arc::new(FaultFs { inner: Arc::clone(&mem), ctl: Arc::clone(&ctl) });
        let mut acked = [0u64; FAMILIES];
        let mut attempted = [0u64; FAMILIES];
        let mut cands: Vec<Vec<u64>> = vec![vec![0]; FAMILIES];
        let ctx = format!("memtable {memtable} pads {pads:?} sticky {sticky} landing {landing} reuse {reuse} fail_at {fail_at}");
        match DB::open(options(Arc::clone(&fs), path, memtable, reuse)) {
            Ok(db) => {
                cands = workload(&db, pads, &mut acked, &mut attempted, 0);
                if !sticky {
                    // same process keeps reading after the fault
                    if let Err(e) = check(&db, &format!("{ctx}: same process")) {
                        out.violations.push(e);
                    }
                }
                drop(db);
            }
            Err(_) => {}
        }
        if total.is_none() {
            total = Some(ctl.count.load(Ordering::SeqCst));
            eprintln!("config memtable {memtable} pads {pads:?} sticky {sticky} landing {landing} reuse {reuse}: {} mutations", total.unwrap());
            continue;
        }
        out.runs += 1;
        // reopen without faults on the same files, twice (the second open sees what the first recovery wrote)
        let clean_ctl = Arc::new(Ctl { count: AtomicU64::new(0), fail_at: u64::MAX, sticky: false, dead: AtomicBool::new(false), landing: 0 });
        let fs2: Arc<dyn FileSystem> = Arc::new(FaultFs { inner: Arc::clone(&mem), ctl: clean_ctl });
        for pass in 0..2 {
            match DB::open(options(Arc::clone(&fs2), path, memtable, reuse)) {
                Ok(db) => {
                    match check(&db, &format!("{ctx}: reopen {pass}")) {
                        Ok(ids) => {
                            for f in 0..FAMILIES {
                                if !cands[f].contains(&ids[f]) {
                                    out.lost_acked += 1;
                                    eprintln!("DURABILITY? {ctx} pass {pass} family {f}: found {} candidates {:?}", ids[f], cands[f]);
                                }
                            }
                            // write more on top and check again
                            let mut a = [0u64; FAMILIES];
                            let mut b = [0u64; FAMILIES];
                            cands = workload(&db, &[5], &mut a, &mut b, 1000 * (pass + 1));
                            if let Err(e) = check(&db, &format!("{ctx}: reopen {pass} after more writes")) {
                                out.violations.push(e);
                            }
                            acked = a;
                            attempted = b;
                        }
                        Err(e) => out.violations.push(e),
                    }
                    drop(db);
                }
                Err(_) => {
                    out.reopen_failures += 1;
                    break;
                }
            }
        }
        let stride = std::cmp::max(1, total.unwrap() / STRIDE_DIV);
        fail_at += stride;
    }
}

#[test]
fn crash_sweep() {
    let mut out = Outcome { violations: vec![], reopen_failures: 0, lost_acked: 0, runs: 0 };
    for &reuse in &[true, false] {
        for &(memtable, pads) in &[
            (1usize << 20, &[10usize, 40_000, 70_000][..]),
            (3000, &[10, 300, 40_000][..]),
            (1, &[10, 50][..]),
        ] {
            for &(sticky, landing) in &[(true, 1u8), (true, 0), (true, 2), (false, 1), (false, 0), (false, 2)] {
                sweep(memtable, pads, sticky, landing, reuse, &mut out);
            }
        }
    }
    eprintln!(
        "runs {}, reopen failures {}, family states that are neither last-acked nor last-attempted {}, violations {}",
        out.runs,
        out.reopen_failures,
        out.lost_acked,
        out.violations.len()
    );
    for v in out.violations.iter().take(10) {
        eprintln!("VIOLATION {v}");
    }
    assert!(out.violations.is_empty());
}
