mod common;
use common::*;
use raindb::{ReadOptions, WriteOptions, DB, RainDbIterator};

fn bigkey(i: u64, len: usize) -> Vec<u8> {
    let mut k = format!("k{:05}", i).into_bytes();
    k.extend(std::iter::repeat(b'a' + (i % 26) as u8).take(len));
    k
}

#[test]
fn long_keys_and_values() {
    for (mem, file, block, reuse) in [(4096usize, 4096u64, 64usize, true), (200_000, 100_000, 4096, false), (1024, 200, 1, true)] {
        let fs = SimFs::new();
        let opts = make_opts(&fs, mem, file, block, reuse);
        let mut verified = Verified::new();
        let mut db = DB::open(opts.clone()).unwrap();
        let mut rng = Rng(7);
        for round in 0..6 {
            for i in 0..40u64 {
                let k = bigkey(rng.below(30), 70_000 + (rng.below(3) as usize) * 40_000);
                let v: Vec<u8> = (0..(if i % 13 == 0 { 3_000_000 } else { 100 })).map(|_| b'a' + (rng.below(26) as u8)).collect();
                db.put(WriteOptions::default(), k.clone(), v).unwrap();
                if i % 7 == 0 {
                    db.delete(WriteOptions::default(), bigkey(rng.below(30), 70_000)).unwrap();
                }
            }
            quiesce(&db);
            let bad = check_shape(&db, &opts, true, &mut verified);
            assert!(bad.is_empty(), "round {} cfg {:?}: {:#?}", round, (mem, file, block), bad.iter().map(|s| &s[..s.len().min(300)]).collect::<Vec<_>>());
            if round % 2 == 1 {
                db.compact_range(None..None);
                quiesce(&db);
                let bad = check_shape(&db, &opts, true, &mut verified);
                assert!(bad.is_empty(), "round {} compact: {:#?}", round, bad.iter().map(|s| &s[..s.len().min(300)]).collect::<Vec<_>>());
            }
            let before = db.verif_files();
            drop(db);
            db = DB::open(opts.clone()).unwrap();
            quiesce(&db);
            verified.clear();
            let bad = check_shape(&db, &opts, true, &mut verified);
            assert!(bad.is_empty(), "round {} reopen: {:#?}", round, bad.iter().map(|s| &s[..s.len().min(300)]).collect::<Vec<_>>());
            let after = db.verif_files();
            println!("cfg {:?} round {} files before {} after {}", (mem, file, block), round, before.len(), after.len());
            let mut it = db.new_iterator(ReadOptions::default()).unwrap();
            it.seek_to_first().unwrap();
            let mut n = 0;
            while it.current().is_some() { n += 1; it.next(); }
            assert!(it.status().is_none());
            println!("  entries {}", n);
        }
    }
}
