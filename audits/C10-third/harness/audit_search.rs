// Differential / shape search. Run:
//   cargo test --offline --release --features verif --test audit_search -- --nocapture
mod common;
use common::*;

use std::collections::BTreeMap;
use std::sync::Arc;

use raindb::{Batch, DbOptions, RainDbIterator, ReadOptions, Snapshot, WriteOptions, DB};

fn key(rng: &mut Rng, space: u64, long: bool) -> Vec<u8> {
    let k = rng.below(space);
    let mut v = format!("k{:05}", k).into_bytes();
    if long && rng.below(50) == 0 {
        let n = rng.below(3000) as usize;
        v.extend(std::iter::repeat(b'x').take(n));
    }
    v
}

fn value(rng: &mut Rng, maxlen: u64) -> Vec<u8> {
    let n = rng.below(maxlen + 1) as usize;
    let c = b'a' + (rng.below(26) as u8);
    let mut v = vec![c; n];
    // make poorly compressible sometimes
    if rng.below(2) == 0 {
        for b in v.iter_mut() {
            *b = b'a' + (rng.below(26) as u8);
        }
    }
    v
}

struct Cfg {
    mem: usize,
    file: u64,
    block: usize,
    reuse: bool,
    space: u64,
    maxval: u64,
    steps: usize,
}

fn check_model(db: &DB, model: &BTreeMap<Vec<u8>, Vec<u8>>, ctx: &str) {
    let mut it = db.new_iterator(ReadOptions::default()).unwrap();
    it.seek_to_first().unwrap();
    let mut got: Vec<(Vec<u8>, Vec<u8>)> = vec![];
    while let Some((k, v)) = it.current() {
        got.push((k.clone(), v.clone()));
        it.next();
    }
    if let Some(e) = it.status() {
        panic!("{}: iterator error {}", ctx, e);
    }
    drop(it);
    let want: Vec<(Vec<u8>, Vec<u8>)> = model.iter().map(|(k, v)| (k.clone(), v.clone())).collect();
    if got != want {
        let gk: Vec<String> = got.iter().map(|(k, _)| String::from_utf8_lossy(&k[..k.len().min(8)]).to_string()).collect();
        let wk: Vec<String> = want.iter().map(|(k, _)| String::from_utf8_lossy(&k[..k.len().min(8)]).to_string()).collect();
        panic!("{}: scan differs from model: got {} entries want {}\n got {:?}\nwant {:?}", ctx, got.len(), want.len(), gk, wk);
    }
}

fn max_snaps() -> usize { std::env::var("SNAPS").ok().and_then(|s| s.parse().ok()).unwrap_or(4) }
fn envu(name: &str) -> Option<u64> { std::env::var(name).ok().and_then(|s| s.parse().ok()) }

fn run(seed: u64, cfg: &Cfg) -> Result<(usize, usize), String> {
    let fs = SimFs::new();
    let opts: DbOptions = make_opts(&fs, cfg.mem, cfg.file, cfg.block, cfg.reuse);
    let mut rng = Rng(seed);
    let mut model: BTreeMap<Vec<u8>, Vec<u8>> = BTreeMap::new();
    let mut snaps: Vec<(Snapshot, BTreeMap<Vec<u8>, Vec<u8>>)> = vec![];
    let mut db = Some(DB::open(opts.clone()).map_err(|e| format!("open: {}", e))?);
    let mut verified = Verified::new();
    let mut checks = 0usize;
    let mut maxlevel = 0usize;
    for step in 0..cfg.steps {
        let d = db.as_ref().unwrap();
        let r = rng.below(1000);
        let ctx = format!("seed {} step {} r {}", seed, step, r);
        if r < 600 {
            let k = key(&mut rng, cfg.space, true);
            let v = value(&mut rng, cfg.maxval);
            d.put(WriteOptions::default(), k.clone(), v.clone()).map_err(|e| format!("{}: put {}", ctx, e))?;
            model.insert(k, v);
        } else if r < 750 {
            let k = key(&mut rng, cfg.space, false);
            d.delete(WriteOptions::default(), k.clone()).map_err(|e| format!("{}: del {}", ctx, e))?;
            model.remove(&k);
        } else if r < 800 {
            let mut b = Batch::new();
            let n = rng.below(20);
            for _ in 0..n {
                let k = key(&mut rng, cfg.space, false);
                if rng.below(3) == 0 {
                    b.add_delete(k.clone());
                    model.remove(&k);
                } else {
                    let v = value(&mut rng, cfg.maxval);
                    b.add_put(k.clone(), v.clone());
                    model.insert(k, v);
                }
            }
            d.apply(WriteOptions::default(), b).map_err(|e| format!("{}: batch {}", ctx, e))?;
        } else if r < 830 {
            if snaps.len() < max_snaps() {
                snaps.push((d.get_snapshot(), model.clone()));
            }
        } else if r < 860 {
            if !snaps.is_empty() {
                let i = rng.below(snaps.len() as u64) as usize;
                let (s, m) = snaps.remove(i);
                // check a few keys at the snapshot
                for _ in 0..5 {
                    let k = key(&mut rng, cfg.space, false);
                    let got = d.get(ReadOptions { fill_cache: true, snapshot: Some(s.clone()) }, &k).ok();
                    if got.as_ref() != m.get(&k) {
                        return Err(format!("{}: snapshot get differs for {:?}", ctx, String::from_utf8_lossy(&k)));
                    }
                }
                d.release_snapshot(s);
            }
        } else if r < 890 {
            // compact_range
            let mode = rng.below(5);
            let a = key(&mut rng, cfg.space, false);
            let b = key(&mut rng, cfg.space, false);
            let (lo, hi) = if a <= b { (a, b) } else { (b, a) };
            match mode {
                0 => d.compact_range(None..None),
                1 => d.compact_range(Some(&lo[..])..None),
                2 => d.compact_range(None..Some(&hi[..])),
                3 => d.compact_range(Some(&lo[..])..Some(&hi[..])),
                _ => d.compact_range(Some(&hi[..])..Some(&lo[..])),
            }
        } else if r < 910 {
            // reopen
            for (s, _) in snaps.drain(..) {
                d.release_snapshot(s);
            }
            quiesce(d);
            drop(db.take());
            let mut o = opts.clone();
            if rng.below(3) == 0 {
                o.reuse_log_files = !o.reuse_log_files;
            }
            db = Some(DB::open(o).map_err(|e| format!("{}: reopen {}", ctx, e))?);
            verified.clear();
            let d = db.as_ref().unwrap();
            quiesce(d);
            let bad = check_shape(d, &opts, true, &mut verified);
            checks += 1;
            if !bad.is_empty() {
                return Err(format!("{} (after reopen): {:#?}", ctx, bad));
            }
            check_model(d, &model, &ctx);
            continue;
        } else if r < 980 {
            // get burst on one key: drives seek compactions
            let k = key(&mut rng, cfg.space, false);
            let n = if rng.below(4) == 0 { 130 } else { 3 };
            for _ in 0..n {
                let got = d.get(ReadOptions::default(), &k).ok();
                if got.as_ref() != model.get(&k) {
                    return Err(format!("{}: get differs for {:?}: got {:?} want {:?}", ctx, String::from_utf8_lossy(&k), got.map(|v| v.len()), model.get(&k).map(|v| v.len())));
                }
            }
        } else {
            check_model(d, &model, &ctx);
        }

        if step % 7 == 0 || r >= 860 {
            let d = db.as_ref().unwrap();
            quiesce(d);
            let bad = check_shape(d, &opts, true, &mut verified);
            checks += 1;
            for f in d.verif_files() {
                maxlevel = maxlevel.max(f.level);
            }
            if !bad.is_empty() {
                return Err(format!("{}: {:#?}", ctx, bad));
            }
        }
    }
    let d = db.as_ref().unwrap();
    for (s, _) in snaps.drain(..) {
        d.release_snapshot(s);
    }
    quiesce(d);
    check_model(d, &model, "final");
    Ok((checks, maxlevel))
}

#[test]
fn search() {
    let base: u64 = std::env::var("SEED").ok().and_then(|s| s.parse().ok()).unwrap_or(1);
    let n: u64 = std::env::var("N").ok().and_then(|s| s.parse().ok()).unwrap_or(20);
    let steps: usize = std::env::var("STEPS").ok().and_then(|s| s.parse().ok()).unwrap_or(1500);
    let mut total_checks = 0;
    let mut fails = 0;
    for seed in base..base + n {
        let mut r = Rng(seed * 7919);
        let mut cfg = Cfg {
            mem: r.pick(&[300usize, 1024, 4096, 16384, 65536]),
            file: r.pick(&[200u64, 1024, 4096, 32768, 2 * 1024 * 1024]),
            block: r.pick(&[1usize, 32, 256, 4096]),
            reuse: r.below(2) == 0,
            space: r.pick(&[8u64, 50, 400, 5000]),
            maxval: r.pick(&[0u64, 20, 300, 3000]),
            steps,
        };
        if let Some(v) = envu("MEM") { cfg.mem = v as usize; }
        if let Some(v) = envu("FILE") { cfg.file = v; }
        if let Some(v) = envu("BLOCK") { cfg.block = v as usize; }
        if let Some(v) = envu("SPACE") { cfg.space = v; }
        if let Some(v) = envu("MAXVAL") { cfg.maxval = v; }
        let res = std::panic::catch_unwind(|| run(seed, &cfg));
        match res {
            Ok(Ok((checks, maxlevel))) => {
                total_checks += checks;
                println!("seed {} ok: mem {} file {} block {} reuse {} space {} maxval {} checks {} maxlevel {}", seed, cfg.mem, cfg.file, cfg.block, cfg.reuse, cfg.space, cfg.maxval, checks, maxlevel);
            }
            Ok(Err(e)) => {
                fails += 1;
                println!("seed {} FAIL: mem {} file {} block {} reuse {} space {} maxval {}\n{}", seed, cfg.mem, cfg.file, cfg.block, cfg.reuse, cfg.space, cfg.maxval, e);
            }
            Err(_) => {
                fails += 1;
                println!("seed {} PANIC: mem {} file {} block {} reuse {} space {} maxval {}", seed, cfg.mem, cfg.file, cfg.block, cfg.reuse, cfg.space, cfg.maxval);
            }
        }
    }
    println!("total checks {} fails {}", total_checks, fails);
    assert_eq!(fails, 0);
}
