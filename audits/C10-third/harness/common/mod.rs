// Shared helpers for the C10 audit: an in-memory file system with fault/crash support and a
// structural checker for the reported LSM shape.
#![allow(dead_code)]

use std::collections::{BTreeMap, BTreeSet, HashMap, HashSet};
use std::io::{self, Read, Seek, SeekFrom, Write};
use std::path::{Path, PathBuf};
use std::sync::atomic::{AtomicU64, Ordering};
use std::sync::{Arc, Mutex};

use raindb::db::DatabaseDescriptor;
use raindb::fs::{FileLock, FileSystem, RandomAccessFile, ReadonlyRandomAccessFile};
use raindb::verif::{FileInfo, KeyInfo, UnlockableFile};
use raindb::{DbOptions, DB};

pub type Buf = Arc<Mutex<Vec<u8>>>;

#[derive(Default)]
pub struct FsState {
    pub files: BTreeMap<PathBuf, Buf>,
    pub dirs: BTreeSet<PathBuf>,
    pub locks: HashSet<PathBuf>,
}

/// What kind of operation a fault applies to.
#[derive(Clone, Copy, Debug, PartialEq, Eq, Hash)]
pub enum OpKind {
    Create,
    Write,
    Rename,
    Remove,
    Open,
    Read,
    List,
    Size,
}

pub type FaultFn = dyn Fn(OpKind, &Path, u64) -> bool + Send + Sync;

pub struct SimFs {
    pub state: Mutex<FsState>,
    /// Number of mutating operations so far.
    pub ops: AtomicU64,
    /// Returns true if the op must fail.
    pub fault: Mutex<Option<Arc<FaultFn>>>,
    /// If set: at this mutating-op count, a deep copy of the state is stored in `crash_image`.
    pub crash_at: AtomicU64,
    pub crash_image: Mutex<Option<FsState>>,
    pub log: Mutex<Vec<String>>,
    pub trace: std::sync::atomic::AtomicBool,
}

impl SimFs {
    pub fn new() -> Arc<SimFs> {
        Arc::new(SimFs {
            state: Mutex::new(FsState::default()),
            ops: AtomicU64::new(0),
            fault: Mutex::new(None),
            crash_at: AtomicU64::new(u64::MAX),
            crash_image: Mutex::new(None),
            log: Mutex::new(vec![]),
            trace: std::sync::atomic::AtomicBool::new(false),
        })
    }

    pub fn from_state(state: FsState) -> Arc<SimFs> {
        let fs = SimFs::new();
        *fs.state.lock().unwrap() = state;
        fs
    }

    pub fn deep_copy(state: &FsState) -> FsState {
        let mut files = BTreeMap::new();
        for (p, b) in state.files.iter() {
            files.insert(p.clone(), Arc::new(Mutex::new(b.lock().unwrap().clone())));
        }
        FsState {
            files,
            dirs: state.dirs.clone(),
            locks: HashSet::new(),
        }
    }

    pub fn snapshot(&self) -> FsState {
        SimFs::deep_copy(&self.state.lock().unwrap())
    }

    pub fn set_fault(&self, f: Option<Arc<FaultFn>>) {
        *self.fault.lock().unwrap() = f;
    }

    fn should_fail(&self, kind: OpKind, path: &Path) -> bool {
        let f = self.fault.lock().unwrap().clone();
        match f {
            Some(f) => f(kind, path, self.ops.load(Ordering::SeqCst)),
            None => false,
        }
    }

    /// Count a mutating op; take the crash image if due (BEFORE the op is applied).
    fn mutating(&self, what: &str, path: &Path) {
        let n = self.ops.fetch_add(1, Ordering::SeqCst);
        if self.trace.load(Ordering::Relaxed) {
            self.log
                .lock()
                .unwrap()
                .push(format!("{} {} {}", n, what, path.display()));
        }
        if n == self.crash_at.load(Ordering::SeqCst) {
            let img = self.snapshot();
            *self.crash_image.lock().unwrap() = Some(img);
        }
    }

    fn injected(kind: OpKind, path: &Path) -> io::Error {
        io::Error::new(
            io::ErrorKind::Other,
            format!("injected fault {:?} {}", kind, path.display()),
        )
    }
}

pub struct SimFile {
    fs: Arc<SimFs>,
    path: PathBuf,
    buf: Buf,
    pos: u64,
}

impl Read for SimFile {
    fn read(&mut self, out: &mut [u8]) -> io::Result<usize> {
        if self.fs.should_fail(OpKind::Read, &self.path) {
            return Err(SimFs::injected(OpKind::Read, &self.path));
        }
        let data = self.buf.lock().unwrap();
        let pos = self.pos as usize;
        if pos >= data.len() {
            return Ok(0);
        }
        let n = out.len().min(data.len() - pos);
        out[..n].copy_from_slice(&data[pos..pos + n]);
        self.pos += n as u64;
        Ok(n)
    }
}

impl Seek for SimFile {
    fn seek(&mut self, pos: SeekFrom) -> io::Result<u64> {
        let len = self.buf.lock().unwrap().len() as i64;
        let new = match pos {
            SeekFrom::Start(p) => p as i64,
            SeekFrom::End(d) => len + d,
            SeekFrom::Current(d) => self.pos as i64 + d,
        };
        if new < 0 {
            return Err(io::Error::new(io::ErrorKind::InvalidInput, "negative seek"));
        }
        self.pos = new as u64;
        Ok(self.pos)
    }
}

impl Write for SimFile {
    fn write(&mut self, data: &[u8]) -> io::Result<usize> {
        if self.fs.should_fail(OpKind::Write, &self.path) {
            return Err(SimFs::injected(OpKind::Write, &self.path));
        }
        self.fs.mutating("write", &self.path);
        self.buf.lock().unwrap().extend_from_slice(data);
        Ok(data.len())
    }

    fn flush(&mut self) -> io::Result<()> {
        Ok(())
    }
}

impl ReadonlyRandomAccessFile for SimFile {
    fn read_from(&self, out: &mut [u8], offset: usize) -> io::Result<usize> {
        if self.fs.should_fail(OpKind::Read, &self.path) {
            return Err(SimFs::injected(OpKind::Read, &self.path));
        }
        let data = self.buf.lock().unwrap();
        if offset >= data.len() {
            return Ok(0);
        }
        let n = out.len().min(data.len() - offset);
        out[..n].copy_from_slice(&data[offset..offset + n]);
        Ok(n)
    }

    fn len(&self) -> io::Result<u64> {
        Ok(self.buf.lock().unwrap().len() as u64)
    }
}

impl RandomAccessFile for SimFile {
    fn append(&mut self, data: &[u8]) -> io::Result<usize> {
        self.write(data)
    }
}

struct SimLock {
    fs: Arc<SimFs>,
    path: PathBuf,
}

impl UnlockableFile for SimLock {
    fn unlock(&self) -> io::Result<()> {
        self.fs.state.lock().unwrap().locks.remove(&self.path);
        Ok(())
    }
}

pub struct SimFsHandle(pub Arc<SimFs>);

impl FileSystem for SimFsHandle {
    fn get_name(&self) -> String {
        "SimFs".to_string()
    }

    fn create_dir(&self, path: &Path) -> io::Result<()> {
        let mut st = self.0.state.lock().unwrap();
        if st.dirs.contains(path) {
            return Err(io::Error::new(io::ErrorKind::AlreadyExists, "dir exists"));
        }
        st.dirs.insert(path.to_path_buf());
        Ok(())
    }

    fn create_dir_all(&self, path: &Path) -> io::Result<()> {
        let mut st = self.0.state.lock().unwrap();
        let mut p = Some(path);
        while let Some(q) = p {
            if q.as_os_str().is_empty() {
                break;
            }
            st.dirs.insert(q.to_path_buf());
            p = q.parent();
        }
        Ok(())
    }

    fn list_dir(&self, path: &Path) -> io::Result<Vec<PathBuf>> {
        if self.0.should_fail(OpKind::List, path) {
            return Err(SimFs::injected(OpKind::List, path));
        }
        let st = self.0.state.lock().unwrap();
        if !st.dirs.contains(path) {
            return Err(io::Error::new(io::ErrorKind::NotFound, "no such dir"));
        }
        let mut out = vec![];
        for p in st.files.keys() {
            if p.parent() == Some(path) {
                out.push(p.clone());
            }
        }
        for p in st.dirs.iter() {
            if p.parent() == Some(path) {
                out.push(p.clone());
            }
        }
        out.sort();
        Ok(out)
    }

    fn open_file(&self, path: &Path) -> io::Result<Box<dyn ReadonlyRandomAccessFile>> {
        if self.0.should_fail(OpKind::Open, path) {
            return Err(SimFs::injected(OpKind::Open, path));
        }
        let st = self.0.state.lock().unwrap();
        match st.files.get(path) {
            Some(buf) => Ok(Box::new(SimFile {
                fs: Arc::clone(&self.0),
                path: path.to_path_buf(),
                buf: Arc::clone(buf),
                pos: 0,
            })),
            None => Err(io::Error::new(io::ErrorKind::NotFound, "no such file")),
        }
    }

    fn rename(&self, from: &Path, to: &Path) -> io::Result<()> {
        if self.0.should_fail(OpKind::Rename, from) {
            return Err(SimFs::injected(OpKind::Rename, from));
        }
        self.0.mutating("rename", from);
        let mut st = self.0.state.lock().unwrap();
        match st.files.remove(from) {
            Some(buf) => {
                st.files.insert(to.to_path_buf(), buf);
                Ok(())
            }
            None => Err(io::Error::new(io::ErrorKind::NotFound, "no such file")),
        }
    }

    fn create_file(&self, path: &Path, append: bool) -> io::Result<Box<dyn RandomAccessFile>> {
        if self.0.should_fail(OpKind::Create, path) {
            return Err(SimFs::injected(OpKind::Create, path));
        }
        self.0.mutating("create", path);
        let mut st = self.0.state.lock().unwrap();
        if let Some(parent) = path.parent() {
            if !parent.as_os_str().is_empty() && !st.dirs.contains(parent) {
                return Err(io::Error::new(io::ErrorKind::NotFound, "no parent dir"));
            }
        }
        let buf = if append {
            st.files
                .entry(path.to_path_buf())
                .or_insert_with(|| Arc::new(Mutex::new(vec![])))
                .clone()
        } else {
            // Truncation makes a new inode-like buffer only if the file did not exist; an existing
            // file is truncated in place (POSIX O_TRUNC).
            let entry = st
                .files
                .entry(path.to_path_buf())
                .or_insert_with(|| Arc::new(Mutex::new(vec![])))
                .clone();
            entry.lock().unwrap().clear();
            entry
        };
        let pos = buf.lock().unwrap().len() as u64;
        Ok(Box::new(SimFile {
            fs: Arc::clone(&self.0),
            path: path.to_path_buf(),
            buf,
            pos: if append { pos } else { 0 },
        }))
    }

    fn remove_file(&self, path: &Path) -> io::Result<()> {
        if self.0.should_fail(OpKind::Remove, path) {
            return Err(SimFs::injected(OpKind::Remove, path));
        }
        self.0.mutating("remove", path);
        let mut st = self.0.state.lock().unwrap();
        match st.files.remove(path) {
            Some(_) => Ok(()),
            None => Err(io::Error::new(io::ErrorKind::NotFound, "no such file")),
        }
    }

    fn remove_dir(&self, path: &Path) -> io::Result<()> {
        let mut st = self.0.state.lock().unwrap();
        st.dirs.remove(path);
        Ok(())
    }

    fn remove_dir_all(&self, path: &Path) -> io::Result<()> {
        let mut st = self.0.state.lock().unwrap();
        let files: Vec<PathBuf> = st
            .files
            .keys()
            .filter(|p| p.starts_with(path))
            .cloned()
            .collect();
        for f in files {
            st.files.remove(&f);
        }
        let dirs: Vec<PathBuf> = st
            .dirs
            .iter()
            .filter(|p| p.starts_with(path))
            .cloned()
            .collect();
        for d in dirs {
            st.dirs.remove(&d);
        }
        Ok(())
    }

    fn get_file_size(&self, path: &Path) -> io::Result<u64> {
        if self.0.should_fail(OpKind::Size, path) {
            return Err(SimFs::injected(OpKind::Size, path));
        }
        let st = self.0.state.lock().unwrap();
        match st.files.get(path) {
            Some(buf) => Ok(buf.lock().unwrap().len() as u64),
            None => Err(io::Error::new(io::ErrorKind::NotFound, "no such file")),
        }
    }

    fn is_dir(&self, path: &Path) -> io::Result<bool> {
        let st = self.0.state.lock().unwrap();
        if st.dirs.contains(path) {
            Ok(true)
        } else if st.files.contains_key(path) {
            Ok(false)
        } else {
            Err(io::Error::new(io::ErrorKind::NotFound, "no such path"))
        }
    }

    fn lock_file(&self, path: &Path) -> io::Result<FileLock> {
        let mut st = self.0.state.lock().unwrap();
        if st.locks.contains(path) {
            return Err(io::Error::new(io::ErrorKind::WouldBlock, "already locked"));
        }
        st.files
            .entry(path.to_path_buf())
            .or_insert_with(|| Arc::new(Mutex::new(vec![])));
        st.locks.insert(path.to_path_buf());
        Ok(FileLock::new(Box::new(SimLock {
            fs: Arc::clone(&self.0),
            path: path.to_path_buf(),
        })))
    }
}

// ---------------------------------------------------------------------------------------------

pub struct Rng(pub u64);

impl Rng {
    pub fn next(&mut self) -> u64 {
        // splitmix64
        self.0 = self.0.wrapping_add(0x9E3779B97F4A7C15);
        let mut z = self.0;
        z = (z ^ (z >> 30)).wrapping_mul(0xBF58476D1CE4E5B9);
        z = (z ^ (z >> 27)).wrapping_mul(0x94D049BB133111EB);
        z ^ (z >> 31)
    }

    pub fn below(&mut self, n: u64) -> u64 {
        self.next() % n
    }

    pub fn pick<T: Copy>(&mut self, xs: &[T]) -> T {
        xs[self.below(xs.len() as u64) as usize]
    }
}

// ---------------------------------------------------------------------------------------------

/// Internal-key order: user key ascending, sequence number descending.
pub fn ikey_cmp(a: &KeyInfo, b: &KeyInfo) -> std::cmp::Ordering {
    a.user_key
        .cmp(&b.user_key)
        .then(b.sequence.cmp(&a.sequence))
}

pub fn fmt_key(k: &KeyInfo) -> String {
    format!(
        "{} @ {} : {:?}",
        String::from_utf8_lossy(&k.user_key).escape_debug(),
        k.sequence,
        k.operation
    )
}

/// Wait until no flush/compaction is pending or running.
pub fn quiesce(db: &DB) {
    let start = std::time::Instant::now();
    let mut stable = 0;
    loop {
        let p = db.verif_probe();
        if !p.has_immutable_memtable && !p.background_compaction_scheduled {
            stable += 1;
            if stable >= 2 {
                return;
            }
        } else {
            stable = 0;
            if p.bad_state.is_some() && !p.background_compaction_scheduled {
                return;
            }
        }
        if start.elapsed().as_secs() > 60 {
            panic!("quiesce timeout: {:?}", p);
        }
        std::thread::sleep(std::time::Duration::from_micros(200));
    }
}

pub type Verified = HashMap<u64, (u64, KeyInfo, KeyInfo)>;

/// Check the reported shape. Returns a list of violations (empty = well formed).
/// `deep`: open every file and compare its first/last entry with the recorded bounds.
pub fn check_shape(
    db: &DB,
    opts: &DbOptions,
    deep: bool,
    verified: &mut Verified,
) -> Vec<String> {
    let mut bad = vec![];
    let files: Vec<FileInfo> = db.verif_files();

    // no file number twice
    let mut seen: HashMap<u64, usize> = HashMap::new();
    for f in &files {
        if let Some(prev_level) = seen.insert(f.number, f.level) {
            bad.push(format!(
                "file number {} appears twice (levels {} and {})",
                f.number, prev_level, f.level
            ));
        }
    }

    // bounds ordered
    for f in &files {
        if ikey_cmp(&f.smallest, &f.largest) == std::cmp::Ordering::Greater {
            bad.push(format!(
                "file {} at level {}: smallest {} > largest {}",
                f.number,
                f.level,
                fmt_key(&f.smallest),
                fmt_key(&f.largest)
            ));
        }
    }

    // ordered and disjoint in levels >= 1 (the list is in reported order)
    for level in 1..7 {
        let lf: Vec<&FileInfo> = files.iter().filter(|f| f.level == level).collect();
        for w in lf.windows(2) {
            if ikey_cmp(&w[0].largest, &w[1].smallest) != std::cmp::Ordering::Less {
                bad.push(format!(
                    "level {}: file {} [{} .. {}] is not strictly before file {} [{} .. {}]",
                    level,
                    w[0].number,
                    fmt_key(&w[0].smallest),
                    fmt_key(&w[0].largest),
                    w[1].number,
                    fmt_key(&w[1].smallest),
                    fmt_key(&w[1].largest)
                ));
            }
        }
    }

    // descriptors agree with the structural view
    for level in 0..7 {
        let n: usize = db
            .get_descriptor(DatabaseDescriptor::NumFilesAtLevel(level))
            .unwrap()
            .parse()
            .unwrap();
        let m = files.iter().filter(|f| f.level == level).count();
        if n != m {
            bad.push(format!("NumFilesAtLevel({}) = {} but {} files listed", level, n, m));
        }
    }
    let text = db.get_descriptor(DatabaseDescriptor::SSTables).unwrap();
    let mut expect = String::new();
    for level in 0..7 {
        expect.push_str(&format!("--- Level {} ---\n", level));
        for f in files.iter().filter(|f| f.level == level) {
            expect.push_str(&format!(
                "{} (size: {})[{}..{}]\n",
                f.number,
                f.size,
                fmt_key(&f.smallest),
                fmt_key(&f.largest)
            ));
        }
    }
    if text != expect {
        // could be a racing change; callers only call when quiescent
        bad.push(format!(
            "SSTables descriptor differs from structural view:\n{}\nvs\n{}",
            text, expect
        ));
    }

    if deep {
        for f in &files {
            if let Some((size, s, l)) = verified.get(&f.number) {
                if *size == f.size && *s == f.smallest && *l == f.largest {
                    continue;
                }
            }
            match raindb::verif::table::open(opts, f.number) {
                Err(e) => bad.push(format!("file {} cannot be opened: {}", f.number, e)),
                Ok(reader) => {
                    let mut c = reader.cursor(false);
                    if let Err(e) = c.seek_to_first() {
                        bad.push(format!("file {} seek_to_first: {}", f.number, e));
                        continue;
                    }
                    let first = c.current().map(|(k, _)| k);
                    // walk the whole file: sorted strictly, count
                    let mut prev: Option<KeyInfo> = None;
                    let mut count = 0usize;
                    let mut last: Option<KeyInfo> = None;
                    while let Some((k, _)) = c.current() {
                        if let Some(p) = &prev {
                            if ikey_cmp(p, &k) != std::cmp::Ordering::Less {
                                bad.push(format!(
                                    "file {}: entries out of order {} then {}",
                                    f.number,
                                    fmt_key(p),
                                    fmt_key(&k)
                                ));
                            }
                        }
                        prev = Some(k.clone());
                        last = Some(k);
                        count += 1;
                        c.next();
                    }
                    if first.as_ref() != Some(&f.smallest) {
                        bad.push(format!(
                            "file {} level {}: recorded smallest {} but first entry is {:?}",
                            f.number,
                            f.level,
                            fmt_key(&f.smallest),
                            first.as_ref().map(fmt_key)
                        ));
                    }
                    if last.as_ref() != Some(&f.largest) {
                        bad.push(format!(
                            "file {} level {}: recorded largest {} but last entry is {:?} ({} entries)",
                            f.number,
                            f.level,
                            fmt_key(&f.largest),
                            last.as_ref().map(fmt_key),
                            count
                        ));
                    }
                    // the recorded size is the real size
                    let path = table_path(opts, f.number);
                    if let Ok(sz) = opts.filesystem_provider().get_file_size(&path) {
                        if sz != f.size {
                            bad.push(format!(
                                "file {}: recorded size {} but real size {}",
                                f.number, f.size, sz
                            ));
                        }
                    }
                    // seek_to_last agrees
                    let mut c2 = reader.cursor(false);
                    if c2.seek_to_last().is_ok() {
                        let l2 = c2.current().map(|(k, _)| k);
                        if l2 != last {
                            bad.push(format!(
                                "file {}: seek_to_last gives {:?}, walk gives {:?}",
                                f.number,
                                l2.as_ref().map(fmt_key),
                                last.as_ref().map(fmt_key)
                            ));
                        }
                    }
                }
            }
            verified.insert(f.number, (f.size, f.smallest.clone(), f.largest.clone()));
        }
    }

    bad
}

pub fn table_path(opts: &DbOptions, number: u64) -> PathBuf {
    Path::new(opts.db_path())
        .join("data")
        .join(format!("{}.rdb", number))
}

pub fn make_opts(fs: &Arc<SimFs>, mem: usize, file: u64, block: usize, reuse: bool) -> DbOptions {
    let mut o = DbOptions::default();
    o.db_path = "/db".to_string();
    o.filesystem_provider = Arc::new(SimFsHandle(Arc::clone(fs)));
    o.max_memtable_size = mem;
    o.max_file_size = file;
    o.max_block_size = block;
    o.create_if_missing = true;
    o.reuse_log_files = reuse;
    o
}
