mod common;
use common::*;
use raindb::{ReadOptions, WriteOptions, DB};

#[test]
fn reach_level_three() {
    let fs = SimFs::new();
    let opts = make_opts(&fs, 2 * 1024 * 1024, 1024 * 1024, 4096, true);
    let mut verified = Verified::new();
    let mut db = DB::open(opts.clone()).unwrap();
    let mut rng = Rng(99);
    let start = std::time::Instant::now();
    let mut maxlevel = 0;
    let total: u64 = std::env::var("TOTAL").ok().and_then(|s| s.parse().ok()).unwrap_or(60000);
    for i in 0..total {
        let k = format!("k{:08}", rng.below(90000)).into_bytes();
        let v: Vec<u8> = (0..3000).map(|_| (rng.next() & 0xff) as u8).collect();
        db.put(WriteOptions::default(), k, v).unwrap();
        if i % 5000 == 4999 {
            quiesce(&db);
            let bad = check_shape(&db, &opts, i % 20000 == 19999, &mut verified);
            assert!(bad.is_empty(), "i {}: {:#?}", i, bad);
            let files = db.verif_files();
            let mut per = [0usize; 7];
            for f in &files { per[f.level] += 1; maxlevel = maxlevel.max(f.level); }
            println!("i {} t {:?} files per level {:?}", i, start.elapsed(), per);
            if i % 15000 == 14999 {
                // hammer one key to provoke seek compactions at deeper levels
                for _ in 0..5 {
                    let k = format!("k{:08}", rng.below(90000)).into_bytes();
                    for _ in 0..150 { let _ = db.get(ReadOptions::default(), &k); }
                }
            }
        }
    }
    quiesce(&db);
    let bad = check_shape(&db, &opts, true, &mut verified);
    assert!(bad.is_empty(), "final: {:#?}", bad);
    db.compact_range(Some(&b"k00020000"[..])..Some(&b"k00040000"[..]));
    quiesce(&db);
    let bad = check_shape(&db, &opts, true, &mut verified);
    assert!(bad.is_empty(), "after compact_range: {:#?}", bad);
    drop(db);
    db = DB::open(opts.clone()).unwrap();
    quiesce(&db);
    verified.clear();
    let bad = check_shape(&db, &opts, true, &mut verified);
    assert!(bad.is_empty(), "reopen: {:#?}", bad);
    let files = db.verif_files();
    let mut per = [0usize; 7];
    for f in &files { per[f.level] += 1; maxlevel = maxlevel.max(f.level); }
    println!("after reopen files per level {:?} maxlevel {}", per, maxlevel);
}
