// Threaded stress with shape checks at quiescent moments. Run:
//   cargo test --offline --release --features verif --test audit_threads -- --nocapture
mod common;
use common::*;

use std::sync::atomic::{AtomicBool, AtomicU64, Ordering};
use std::sync::{Arc, RwLock};

use raindb::{Batch, DbOptions, RainDbIterator, ReadOptions, WriteOptions, DB};

struct Jitter {
    ctr: AtomicU64,
    level: u64,
}

impl raindb::verif::Handler for Jitter {
    fn pause(&self, point: &'static str, _args: &[u64]) {
        let n = self.ctr.fetch_add(0x9E3779B97F4A7C15, Ordering::Relaxed);
        let mut z = n ^ (point.len() as u64) << 7;
        z = (z ^ (z >> 30)).wrapping_mul(0xBF58476D1CE4E5B9);
        z ^= z >> 27;
        match z % self.level {
            0 => std::thread::sleep(std::time::Duration::from_micros(z % 400)),
            1 | 2 => std::thread::yield_now(),
            _ => {}
        }
    }
    fn note(&self, _point: &'static str, _args: &[u64]) {}
}

fn key(rng: &mut Rng, space: u64) -> Vec<u8> {
    let k = rng.below(space);
    match k {
        0 => vec![],
        1 => vec![0xff, 0xff],
        2 => vec![0x00],
        _ => format!("k{:05}", k).into_bytes(),
    }
}

fn value(rng: &mut Rng, maxlen: u64) -> Vec<u8> {
    let n = rng.below(maxlen + 1) as usize;
    (0..n).map(|_| b'a' + (rng.below(26) as u8)).collect()
}

fn run(seed: u64) -> Result<usize, String> {
    let mut r = Rng(seed * 15485863);
    let mem = r.pick(&[300usize, 1024, 4096, 16384]);
    let file = r.pick(&[200u64, 1024, 4096, 2 * 1024 * 1024]);
    let block = r.pick(&[1usize, 64, 4096]);
    let reuse = r.below(2) == 0;
    let space = r.pick(&[8u64, 50, 400]);
    let maxval = r.pick(&[0u64, 20, 300]);
    let fs = SimFs::new();
    let opts: DbOptions = make_opts(&fs, mem, file, block, reuse);
    let cfg = format!("seed {} mem {} file {} block {} reuse {} space {} maxval {}", seed, mem, file, block, reuse, space, maxval);

    let gate = Arc::new(RwLock::new(Some(Arc::new(DB::open(opts.clone()).map_err(|e| e.to_string())?))));
    let stop = Arc::new(AtomicBool::new(false));
    let mut handles = vec![];
    for t in 0..6u64 {
        let gate = Arc::clone(&gate);
        let stop = Arc::clone(&stop);
        handles.push(std::thread::spawn(move || {
            let mut rng = Rng(seed * 1000 + t);
            while !stop.load(Ordering::SeqCst) {
                let g = gate.read().unwrap();
                let db = match g.as_ref() {
                    Some(d) => Arc::clone(d),
                    None => continue,
                };
                match t {
                    0 | 1 | 2 => {
                        let x = rng.below(10);
                        if x < 6 {
                            let _ = db.put(WriteOptions { synchronous: rng.below(4) == 0 }, key(&mut rng, space), value(&mut rng, maxval));
                        } else if x < 8 {
                            let _ = db.delete(WriteOptions::default(), key(&mut rng, space));
                        } else {
                            let mut b = Batch::new();
                            for _ in 0..rng.below(8) {
                                b.add_put(key(&mut rng, space), value(&mut rng, maxval));
                            }
                            let _ = db.apply(WriteOptions::default(), b);
                        }
                    }
                    3 | 4 => {
                        let a = key(&mut rng, space);
                        let b = key(&mut rng, space);
                        let (lo, hi) = if a <= b { (a, b) } else { (b, a) };
                        match rng.below(4) {
                            0 => db.compact_range(None..None),
                            1 => db.compact_range(Some(&lo[..])..Some(&hi[..])),
                            2 => db.compact_range(None..Some(&hi[..])),
                            _ => db.compact_range(Some(&lo[..])..None),
                        }
                        std::thread::sleep(std::time::Duration::from_micros(rng.below(3000)));
                    }
                    _ => {
                        let k = key(&mut rng, space);
                        if rng.below(10) == 0 {
                            if let Ok(mut it) = db.new_iterator(ReadOptions::default()) {
                                let _ = it.seek_to_first();
                                let mut n = 0;
                                while it.current().is_some() && n < 300 {
                                    it.next();
                                    n += 1;
                                }
                            }
                        } else {
                            for _ in 0..40 {
                                let _ = db.get(ReadOptions::default(), &k);
                            }
                        }
                    }
                }
                drop(db);
                drop(g);
            }
        }));
    }

    let mut checks = 0;
    let mut verified = Verified::new();
    let mut rr = Rng(seed + 5);
    let mut result = Ok(());
    for round in 0..25 {
        std::thread::sleep(std::time::Duration::from_millis(20 + rr.below(40)));
        let mut g = gate.write().unwrap();
        {
            let db = g.as_ref().unwrap();
            quiesce(db);
            let bad = check_shape(db, &opts, true, &mut verified);
            checks += 1;
            if !bad.is_empty() {
                result = Err(format!("{} round {}: {:#?}", cfg, round, bad));
                break;
            }
            if let Some(b) = db.verif_probe().bad_state {
                result = Err(format!("{} round {}: bad state {}", cfg, round, b));
                break;
            }
        }
        if rr.below(3) == 0 {
            // close and reopen
            let db = g.take().unwrap();
            match Arc::try_unwrap(db) {
                Ok(d) => drop(d),
                Err(_) => panic!("db still shared"),
            }
            let db = DB::open(opts.clone()).map_err(|e| format!("{}: reopen {}", cfg, e))?;
            quiesce(&db);
            verified.clear();
            let bad = check_shape(&db, &opts, true, &mut verified);
            checks += 1;
            if !bad.is_empty() {
                result = Err(format!("{} round {} after reopen: {:#?}", cfg, round, bad));
                *g = Some(Arc::new(db));
                break;
            }
            *g = Some(Arc::new(db));
        }
    }
    stop.store(true, Ordering::SeqCst);
    for h in handles {
        h.join().map_err(|_| format!("{}: worker panicked", cfg))?;
    }
    result.map(|_| checks)
}

#[test]
fn threads() {
    let base: u64 = std::env::var("SEED").ok().and_then(|s| s.parse().ok()).unwrap_or(1);
    let n: u64 = std::env::var("N").ok().and_then(|s| s.parse().ok()).unwrap_or(10);
    let jit: u64 = std::env::var("JIT").ok().and_then(|s| s.parse().ok()).unwrap_or(8);
    if jit > 0 {
        raindb::verif::set_handler(Some(Arc::new(Jitter { ctr: AtomicU64::new(1), level: jit })));
    }
    let mut fails = 0;
    let mut total = 0;
    for seed in base..base + n {
        match run(seed) {
            Ok(c) => {
                total += c;
                println!("seed {} ok checks {}", seed, c);
            }
            Err(e) => {
                fails += 1;
                println!("seed {} FAIL {}", seed, e);
            }
        }
    }
    println!("total checks {} fails {}", total, fails);
    assert_eq!(fails, 0);
}
