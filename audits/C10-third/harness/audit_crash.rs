// Crash-point and single-fault sweeps. Run:
//   MODE=crash|fault cargo test --offline --release --features verif --test audit_crash -- --nocapture
mod common;
use common::*;

use std::collections::BTreeMap;
use std::sync::atomic::{AtomicBool, AtomicU64, Ordering};
use std::sync::{Arc, Mutex};

use raindb::{Batch, DbOptions, RainDbIterator, ReadOptions, WriteOptions, DB};

fn key(rng: &mut Rng, space: u64) -> Vec<u8> {
    format!("k{:05}", rng.below(space)).into_bytes()
}

fn value(rng: &mut Rng, maxlen: u64) -> Vec<u8> {
    let n = rng.below(maxlen + 1) as usize;
    (0..n).map(|_| b'a' + (rng.below(26) as u8)).collect()
}


fn class_of(path: &std::path::Path) -> u64 {
    let s = path.to_string_lossy();
    if s.ends_with(".manifest") { 0 } else if s.ends_with("CURRENT") || s.ends_with(".dbtemp") { 1 } else if s.ends_with(".log") { 2 } else if s.ends_with(".rdb") { 3 } else { 4 }
}

#[derive(Clone, Debug)]
struct Cfg {
    mem: usize,
    file: u64,
    block: usize,
    reuse: bool,
    space: u64,
    maxval: u64,
    steps: usize,
}

/// Runs the workload; errors from the database are ignored (fault mode). Returns the db.
fn workload(db: &mut Option<DB>, opts: &DbOptions, rng: &mut Rng, cfg: &Cfg, steps: usize, stop: &AtomicBool) {
    for _ in 0..steps {
        if stop.load(Ordering::SeqCst) {
            return;
        }
        let d = db.as_ref().unwrap();
        let r = rng.below(1000);
        if r < 650 {
            let _ = d.put(WriteOptions::default(), key(rng, cfg.space), value(rng, cfg.maxval));
        } else if r < 800 {
            let _ = d.delete(WriteOptions::default(), key(rng, cfg.space));
        } else if r < 850 {
            let mut b = Batch::new();
            for _ in 0..rng.below(10) {
                b.add_put(key(rng, cfg.space), value(rng, cfg.maxval));
            }
            let _ = d.apply(WriteOptions::default(), b);
        } else if r < 900 {
            let a = key(rng, cfg.space);
            let b = key(rng, cfg.space);
            let (lo, hi) = if a <= b { (a, b) } else { (b, a) };
            match rng.below(3) {
                0 => d.compact_range(None..None),
                1 => d.compact_range(Some(&lo[..])..Some(&hi[..])),
                _ => d.compact_range(Some(&lo[..])..None),
            }
        } else if r < 930 {
            quiesce(d);
            drop(db.take());
            let mut tries = 0;
            loop {
                match DB::open(opts.clone()) {
                    Ok(n) => { *db = Some(n); break; }
                    Err(e) => {
                        tries += 1;
                        if tries > 12 { panic!("reopen failed 12 times: {}", e); }
                    }
                }
            }
        } else {
            let k = key(rng, cfg.space);
            for _ in 0..120 {
                let _ = d.get(ReadOptions::default(), &k);
            }
        }
    }
}

fn scan(db: &DB) -> Result<usize, String> {
    let mut it = db.new_iterator(ReadOptions::default()).map_err(|e| e.to_string())?;
    it.seek_to_first().map_err(|e| e.to_string())?;
    let mut n = 0;
    let mut prev: Option<Vec<u8>> = None;
    while let Some((k, _)) = it.current() {
        if let Some(p) = &prev {
            if p >= k {
                return Err(format!("scan out of order {:?} {:?}", p, k));
            }
        }
        prev = Some(k.clone());
        n += 1;
        it.next();
    }
    if let Some(e) = it.status() {
        return Err(format!("scan status {}", e));
    }
    Ok(n)
}

/// Open the image, check, write some more, compact, check, reopen, check.
fn examine(image: FsState, cfg: &Cfg, reuse: bool, seed: u64, what: &str) -> Result<usize, String> {
    let fs = SimFs::from_state(image);
    let mut opts = make_opts(&fs, cfg.mem, cfg.file, cfg.block, reuse);
    opts.create_if_missing = true;
    let mut checks = 0;
    let mut verified = Verified::new();
    let db = DB::open(opts.clone()).map_err(|e| format!("{}: open failed: {}", what, e))?;
    quiesce(&db);
    let bad = check_shape(&db, &opts, true, &mut verified);
    checks += 1;
    if !bad.is_empty() {
        return Err(format!("{}: after open: {:#?}", what, bad));
    }
    scan(&db).map_err(|e| format!("{}: after open: {}", what, e))?;
    let mut rng = Rng(seed ^ 0xabcdef);
    let mut dbo = Some(db);
    let stop = AtomicBool::new(false);
    workload(&mut dbo, &opts, &mut rng, cfg, 150, &stop);
    let db = dbo.take().unwrap();
    quiesce(&db);
    let bad = check_shape(&db, &opts, true, &mut verified);
    checks += 1;
    if !bad.is_empty() {
        return Err(format!("{}: after more work: {:#?}", what, bad));
    }
    if let Some(b) = db.verif_probe().bad_state {
        return Err(format!("{}: bad state after more work: {}", what, b));
    }
    db.compact_range(None..None);
    quiesce(&db);
    let bad = check_shape(&db, &opts, true, &mut verified);
    checks += 1;
    if !bad.is_empty() {
        return Err(format!("{}: after compact: {:#?}", what, bad));
    }
    scan(&db).map_err(|e| format!("{}: after compact: {}", what, e))?;
    drop(db);
    let db = DB::open(opts.clone()).map_err(|e| format!("{}: second open failed: {}", what, e))?;
    quiesce(&db);
    verified.clear();
    let bad = check_shape(&db, &opts, true, &mut verified);
    checks += 1;
    if !bad.is_empty() {
        return Err(format!("{}: after second open: {:#?}", what, bad));
    }
    Ok(checks)
}

fn cfg_for(seed: u64, steps: usize) -> Cfg {
    let mut r = Rng(seed * 104729);
    Cfg {
        mem: r.pick(&[300usize, 1024, 4096, 16384]),
        file: r.pick(&[200u64, 1024, 4096, 2 * 1024 * 1024]),
        block: r.pick(&[1usize, 64, 4096]),
        reuse: r.below(2) == 0,
        space: r.pick(&[8u64, 50, 400]),
        maxval: r.pick(&[0u64, 20, 300]),
        steps,
    }
}

#[test]
fn sweep() {
    let mode = std::env::var("MODE").unwrap_or("crash".to_string());
    let base: u64 = std::env::var("SEED").ok().and_then(|s| s.parse().ok()).unwrap_or(1);
    let n: u64 = std::env::var("N").ok().and_then(|s| s.parse().ok()).unwrap_or(5);
    let steps: usize = std::env::var("STEPS").ok().and_then(|s| s.parse().ok()).unwrap_or(300);
    let points: u64 = std::env::var("POINTS").ok().and_then(|s| s.parse().ok()).unwrap_or(40);
    let mut fails = 0;
    let mut total = 0;
    let mut open_fail = 0;
    for seed in base..base + n {
        let cfg = cfg_for(seed, steps);
        // measure the number of mutating ops of the workload
        let fs0 = SimFs::new();
        let opts0 = make_opts(&fs0, cfg.mem, cfg.file, cfg.block, cfg.reuse);
        {
            let mut db = Some(DB::open(opts0.clone()).unwrap());
            let mut rng = Rng(seed);
            workload(&mut db, &opts0, &mut rng, &cfg, steps, &AtomicBool::new(false));
            quiesce(db.as_ref().unwrap());
        }
        let total_ops = fs0.ops.load(Ordering::SeqCst);
        let mut prng = Rng(seed * 31 + 7);
        let mut seed_fail = 0;
        for _ in 0..points {
            let at = prng.below(total_ops);
            let fs = SimFs::new();
            let opts = make_opts(&fs, cfg.mem, cfg.file, cfg.block, cfg.reuse);
            let what;
            let image;
            if mode == "crash" {
                fs.crash_at.store(at, Ordering::SeqCst);
                {
                    let mut db = Some(DB::open(opts.clone()).unwrap());
                    let mut rng = Rng(seed);
                    let stop = AtomicBool::new(false);
                    // run until the image is taken (checked between ops by polling)
                    let mut done = 0;
                    while done < steps {
                        workload(&mut db, &opts, &mut rng, &cfg, 10, &stop);
                        done += 10;
                        if fs.crash_image.lock().unwrap().is_some() {
                            break;
                        }
                    }
                    if let Some(d) = db.as_ref() { quiesce(d); }
                }
                image = match fs.crash_image.lock().unwrap().take() {
                    Some(i) => i,
                    None => continue,
                };
                what = format!("seed {} cfg {:?} crash at op {}", seed, cfg, at);
            } else {
                // one-shot fault at the `at`-th mutating op (or the next op of the chosen kind)
                let fired = Arc::new(AtomicBool::new(false));
                let kind_sel = prng.below(4);
                let fired2 = Arc::clone(&fired);
                let sticky = prng.below(4) == 0;
                let class_mode = mode == "fault2";
                let class_sel = prng.pick(&[0u64, 0, 0, 1, 1, 2, 3]);
                let class_j = prng.below(match class_sel { 0 => 120, 1 => 12, 2 => 400, _ => 400 });
                let hits = Arc::new(AtomicU64::new(0));
                let hits2 = Arc::clone(&hits);
                let info: Arc<Mutex<String>> = Arc::new(Mutex::new(String::new()));
                let info2 = Arc::clone(&info);
                fs.set_fault(Some(Arc::new(move |kind: OpKind, path: &std::path::Path, ops: u64| {
                    if class_mode {
                        // fire at the j-th op on the chosen class of file (any kind but List/Size)
                        if class_of(path) != class_sel || kind == OpKind::List || kind == OpKind::Size {
                            return false;
                        }
                        let h = hits2.fetch_add(1, Ordering::SeqCst);
                        if h == class_j || (sticky && h > class_j && h < class_j + 4) {
                            if !fired2.swap(true, Ordering::SeqCst) {
                                *info2.lock().unwrap() = format!("{:?} {} (class hit {})", kind, path.display(), h);
                            }
                            return true;
                        }
                        return false;
                    }
                    if ops < at {
                        return false;
                    }
                    let want = match kind_sel {
                        0 => kind == OpKind::Write,
                        1 => kind == OpKind::Create,
                        2 => kind == OpKind::Rename || kind == OpKind::Remove,
                        _ => kind == OpKind::Write || kind == OpKind::Create || kind == OpKind::Rename || kind == OpKind::Open || kind == OpKind::Read,
                    };
                    if !want {
                        return false;
                    }
                    if sticky {
                        // fail everything of that kind for the next 5 matching ops
                        if hits2.fetch_add(1, Ordering::SeqCst) < 5 {
                            if !fired2.swap(true, Ordering::SeqCst) {
                                *info2.lock().unwrap() = format!("{:?} {}", kind, path.display());
                            }
                            return true;
                        }
                        return false;
                    }
                    if !fired2.swap(true, Ordering::SeqCst) {
                        *info2.lock().unwrap() = format!("{:?} {}", kind, path.display());
                        return true;
                    }
                    false
                })));
                let mut live_bad: Vec<String> = vec![];
                {
                    let mut db = None;
                    for _ in 0..12 { if let Ok(d) = DB::open(opts.clone()) { db = Some(d); break; } }
                    let mut rng = Rng(seed);
                    let stop = AtomicBool::new(false);
                    let mut done = 0;
                    let mut after = 0;
                    while done < steps {
                        workload(&mut db, &opts, &mut rng, &cfg, 10, &stop);
                        done += 10;
                        if fired.load(Ordering::SeqCst) {
                            after += 1;
                            if after > 3 {
                                break;
                            }
                        }
                    }
                    if let Some(d) = db.as_ref() {
                        quiesce(d);
                        fs.set_fault(None);
                        let mut v = Verified::new();
                        live_bad = check_shape(d, &opts, true, &mut v);
                    }
                }
                fs.set_fault(None);
                what = format!("seed {} cfg {:?} fault at op {} ({}; sticky {})", seed, cfg, at, info.lock().unwrap(), sticky);
                if !live_bad.is_empty() {
                    fails += 1;
                    seed_fail += 1;
                    println!("FAIL live {}: {:#?}", what, live_bad);
                }
                image = fs.snapshot();
            }
            for reuse in [cfg.reuse, !cfg.reuse] {
                let img = SimFs::deep_copy(&image);
                let w = format!("{} reuse-on-reopen {}", what, reuse);
                let r = std::panic::catch_unwind(|| examine(img, &cfg, reuse, seed, &w));
                match r {
                    Ok(Ok(c)) => total += c,
                    Ok(Err(e)) => {
                        if e.contains("open failed") {
                            open_fail += 1;
                            println!("OPENFAIL {}", e);
                        } else {
                            fails += 1;
                            seed_fail += 1;
                            println!("FAIL {}", e);
                        }
                    }
                    Err(_) => {
                        fails += 1;
                        seed_fail += 1;
                        println!("PANIC {}", w);
                    }
                }
            }
        }
        println!("seed {} done: cfg {:?} ops {} fails {}", seed, cfg, total_ops, seed_fail);
    }
    println!("mode {} total checks {} fails {} open failures {}", mode, total, fails, open_fail);
    assert_eq!(fails, 0);
}

/// Faults during recovery: for crash images, fail the j-th file-system call made by DB::open
/// (every j), then open again without faults and examine.
#[test]
fn openfault() {
    if std::env::var("MODE").unwrap_or_default() != "openfault" {
        return;
    }
    let base: u64 = std::env::var("SEED").ok().and_then(|s| s.parse().ok()).unwrap_or(1);
    let n: u64 = std::env::var("N").ok().and_then(|s| s.parse().ok()).unwrap_or(5);
    let steps: usize = std::env::var("STEPS").ok().and_then(|s| s.parse().ok()).unwrap_or(300);
    let points: u64 = std::env::var("POINTS").ok().and_then(|s| s.parse().ok()).unwrap_or(6);
    let mut fails = 0;
    let mut total = 0;
    let mut opens = 0;
    for seed in base..base + n {
        let cfg = cfg_for(seed, steps);
        let mut prng = Rng(seed * 77 + 3);
        for _ in 0..points {
            let fs = SimFs::new();
            let opts = make_opts(&fs, cfg.mem, cfg.file, cfg.block, cfg.reuse);
            let at = 200 + prng.below(4000);
            fs.crash_at.store(at, Ordering::SeqCst);
            {
                let mut db = Some(DB::open(opts.clone()).unwrap());
                let mut rng = Rng(seed);
                let stop = AtomicBool::new(false);
                let mut done = 0;
                while done < steps {
                    workload(&mut db, &opts, &mut rng, &cfg, 10, &stop);
                    done += 10;
                    if fs.crash_image.lock().unwrap().is_some() {
                        break;
                    }
                }
                if let Some(d) = db.as_ref() { quiesce(d); }
            }
            let image = match fs.crash_image.lock().unwrap().take() {
                Some(i) => i,
                None => continue,
            };
            for reuse in [true, false] {
                // count calls of a clean open
                let count = {
                    let f = SimFs::from_state(SimFs::deep_copy(&image));
                    let c = Arc::new(AtomicU64::new(0));
                    let c2 = Arc::clone(&c);
                    f.set_fault(Some(Arc::new(move |_k: OpKind, _p: &std::path::Path, _o: u64| { c2.fetch_add(1, Ordering::SeqCst); false })));
                    let o = make_opts(&f, cfg.mem, cfg.file, cfg.block, reuse);
                    let d = DB::open(o).unwrap();
                    let n = c.load(Ordering::SeqCst);
                    quiesce(&d);
                    n
                };
                for j in 0..count {
                    let f = SimFs::from_state(SimFs::deep_copy(&image));
                    let c = Arc::new(AtomicU64::new(0));
                    let c2 = Arc::clone(&c);
                    let info: Arc<Mutex<String>> = Arc::new(Mutex::new(String::new()));
                    let info2 = Arc::clone(&info);
                    f.set_fault(Some(Arc::new(move |k: OpKind, p: &std::path::Path, _o: u64| {
                        if c2.fetch_add(1, Ordering::SeqCst) == j {
                            *info2.lock().unwrap() = format!("{:?} {}", k, p.display());
                            true
                        } else {
                            false
                        }
                    })));
                    let o = make_opts(&f, cfg.mem, cfg.file, cfg.block, reuse);
                    let first = DB::open(o.clone());
                    opens += 1;
                    let what = format!("seed {} cfg {:?} image at {} reuse {} open-fault #{} ({}) first open ok={}", seed, cfg, at, reuse, j, info.lock().unwrap(), first.is_ok());
                    if let Ok(d) = first {
                        // the open survived the fault: the live shape must be fine as well
                        quiesce(&d);
                        f.set_fault(None);
                        let mut v = Verified::new();
                        let bad = check_shape(&d, &o, true, &mut v);
                        if !bad.is_empty() {
                            fails += 1;
                            println!("FAIL live {}: {:#?}", what, bad);
                        }
                        drop(d);
                    }
                    f.set_fault(None);
                    let img = f.snapshot();
                    let r = std::panic::catch_unwind(|| examine(img, &cfg, reuse, seed, &what));
                    match r {
                        Ok(Ok(c)) => total += c,
                        Ok(Err(e)) => { fails += 1; println!("FAIL {}", e); }
                        Err(_) => { fails += 1; println!("PANIC {}", what); }
                    }
                }
            }
        }
        println!("seed {} done cfg {:?} opens so far {} fails {}", seed, cfg, opens, fails);
    }
    println!("openfault opens {} checks {} fails {}", opens, total, fails);
    assert_eq!(fails, 0);
}
