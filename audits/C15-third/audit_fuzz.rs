// C15 search harness: builds database images, corrupts them, and checks the reads.
// cargo test --offline --release --features verif --test audit_fuzz -- --nocapture
mod common;

use std::collections::{BTreeMap, HashMap, HashSet};
use std::panic::{catch_unwind, AssertUnwindSafe};
use std::path::PathBuf;
use std::sync::atomic::{AtomicUsize, Ordering};
use std::sync::{Arc, Mutex};

use common::{Image, SimFs};
use raindb::{Batch, DbOptions, RainDBError, RainDbIterator, ReadOptions, WriteOptions, DB};
use rand::rngs::StdRng;
use rand::{Rng, SeedableRng};

#[derive(Clone, Debug)]
struct Cfg {
    name: &'static str,
    memtable: usize,
    file_size: u64,
    block_size: usize,
    reuse_logs: bool,
    nkeys: usize,
    nops: usize,
    reopen_every: usize,
    big_value_every: usize,
    big_value_len: usize,
    val_len: usize,
    compact_at_end: bool,
    seed: u64,
}

fn options(fs: Arc<SimFs>, cfg: &Cfg) -> DbOptions {
    DbOptions {
        db_path: "/db".to_string(),
        max_memtable_size: cfg.memtable,
        max_file_size: cfg.file_size,
        max_block_size: cfg.block_size,
        filesystem_provider: fs,
        create_if_missing: true,
        reuse_log_files: cfg.reuse_logs,
        ..DbOptions::default()
    }
}

type Model = BTreeMap<Vec<u8>, Vec<u8>>;

struct Built {
    image: Image,
    model: Model,
    history: HashMap<Vec<u8>, HashSet<Option<Vec<u8>>>>,
    keys: Vec<Vec<u8>>,
}

fn key_of(i: usize) -> Vec<u8> {
    format!("k{:05}", i).into_bytes()
}

fn build(cfg: &Cfg) -> Built {
    let fs = SimFs::new();
    let mut rng = StdRng::seed_from_u64(cfg.seed);
    let mut model: Model = BTreeMap::new();
    let mut history: HashMap<Vec<u8>, HashSet<Option<Vec<u8>>>> = HashMap::new();
    let keys: Vec<Vec<u8>> = (0..cfg.nkeys).map(key_of).collect();
    for k in &keys {
        history.entry(k.clone()).or_default().insert(None);
    }
    let mut counter = 0u64;
    let mut db = Some(DB::open(options(Arc::clone(&fs), cfg)).unwrap());
    for op in 0..cfg.nops {
        if cfg.reopen_every > 0 && op > 0 && op % cfg.reopen_every == 0 {
            drop(db.take());
            db = Some(DB::open(options(Arc::clone(&fs), cfg)).unwrap());
        }
        let d = db.as_ref().unwrap();
        let r: u32 = rng.gen_range(0..100);
        let mut mk_val = |k: &Vec<u8>, rng: &mut StdRng, counter: &mut u64| -> Vec<u8> {
            *counter += 1;
            let mut v = format!("{}#{}#", String::from_utf8_lossy(k), counter).into_bytes();
            let len = if cfg.big_value_every > 0 && (*counter as usize) % cfg.big_value_every == 0 {
                cfg.big_value_len
            } else {
                rng.gen_range(0..=cfg.val_len)
            };
            let fill = (b'a' + (*counter % 26) as u8) as u8;
            v.extend(std::iter::repeat(fill).take(len));
            v
        };
        if r < 65 {
            let k = keys[rng.gen_range(0..keys.len())].clone();
            let v = mk_val(&k, &mut rng, &mut counter);
            d.put(WriteOptions::default(), k.clone(), v.clone()).unwrap();
            history.get_mut(&k).unwrap().insert(Some(v.clone()));
            model.insert(k, v);
        } else if r < 85 {
            let k = keys[rng.gen_range(0..keys.len())].clone();
            d.delete(WriteOptions::default(), k.clone()).unwrap();
            model.remove(&k);
        } else {
            let mut batch = Batch::new();
            let n = rng.gen_range(1..6);
            let mut staged: Vec<(Vec<u8>, Option<Vec<u8>>)> = vec![];
            for _ in 0..n {
                let k = keys[rng.gen_range(0..keys.len())].clone();
                if rng.gen_bool(0.75) {
                    let v = mk_val(&k, &mut rng, &mut counter);
                    batch.add_put(k.clone(), v.clone());
                    staged.push((k, Some(v)));
                } else {
                    batch.add_delete(k.clone());
                    staged.push((k, None));
                }
            }
            d.apply(WriteOptions::default(), batch).unwrap();
            for (k, v) in staged {
                match v {
                    Some(v) => {
                        history.get_mut(&k).unwrap().insert(Some(v.clone()));
                        model.insert(k, v);
                    }
                    None => {
                        model.remove(&k);
                    }
                }
            }
        }
    }
    if cfg.compact_at_end {
        db.as_ref().unwrap().compact_range(None..None);
        // a few more writes so that the WAL is not empty
        for i in 0..10 {
            let k = keys[(i * 7) % keys.len()].clone();
            counter += 1;
            let v = format!("{}#{}#tail", String::from_utf8_lossy(&k), counter).into_bytes();
            db.as_ref()
                .unwrap()
                .put(WriteOptions::default(), k.clone(), v.clone())
                .unwrap();
            history.get_mut(&k).unwrap().insert(Some(v.clone()));
            model.insert(k, v);
        }
    }
    // Let background work settle
    let d = db.as_ref().unwrap();
    for _ in 0..2000 {
        let p = d.verif_probe();
        if !p.has_immutable_memtable && !p.background_compaction_scheduled {
            break;
        }
        std::thread::sleep(std::time::Duration::from_millis(2));
    }
    drop(db);
    let image = fs.image();
    Built {
        image,
        model,
        history,
        keys,
    }
}

#[derive(Debug, Clone, PartialEq, Eq, Hash, PartialOrd, Ord)]
enum Kind {
    Current,
    Manifest,
    Wal,
    Table,
    Other,
}

fn kind_of(path: &PathBuf) -> Kind {
    let name = path.file_name().unwrap().to_string_lossy().to_string();
    if name == "CURRENT" {
        Kind::Current
    } else if name.starts_with("MANIFEST") {
        Kind::Manifest
    } else if name.ends_with(".log") {
        Kind::Wal
    } else if name.ends_with(".rdb") {
        Kind::Table
    } else {
        Kind::Other
    }
}

#[derive(Debug, Default, Clone)]
struct Obs {
    open_err: Option<String>,
    gets: Vec<(Vec<u8>, Result<Option<Vec<u8>>, String>)>,
    fwd: Vec<(Vec<u8>, Vec<u8>)>,
    fwd_status: Option<String>,
    bwd: Vec<(Vec<u8>, Vec<u8>)>,
    bwd_status: Option<String>,
}

fn observe(db: &DB, keys: &[Vec<u8>]) -> Obs {
    let mut obs = Obs::default();
    for k in keys {
        let r = match db.get(ReadOptions::default(), k) {
            Ok(v) => Ok(Some(v)),
            Err(RainDBError::KeyNotFound) => Ok(None),
            Err(e) => Err(e.to_string()),
        };
        obs.gets.push((k.clone(), r));
    }
    {
        let mut it = db.new_iterator(ReadOptions::default()).unwrap();
        match it.seek_to_first() {
            Err(e) => obs.fwd_status = Some(format!("seek: {e}")),
            Ok(()) => {
                while it.is_valid() {
                    let (k, v) = it.current().unwrap();
                    obs.fwd.push((k.clone(), v.clone()));
                    it.next();
                }
                obs.fwd_status = it.status().map(|e| e.to_string());
            }
        }
    }
    {
        let mut it = db.new_iterator(ReadOptions::default()).unwrap();
        match it.seek_to_last() {
            Err(e) => obs.bwd_status = Some(format!("seek: {e}")),
            Ok(()) => {
                while it.is_valid() {
                    let (k, v) = it.current().unwrap();
                    obs.bwd.push((k.clone(), v.clone()));
                    it.prev();
                }
                obs.bwd_status = it.status().map(|e| e.to_string());
            }
        }
        obs.bwd.reverse();
    }
    obs
}

/// What the reads may return for a key.
struct Oracle<'a> {
    exact: bool,
    model: &'a Model,
    base: &'a Model,
    history: &'a HashMap<Vec<u8>, HashSet<Option<Vec<u8>>>>,
    deleted_ever: &'a HashSet<Vec<u8>>,
    extra: &'a Model,
}

impl<'a> Oracle<'a> {
    fn allowed(&self, k: &Vec<u8>, v: &Option<Vec<u8>>) -> bool {
        if let Some(ev) = self.extra.get(k) {
            return v.as_ref() == Some(ev);
        }
        if self.exact {
            return self.model.get(k) == v.as_ref();
        }
        match v {
            Some(val) => {
                self.base.get(k) == Some(val)
                    || self
                        .history
                        .get(k)
                        .map_or(false, |h| h.contains(&Some(val.clone())))
            }
            None => self.base.get(k).is_none() || self.deleted_ever.contains(k),
        }
    }

    fn judge(&self, obs: &Obs, tag: &str, hard: &mut Vec<String>, soft: &mut Vec<String>) {
        for (k, r) in &obs.gets {
            if let Ok(v) = r {
                if !self.allowed(k, v) {
                    hard.push(format!(
                        "{tag} get({}) = {:?}",
                        String::from_utf8_lossy(k),
                        v.as_ref().map(|v| String::from_utf8_lossy(&v[..v.len().min(24)]).to_string())
                    ));
                }
            }
        }
        for (name, list, status) in [
            ("fwd", &obs.fwd, &obs.fwd_status),
            ("bwd", &obs.bwd, &obs.bwd_status),
        ] {
            let sink: &mut Vec<String> = if status.is_none() { &mut *hard } else { &mut *soft };
            let mut prev: Option<&Vec<u8>> = None;
            let mut seen: HashSet<&Vec<u8>> = HashSet::new();
            for (k, v) in list {
                if let Some(p) = prev {
                    if p >= k {
                        sink.push(format!("{tag} {name} scan out of order at {}", String::from_utf8_lossy(k)));
                    }
                }
                prev = Some(k);
                seen.insert(k);
                if !self.allowed(k, &Some(v.clone())) {
                    sink.push(format!(
                        "{tag} {name} scan yields {} = {}",
                        String::from_utf8_lossy(k),
                        String::from_utf8_lossy(&v[..v.len().min(24)])
                    ));
                }
            }
            if status.is_none() {
                // A complete scan: missing keys must be allowed to be absent
                let mut all_keys: Vec<&Vec<u8>> = self.model.keys().collect();
                all_keys.extend(self.base.keys());
                all_keys.extend(self.extra.keys());
                for k in all_keys {
                    if !seen.contains(k) && !self.allowed(k, &None) {
                        hard.push(format!("{tag} {name} complete scan misses {}", String::from_utf8_lossy(k)));
                    }
                }
                // and must agree with the gets
                for (k, r) in &obs.gets {
                    if let Ok(gv) = r {
                        let sv = list.iter().find(|(sk, _)| sk == k).map(|(_, v)| v.clone());
                        if &sv != gv {
                            hard.push(format!("{tag} {name} scan and get disagree on {}", String::from_utf8_lossy(k)));
                        }
                    }
                }
            }
        }
    }
}

struct Verdict {
    hard: Vec<String>,
    soft: Vec<String>,
    panicked: Option<String>,
    opened: bool,
}

fn trial(
    image: &Image,
    cfg: &Cfg,
    built: &Built,
    base: &Model,
    deleted_ever: &HashSet<Vec<u8>>,
    exact: bool,
) -> Verdict {
    let mut hard = vec![];
    let mut soft = vec![];
    let mut opened = false;
    let result = catch_unwind(AssertUnwindSafe(|| {
        let fs = SimFs::from_image(image);
        let empty = Model::new();
        let db = match DB::open(options(Arc::clone(&fs), cfg)) {
            Ok(db) => db,
            Err(_e) => return,
        };
        opened = true;
        let oracle = Oracle {
            exact,
            model: &built.model,
            base,
            history: &built.history,
            deleted_ever,
            extra: &empty,
        };
        let obs = observe(&db, &built.keys);
        oracle.judge(&obs, "p1", &mut hard, &mut soft);

        // Phase 2: more activity on top of the damaged image
        let mut extra = Model::new();
        let mut write_ok = true;
        for i in 0..20 {
            let k = format!("zz{:03}", i).into_bytes();
            let v = format!("zz{:03}#new", i).into_bytes();
            match db.put(WriteOptions::default(), k.clone(), v.clone()) {
                Ok(()) => {
                    extra.insert(k, v);
                }
                Err(_) => {
                    write_ok = false;
                    break;
                }
            }
        }
        let _ = write_ok;
        db.compact_range(None..None);
        let mut keys2 = built.keys.clone();
        keys2.extend(extra.keys().cloned());
        // What phase 1 saw is now an additional constraint: for exact mode nothing changes. For
        // WAL mode the state must not change between phase 1 and phase 2.
        let obs2 = observe(&db, &keys2);
        let oracle2 = Oracle {
            exact,
            model: &built.model,
            base,
            history: &built.history,
            deleted_ever,
            extra: &extra,
        };
        oracle2.judge(&obs2, "p2", &mut hard, &mut soft);
        for ((k, r1), (_, r2)) in obs.gets.iter().zip(obs2.gets.iter()) {
            if let (Ok(a), Ok(b)) = (r1, r2) {
                if a != b {
                    hard.push(format!("p1/p2 get({}) changed", String::from_utf8_lossy(k)));
                }
            }
        }
        drop(db);
        if let Ok(db) = DB::open(options(Arc::clone(&fs), cfg)) {
            let obs3 = observe(&db, &keys2);
            oracle2.judge(&obs3, "p3", &mut hard, &mut soft);
            for ((k, r1), (_, r3)) in obs.gets.iter().zip(obs3.gets.iter()) {
                if let (Ok(a), Ok(b)) = (r1, r3) {
                    if a != b {
                        hard.push(format!("p1/p3 get({}) changed", String::from_utf8_lossy(k)));
                    }
                }
            }
            for ((k, r2), (_, r3)) in obs2.gets.iter().zip(obs3.gets.iter()) {
                if let (Ok(a), Ok(b)) = (r2, r3) {
                    if a != b {
                        hard.push(format!("p2/p3 get({}) changed", String::from_utf8_lossy(k)));
                    }
                }
            }
        }
    }));
    let panicked = match result {
        Ok(()) => None,
        Err(p) => Some(
            p.downcast_ref::<String>()
                .cloned()
                .or_else(|| p.downcast_ref::<&str>().map(|s| s.to_string()))
                .unwrap_or_else(|| "panic".to_string()),
        ),
    };
    Verdict {
        hard,
        soft,
        panicked,
        opened,
    }
}

/// Offsets of the fragment headers of a log file (walks the undamaged file).
fn log_header_offsets(data: &[u8]) -> Vec<usize> {
    let mut out = vec![];
    let mut pos = 0usize;
    while pos + 7 <= data.len() {
        let in_block = pos % 32768;
        if 32768 - in_block < 7 {
            pos += 32768 - in_block;
            continue;
        }
        out.push(pos);
        let len = u16::from_le_bytes([data[pos + 4], data[pos + 5]]) as usize;
        pos += 7 + len;
    }
    out
}

fn sweep(cfg: &Cfg, stride_data: usize) {
    let built = build(cfg);
    // Sanity: the undamaged image reads back the model
    let mut deleted_ever: HashSet<Vec<u8>> = HashSet::new();
    for k in &built.keys {
        if built.history[k].len() > 1 {
            // conservative: any key that had a value may have been deleted or may still be
            // absent because the put that created it is in a skipped WAL record
            deleted_ever.insert(k.clone());
        }
    }
    // base = state without any WAL
    let mut no_wal: Image = built.image.clone();
    no_wal.retain(|p, _| kind_of(p) != Kind::Wal);
    let base: Model = {
        let fs = SimFs::from_image(&no_wal);
        let db = DB::open(options(fs, cfg)).unwrap();
        let obs = observe(&db, &built.keys);
        obs.fwd.into_iter().collect()
    };
    let clean = trial(&built.image, cfg, &built, &base, &deleted_ever, true);
    assert!(clean.opened, "clean image must open");
    assert!(
        clean.hard.is_empty() && clean.soft.is_empty() && clean.panicked.is_none(),
        "clean image misbehaves: {:?} {:?} {:?}",
        clean.hard,
        clean.soft,
        clean.panicked
    );

    let mut summary = String::new();
    for (p, d) in &built.image {
        summary.push_str(&format!("{}:{} ", p.display(), d.len()));
    }
    println!("[{}] image: {}", cfg.name, summary);
    println!("[{}] model keys {} base keys {}", cfg.name, built.model.len(), base.len());

    // Work list
    let mut work: Vec<(PathBuf, usize, u8, bool)> = vec![]; // path, offset, new byte, is_header
    let mut rng = StdRng::seed_from_u64(cfg.seed ^ 0xabcdef);
    for (path, data) in &built.image {
        let kind = kind_of(path);
        if kind == Kind::Other || data.is_empty() {
            continue;
        }
        if let Ok(only) = std::env::var("ONLY") {
            if format!("{:?}", kind) != only {
                continue;
            }
        }
        let mut header_positions: HashSet<usize> = HashSet::new();
        if kind == Kind::Wal || kind == Kind::Manifest {
            for h in log_header_offsets(data) {
                for i in 0..7 {
                    header_positions.insert(h + i);
                }
            }
        }
        if kind == Kind::Table {
            for i in data.len().saturating_sub(48)..data.len() {
                header_positions.insert(i);
            }
        }
        if kind == Kind::Current {
            for i in 0..data.len() {
                header_positions.insert(i);
            }
        }
        for off in 0..data.len() {
            let old = data[off];
            if header_positions.contains(&off) {
                let mut vals: Vec<u8> = vec![old ^ 1, old ^ 2, old ^ 4, old ^ 0x80, 0, 0xff, 1, 2, 3, 4, rng.gen()];
                if kind != Kind::Table {
                    // type and length bytes: everything nearby
                    for d in 1..=8u8 {
                        vals.push(old.wrapping_add(d));
                        vals.push(old.wrapping_sub(d));
                    }
                }
                vals.sort_unstable();
                vals.dedup();
                for v in vals {
                    if v != old {
                        work.push((path.clone(), off, v, true));
                    }
                }
            } else if off % stride_data == (cfg.seed as usize % stride_data) {
                for v in [old ^ (1 << rng.gen_range(0..8)), 0u8, rng.gen()] {
                    if v != old {
                        work.push((path.clone(), off, v, false));
                    }
                }
            }
        }
        // truncations of table files
        if kind == Kind::Table {
            // encoded as offset = new length, new byte ignored, marker via is_header=false and value 0
        }
    }
    let max_trials = env_usize("MAXTRIALS", usize::MAX);
    if work.len() > max_trials {
        use rand::seq::SliceRandom;
        work.shuffle(&mut rng);
        work.truncate(max_trials);
    }
    println!("[{}] trials: {}", cfg.name, work.len());

    let next = AtomicUsize::new(0);
    let results: Mutex<Vec<String>> = Mutex::new(vec![]);
    let counts: Mutex<BTreeMap<(Kind, &'static str), usize>> = Mutex::new(BTreeMap::new());
    std::thread::scope(|scope| {
        for _ in 0..14 {
            scope.spawn(|| loop {
                let i = next.fetch_add(1, Ordering::SeqCst);
                if i >= work.len() {
                    break;
                }
                let (path, off, val, is_header) = &work[i];
                let kind = kind_of(path);
                let mut image = built.image.clone();
                image.get_mut(path).unwrap()[*off] = *val;
                let exact = kind != Kind::Wal;
                let verdict = trial(&image, cfg, &built, &base, &deleted_ever, exact);
                let outcome = if verdict.panicked.is_some() {
                    "panic"
                } else if !verdict.hard.is_empty() {
                    "HARD"
                } else if !verdict.soft.is_empty() {
                    "soft"
                } else if verdict.opened {
                    "ok-open"
                } else {
                    "open-err"
                };
                *counts.lock().unwrap().entry((kind.clone(), outcome)).or_insert(0) += 1;
                if outcome == "panic" || outcome == "HARD" || outcome == "soft" {
                    let mut line = format!(
                        "[{}] {} {} off {} (of {}) {:#04x}->{:#04x} header={} :: ",
                        cfg.name,
                        outcome,
                        path.display(),
                        off,
                        built.image[path].len(),
                        built.image[path][*off],
                        val,
                        is_header
                    );
                    if let Some(p) = &verdict.panicked {
                        line.push_str(&format!("panic: {} ", &p[..p.len().min(200)]));
                    }
                    for h in verdict.hard.iter().take(4) {
                        line.push_str(&format!("| {h} "));
                    }
                    if verdict.hard.is_empty() {
                        for s in verdict.soft.iter().take(3) {
                            line.push_str(&format!("| (soft) {s} "));
                        }
                    }
                    results.lock().unwrap().push(line);
                }
            });
        }
    });
    let results = results.into_inner().unwrap();
    for (k, v) in counts.into_inner().unwrap() {
        println!("[{}] count {:?} {} = {}", cfg.name, k.0, k.1, v);
    }
    let mut shown = 0;
    let mut results = results;
    results.sort_by_key(|l| !l.contains("HARD"));
    for line in &results {
        if shown < 60 {
            println!("{line}");
        }
        shown += 1;
    }
    println!("[{}] anomalies: {}", cfg.name, results.len());
}

fn quiet_panics() {
    std::panic::set_hook(Box::new(|_| {}));
}

fn env_usize(name: &str, default: usize) -> usize {
    std::env::var(name).ok().and_then(|v| v.parse().ok()).unwrap_or(default)
}

#[test]
fn sweep_small() {
    quiet_panics();
    let seed = env_usize("SEED", 1) as u64;
    let cfg = Cfg {
        name: "small",
        memtable: 2048,
        file_size: 4096,
        block_size: 256,
        reuse_logs: true,
        nkeys: 40,
        nops: 300,
        reopen_every: 120,
        big_value_every: 0,
        big_value_len: 0,
        val_len: 40,
        compact_at_end: false,
        seed,
    };
    sweep(&cfg, env_usize("STRIDE", 5));
}

#[test]
fn sweep_bigwal() {
    quiet_panics();
    let seed = env_usize("SEED", 1) as u64;
    let cfg = Cfg {
        name: "bigwal",
        memtable: 1 << 20,
        file_size: 1 << 20,
        block_size: 4096,
        reuse_logs: env_usize("REUSE", 1) == 1,
        nkeys: 30,
        nops: 120,
        reopen_every: 0,
        big_value_every: 9,
        big_value_len: 40_000,
        val_len: 600,
        compact_at_end: false,
        seed,
    };
    sweep(&cfg, env_usize("STRIDE", 997));
}

#[test]
fn sweep_levels() {
    quiet_panics();
    let seed = env_usize("SEED", 1) as u64;
    let cfg = Cfg {
        name: "levels",
        memtable: 8192,
        file_size: 8192,
        block_size: 512,
        reuse_logs: env_usize("REUSE", 1) == 1,
        nkeys: 300,
        nops: 4000,
        reopen_every: 900,
        big_value_every: 0,
        big_value_len: 0,
        val_len: 100,
        compact_at_end: env_usize("COMPACT", 0) == 1,
        seed,
    };
    sweep(&cfg, env_usize("STRIDE", 61));
}

#[test]
fn sweep_trunc() {
    quiet_panics();
    let seed = env_usize("SEED", 1) as u64;
    let cfg = Cfg {
        name: "trunc",
        memtable: 4096,
        file_size: 4096,
        block_size: 256,
        reuse_logs: true,
        nkeys: 120,
        nops: 900,
        reopen_every: 400,
        big_value_every: 0,
        big_value_len: 0,
        val_len: 60,
        compact_at_end: false,
        seed,
    };
    let built = build(&cfg);
    let deleted_ever: HashSet<Vec<u8>> = HashSet::new();
    let base = built.model.clone();
    let mut summary = String::new();
    for (p, d) in &built.image {
        summary.push_str(&format!("{}:{} ", p.display(), d.len()));
    }
    println!("[trunc] image: {}", summary);
    let mut work: Vec<(PathBuf, usize)> = vec![];
    for (path, data) in &built.image {
        if kind_of(path) == Kind::Table {
            for len in 0..data.len() {
                work.push((path.clone(), len));
            }
        }
    }
    println!("[trunc] trials {}", work.len());
    let next = AtomicUsize::new(0);
    let counts: Mutex<BTreeMap<&'static str, usize>> = Mutex::new(BTreeMap::new());
    let lines: Mutex<Vec<String>> = Mutex::new(vec![]);
    std::thread::scope(|scope| {
        for _ in 0..14 {
            scope.spawn(|| loop {
                let i = next.fetch_add(1, Ordering::SeqCst);
                if i >= work.len() {
                    break;
                }
                let (path, len) = &work[i];
                let mut image = built.image.clone();
                image.get_mut(path).unwrap().truncate(*len);
                let verdict = trial(&image, &cfg, &built, &base, &deleted_ever, true);
                let outcome = if verdict.panicked.is_some() {
                    "panic"
                } else if !verdict.hard.is_empty() {
                    "HARD"
                } else if !verdict.soft.is_empty() {
                    "soft"
                } else if verdict.opened {
                    "ok-open"
                } else {
                    "open-err"
                };
                *counts.lock().unwrap().entry(outcome).or_insert(0) += 1;
                if outcome == "panic" || outcome == "HARD" {
                    lines.lock().unwrap().push(format!(
                        "[trunc] {} {} to {} :: {:?} {:?}",
                        outcome,
                        path.display(),
                        len,
                        verdict.panicked,
                        verdict.hard.iter().take(3).collect::<Vec<_>>()
                    ));
                }
            });
        }
    });
    println!("[trunc] counts {:?}", counts.into_inner().unwrap());
    for l in lines.into_inner().unwrap().iter().take(40) {
        println!("{l}");
    }
}

#[test]
fn sweep_many() {
    quiet_panics();
    let seed = env_usize("SEED", 1) as u64;
    let cfg = Cfg {
        name: "many",
        memtable: 16384,
        file_size: 16384,
        block_size: 512,
        reuse_logs: env_usize("REUSE", 1) == 1,
        nkeys: 3000,
        nops: 12000,
        reopen_every: 5000,
        big_value_every: 0,
        big_value_len: 0,
        val_len: 200,
        compact_at_end: false,
        seed,
    };
    sweep(&cfg, env_usize("STRIDE", 499));
}

#[test]
fn inspect_files() {
    let cfg = Cfg {
        name: "trunc",
        memtable: 4096,
        file_size: 4096,
        block_size: 256,
        reuse_logs: true,
        nkeys: 120,
        nops: 900,
        reopen_every: 400,
        big_value_every: 0,
        big_value_len: 0,
        val_len: 60,
        compact_at_end: false,
        seed: 1,
    };
    let built = build(&cfg);
    for (p, d) in &built.image {
        println!("{} {}", p.display(), d.len());
    }
    let fs = SimFs::from_image(&built.image);
    let db = DB::open(options(Arc::clone(&fs), &cfg)).unwrap();
    for f in db.verif_files() {
        println!(
            "L{} #{} size {} [{}@{} .. {}@{}]",
            f.level,
            f.number,
            f.size,
            String::from_utf8_lossy(&f.smallest.user_key),
            f.smallest.sequence,
            String::from_utf8_lossy(&f.largest.user_key),
            f.largest.sequence
        );
    }
    println!("probe {:?}", db.verif_probe());
    drop(db);
    for (p, d) in &fs.image() {
        println!("after: {} {}", p.display(), d.len());
    }
}
