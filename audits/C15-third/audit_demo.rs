// C15 audit demonstration: a scan over a database with one damaged table block keeps serving
// entries, and the entries it serves are stale (an overwritten value) or resurrected (a deleted
// key). `seek` even returns `Ok(())` for a position whose newest entry could not be read.
//
// Run (copy this file to tests/audit_demo.rs of the crate; it is self-contained):
//   cargo test --offline --release --features verif --test audit_demo -- --nocapture
//
// Deterministic. Fails on the unmodified tree.
#[allow(dead_code)]
mod common {
    // Shared helpers for the C15 audit: an in-memory file system with snapshot / restore / mutate.

    use std::collections::BTreeMap;
    use std::io::{self, Read, Seek, SeekFrom, Write};
    use std::path::{Path, PathBuf};
    use std::sync::{Arc, Mutex};

    use raindb::fs::{
        FileLock, FileSystem, RandomAccessFile, ReadonlyRandomAccessFile, UnlockableFile,
    };

    pub type Image = BTreeMap<PathBuf, Vec<u8>>;

    type Shared = Arc<Mutex<Vec<u8>>>;

    #[derive(Default)]
    pub struct SimFs {
        files: Mutex<BTreeMap<PathBuf, Shared>>,
    }

    impl SimFs {
        pub fn new() -> Arc<SimFs> {
            Arc::new(SimFs::default())
        }

        pub fn from_image(image: &Image) -> Arc<SimFs> {
            let fs = SimFs::default();
            {
                let mut files = fs.files.lock().unwrap();
                for (path, contents) in image {
                    files.insert(path.clone(), Arc::new(Mutex::new(contents.clone())));
                }
            }
            Arc::new(fs)
        }

        pub fn image(&self) -> Image {
            let files = self.files.lock().unwrap();
            files
                .iter()
                .map(|(p, c)| (p.clone(), c.lock().unwrap().clone()))
                .collect()
        }
    }

    struct SimFile {
        data: Shared,
        cursor: usize,
    }

    impl Read for SimFile {
        fn read(&mut self, buf: &mut [u8]) -> io::Result<usize> {
            let data = self.data.lock().unwrap();
            if self.cursor >= data.len() {
                return Ok(0);
            }
            let n = std::cmp::min(buf.len(), data.len() - self.cursor);
            buf[..n].copy_from_slice(&data[self.cursor..self.cursor + n]);
            self.cursor += n;
            Ok(n)
        }
    }

    impl Seek for SimFile {
        fn seek(&mut self, pos: SeekFrom) -> io::Result<u64> {
            let len = self.data.lock().unwrap().len() as i64;
            let new = match pos {
                SeekFrom::Start(o) => o as i64,
                SeekFrom::Current(o) => self.cursor as i64 + o,
                SeekFrom::End(o) => len + o,
            };
            if new < 0 {
                return Err(io::Error::new(io::ErrorKind::InvalidInput, "negative seek"));
            }
            self.cursor = new as usize;
            Ok(new as u64)
        }
    }

    impl Write for SimFile {
        fn write(&mut self, buf: &[u8]) -> io::Result<usize> {
            // All writers of the database append.
            let mut data = self.data.lock().unwrap();
            data.extend_from_slice(buf);
            self.cursor = data.len();
            Ok(buf.len())
        }

        fn flush(&mut self) -> io::Result<()> {
            Ok(())
        }
    }

    impl ReadonlyRandomAccessFile for SimFile {
        fn read_from(&self, buf: &mut [u8], offset: usize) -> io::Result<usize> {
            let data = self.data.lock().unwrap();
            if offset >= data.len() {
                return Ok(0);
            }
            let n = std::cmp::min(buf.len(), data.len() - offset);
            buf[..n].copy_from_slice(&data[offset..offset + n]);
            Ok(n)
        }

        fn len(&self) -> io::Result<u64> {
            Ok(self.data.lock().unwrap().len() as u64)
        }
    }

    impl RandomAccessFile for SimFile {
        fn append(&mut self, buf: &[u8]) -> io::Result<usize> {
            self.write(buf)
        }
    }

    struct NoLock;
    impl UnlockableFile for NoLock {
        fn unlock(&self) -> io::Result<()> {
            Ok(())
        }
    }

    impl FileSystem for SimFs {
        fn get_name(&self) -> String {
            "SimFs".to_string()
        }

        fn create_dir(&self, _path: &Path) -> io::Result<()> {
            Ok(())
        }

        fn create_dir_all(&self, _path: &Path) -> io::Result<()> {
            Ok(())
        }

        fn list_dir(&self, path: &Path) -> io::Result<Vec<PathBuf>> {
            let files = self.files.lock().unwrap();
            Ok(files
                .keys()
                .filter(|p| p.parent() == Some(path))
                .cloned()
                .collect())
        }

        fn open_file(&self, path: &Path) -> io::Result<Box<dyn ReadonlyRandomAccessFile>> {
            let files = self.files.lock().unwrap();
            match files.get(path) {
                Some(data) => Ok(Box::new(SimFile {
                    data: Arc::clone(data),
                    cursor: 0,
                })),
                None => Err(io::Error::new(io::ErrorKind::NotFound, "no such file")),
            }
        }

        fn rename(&self, from: &Path, to: &Path) -> io::Result<()> {
            let mut files = self.files.lock().unwrap();
            match files.remove(from) {
                Some(data) => {
                    files.insert(to.to_path_buf(), data);
                    Ok(())
                }
                None => Err(io::Error::new(io::ErrorKind::NotFound, "no such file")),
            }
        }

        fn create_file(&self, path: &Path, append: bool) -> io::Result<Box<dyn RandomAccessFile>> {
            let mut files = self.files.lock().unwrap();
            let data = files
                .entry(path.to_path_buf())
                .or_insert_with(|| Arc::new(Mutex::new(vec![])));
            if !append {
                // A fresh inode, so readers of the old file keep their contents
                *data = Arc::new(Mutex::new(vec![]));
            }
            let cursor = data.lock().unwrap().len();
            Ok(Box::new(SimFile {
                data: Arc::clone(data),
                cursor,
            }))
        }

        fn remove_file(&self, path: &Path) -> io::Result<()> {
            let mut files = self.files.lock().unwrap();
            match files.remove(path) {
                Some(_) => Ok(()),
                None => Err(io::Error::new(io::ErrorKind::NotFound, "no such file")),
            }
        }

        fn remove_dir(&self, _path: &Path) -> io::Result<()> {
            Ok(())
        }

        fn remove_dir_all(&self, path: &Path) -> io::Result<()> {
            let mut files = self.files.lock().unwrap();
            files.retain(|p, _| !p.starts_with(path));
            Ok(())
        }

        fn get_file_size(&self, path: &Path) -> io::Result<u64> {
            let files = self.files.lock().unwrap();
            match files.get(path) {
                Some(data) => Ok(data.lock().unwrap().len() as u64),
                None => Err(io::Error::new(io::ErrorKind::NotFound, "no such file")),
            }
        }

        fn is_dir(&self, path: &Path) -> io::Result<bool> {
            let files = self.files.lock().unwrap();
            Ok(!files.contains_key(path))
        }

        fn lock_file(&self, path: &Path) -> io::Result<FileLock> {
            let mut files = self.files.lock().unwrap();
            files
                .entry(path.to_path_buf())
                .or_insert_with(|| Arc::new(Mutex::new(vec![])));
            Ok(FileLock::new(Box::new(NoLock)))
        }
    }
}

use std::path::PathBuf;
use std::sync::Arc;

use common::SimFs;
use raindb::{DbOptions, RainDBError, RainDbIterator, ReadOptions, WriteOptions, DB};

fn options(fs: Arc<SimFs>) -> DbOptions {
    DbOptions {
        db_path: "/db".to_string(),
        filesystem_provider: fs,
        create_if_missing: true,
        // With this off every open replays the WAL into a level-0 table, which gives the test two
        // overlapping level-0 tables without needing any timing.
        reuse_log_files: false,
        ..DbOptions::default()
    }
}

fn table_files(fs: &SimFs) -> Vec<(PathBuf, usize)> {
    let mut tables: Vec<(PathBuf, usize)> = fs
        .image()
        .into_iter()
        .filter(|(p, _)| p.extension().map_or(false, |e| e == "rdb"))
        .map(|(p, d)| (p, d.len()))
        .collect();
    tables.sort_by_key(|(p, _)| {
        p.file_stem()
            .unwrap()
            .to_string_lossy()
            .parse::<u64>()
            .unwrap()
    });
    tables
}

#[test]
fn scan_serves_stale_and_deleted_entries_after_a_table_block_failed_its_checksum() {
    let fs = SimFs::new();

    // Generation 1: a=old-a, b=old-b, c=old-c. Ends up in the older level-0 table.
    {
        let db = DB::open(options(Arc::clone(&fs))).unwrap();
        db.put(WriteOptions::default(), b"a".to_vec(), b"old-a".to_vec())
            .unwrap();
        db.put(WriteOptions::default(), b"b".to_vec(), b"old-b".to_vec())
            .unwrap();
        db.put(WriteOptions::default(), b"c".to_vec(), b"old-c".to_vec())
            .unwrap();
    }
    // Generation 2: a overwritten, b deleted. Ends up in the newer level-0 table.
    {
        let db = DB::open(options(Arc::clone(&fs))).unwrap();
        db.put(WriteOptions::default(), b"a".to_vec(), b"new-a".to_vec())
            .unwrap();
        db.delete(WriteOptions::default(), b"b".to_vec()).unwrap();
    }
    // Replays generation 2 into its table.
    {
        let db = DB::open(options(Arc::clone(&fs))).unwrap();
        assert_eq!(db.get(ReadOptions::default(), b"a").unwrap(), b"new-a");
        assert!(matches!(
            db.get(ReadOptions::default(), b"b"),
            Err(RainDBError::KeyNotFound)
        ));
    }

    let tables = table_files(&fs);
    println!("tables: {:?}", tables);
    assert_eq!(tables.len(), 2, "expected two level-0 tables");
    let (newer_table, _) = tables.last().unwrap().clone();

    // Flip one bit in the first (and only) data block of the newer table.
    let mut image = fs.image();
    image.get_mut(&newer_table).unwrap()[3] ^= 0x01;
    let fs = SimFs::from_image(&image);

    let db = DB::open(options(Arc::clone(&fs))).unwrap();

    // Point reads detect the damage: this part passes.
    let get_a = db.get(ReadOptions::default(), b"a");
    println!("get(a) = {:?}", get_a.as_ref().map_err(|e| e.to_string()));
    assert!(
        matches!(&get_a, Err(e) if !matches!(e, RainDBError::KeyNotFound)),
        "get(a) must report the damaged block"
    );

    // Scans do not.
    let mut iter = db.new_iterator(ReadOptions::default()).unwrap();
    let seek_result = iter.seek(&b"a".to_vec());
    println!(
        "seek(a) -> {:?}, is_valid = {}, status = {:?}",
        seek_result.as_ref().map_err(|e| e.to_string()),
        iter.is_valid(),
        iter.status().map(|e| e.to_string())
    );

    let mut served: Vec<(String, String)> = vec![];
    if seek_result.is_ok() {
        while iter.is_valid() {
            let (k, v) = iter.current().unwrap();
            served.push((
                String::from_utf8_lossy(k).to_string(),
                String::from_utf8_lossy(v).to_string(),
            ));
            iter.next();
        }
    }
    println!("served by the scan: {:?}", served);
    println!("status at the end: {:?}", iter.status().map(|e| e.to_string()));

    // The state of the database is {a: new-a, c: old-c}. Everything the scan hands out must agree
    // with it; what cannot be read must end the scan (or fail the seek), not be papered over with
    // whatever older tables hold for the same keys.
    for (k, v) in &served {
        let expected = match k.as_str() {
            "a" => Some("new-a"),
            "c" => Some("old-c"),
            _ => None,
        };
        assert_eq!(
            expected,
            Some(v.as_str()),
            "the scan served {k} = {v}, which is not the state of the database (a -> new-a, b \
            deleted, c -> old-c); seek returned {:?} and the iterator stayed valid",
            seek_result.as_ref().map_err(|e| e.to_string())
        );
    }
}
