// Shared helpers for the C15 audit: an in-memory file system with snapshot / restore / mutate.
#![allow(dead_code)]

use std::collections::BTreeMap;
use std::io::{self, Read, Seek, SeekFrom, Write};
use std::path::{Path, PathBuf};
use std::sync::{Arc, Mutex};

use raindb::fs::{
    FileLock, FileSystem, RandomAccessFile, ReadonlyRandomAccessFile, UnlockableFile,
};

pub type Image = BTreeMap<PathBuf, Vec<u8>>;

type Shared = Arc<Mutex<Vec<u8>>>;

#[derive(Default)]
pub struct SimFs {
    files: Mutex<BTreeMap<PathBuf, Shared>>,
}

impl SimFs {
    pub fn new() -> Arc<SimFs> {
        Arc::new(SimFs::default())
    }

    pub fn from_image(image: &Image) -> Arc<SimFs> {
        let fs = SimFs::default();
        {
            let mut files = fs.files.lock().unwrap();
            for (path, contents) in image {
                files.insert(path.clone(), Arc::new(Mutex::new(contents.clone())));
            }
        }
        Arc::new(fs)
    }

    pub fn image(&self) -> Image {
        let files = self.files.lock().unwrap();
        files
            .iter()
            .map(|(p, c)| (p.clone(), c.lock().unwrap().clone()))
            .collect()
    }
}

struct SimFile {
    data: Shared,
    cursor: usize,
}

impl Read for SimFile {
    fn read(&mut self, buf: &mut [u8]) -> io::Result<usize> {
        let data = self.data.lock().unwrap();
        if self.cursor >= data.len() {
            return Ok(0);
        }
        let n = std::cmp::min(buf.len(), data.len() - self.cursor);
        buf[..n].copy_from_slice(&data[self.cursor..self.cursor + n]);
        self.cursor += n;
        Ok(n)
    }
}

impl Seek for SimFile {
    fn seek(&mut self, pos: SeekFrom) -> io::Result<u64> {
        let len = self.data.lock().unwrap().len() as i64;
        let new = match pos {
            SeekFrom::Start(o) => o as i64,
            SeekFrom::Current(o) => self.cursor as i64 + o,
            SeekFrom::End(o) => len + o,
        };
        if new < 0 {
            return Err(io::Error::new(io::ErrorKind::InvalidInput, "negative seek"));
        }
        self.cursor = new as usize;
        Ok(new as u64)
    }
}

impl Write for SimFile {
    fn write(&mut self, buf: &[u8]) -> io::Result<usize> {
        // All writers of the database append.
        let mut data = self.data.lock().unwrap();
        data.extend_from_slice(buf);
        self.cursor = data.len();
        Ok(buf.len())
    }

    fn flush(&mut self) -> io::Result<()> {
        Ok(())
    }
}

impl ReadonlyRandomAccessFile for SimFile {
    fn read_from(&self, buf: &mut [u8], offset: usize) -> io::Result<usize> {
        let data = self.data.lock().unwrap();
        if offset >= data.len() {
            return Ok(0);
        }
        let n = std::cmp::min(buf.len(), data.len() - offset);
        buf[..n].copy_from_slice(&data[offset..offset + n]);
        Ok(n)
    }

    fn len(&self) -> io::Result<u64> {
        Ok(self.data.lock().unwrap().len() as u64)
    }
}

impl RandomAccessFile for SimFile {
    fn append(&mut self, buf: &[u8]) -> io::Result<usize> {
        self.write(buf)
    }
}

struct NoLock;
impl UnlockableFile for NoLock {
    fn unlock(&self) -> io::Result<()> {
        Ok(())
    }
}

impl FileSystem for SimFs {
    fn get_name(&self) -> String {
        "SimFs".to_string()
    }

    fn create_dir(&self, _path: &Path) -> io::Result<()> {
        Ok(())
    }

    fn create_dir_all(&self, _path: &Path) -> io::Result<()> {
        Ok(())
    }

    fn list_dir(&self, path: &Path) -> io::Result<Vec<PathBuf>> {
        let files = self.files.lock().unwrap();
        Ok(files
            .keys()
            .filter(|p| p.parent() == Some(path))
            .cloned()
            .collect())
    }

    fn open_file(&self, path: &Path) -> io::Result<Box<dyn ReadonlyRandomAccessFile>> {
        let files = self.files.lock().unwrap();
        match files.get(path) {
            Some(data) => Ok(Box::new(SimFile {
                data: Arc::clone(data),
                cursor: 0,
            })),
            None => Err(io::Error::new(io::ErrorKind::NotFound, "no such file")),
        }
    }

    fn rename(&self, from: &Path, to: &Path) -> io::Result<()> {
        let mut files = self.files.lock().unwrap();
        match files.remove(from) {
            Some(data) => {
                files.insert(to.to_path_buf(), data);
                Ok(())
            }
            None => Err(io::Error::new(io::ErrorKind::NotFound, "no such file")),
        }
    }

    fn create_file(&self, path: &Path, append: bool) -> io::Result<Box<dyn RandomAccessFile>> {
        let mut files = self.files.lock().unwrap();
        let data = files
            .entry(path.to_path_buf())
            .or_insert_with(|| Arc::new(Mutex::new(vec![])));
        if !append {
            // A fresh inode, so readers of the old file keep their contents
            *data = Arc::new(Mutex::new(vec![]));
        }
        let cursor = data.lock().unwrap().len();
        Ok(Box::new(SimFile {
            data: Arc::clone(data),
            cursor,
        }))
    }

    fn remove_file(&self, path: &Path) -> io::Result<()> {
        let mut files = self.files.lock().unwrap();
        match files.remove(path) {
            Some(_) => Ok(()),
            None => Err(io::Error::new(io::ErrorKind::NotFound, "no such file")),
        }
    }

    fn remove_dir(&self, _path: &Path) -> io::Result<()> {
        Ok(())
    }

    fn remove_dir_all(&self, path: &Path) -> io::Result<()> {
        let mut files = self.files.lock().unwrap();
        files.retain(|p, _| !p.starts_with(path));
        Ok(())
    }

    fn get_file_size(&self, path: &Path) -> io::Result<u64> {
        let files = self.files.lock().unwrap();
        match files.get(path) {
            Some(data) => Ok(data.lock().unwrap().len() as u64),
            None => Err(io::Error::new(io::ErrorKind::NotFound, "no such file")),
        }
    }

    fn is_dir(&self, path: &Path) -> io::Result<bool> {
        let files = self.files.lock().unwrap();
        Ok(!files.contains_key(path))
    }

    fn lock_file(&self, path: &Path) -> io::Result<FileLock> {
        let mut files = self.files.lock().unwrap();
        files
            .entry(path.to_path_buf())
            .or_insert_with(|| Arc::new(Mutex::new(vec![])));
        Ok(FileLock::new(Box::new(NoLock)))
    }
}
