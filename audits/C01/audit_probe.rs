//! Probe: smallest max_memtable_size for which a single put terminates (informational).
use std::sync::mpsc;
use std::sync::Arc;
use std::time::Duration;

use raindb::fs::InMemoryFileSystem;
use raindb::{DbOptions, WriteOptions, DB};

fn put_terminates(mem: usize) -> bool {
    let (tx, rx) = mpsc::channel();
    std::thread::spawn(move || {
        let opts = DbOptions {
            db_path: "/db".to_string(),
            max_memtable_size: mem,
            filesystem_provider: Arc::new(InMemoryFileSystem::new()),
            create_if_missing: true,
            ..DbOptions::default()
        };
        let db = DB::open(opts).unwrap();
        db.put(WriteOptions::default(), b"k".to_vec(), b"v".to_vec()).unwrap();
        tx.send(()).ok();
        std::mem::forget(db);
    });
    rx.recv_timeout(Duration::from_secs(3)).is_ok()
}

#[test]
#[ignore]
fn probe_threshold() {
    for mem in [0usize, 64, 100, 128, 150, 160, 170, 180, 190, 200, 220, 256, 300] {
        eprintln!("max_memtable_size={mem}: put terminates = {}", put_terminates(mem));
    }
}
