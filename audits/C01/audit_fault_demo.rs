//! Audit of property C01 — finding OUTSIDE the fault-free scope of the statement.
//!
//! History: a single client does puts (memtable rotations by fill), then closes and reopens. The
//! environment misbehaves exactly once: one `write` to the manifest stores only the first half of
//! its bytes and reports an error (what a full disk does). The schedule is forced with the verif
//! hooks so that the failing manifest write is the one of a memtable flush that runs *inside* a
//! table compaction (`CompactionWorker::compact_tables` -> `compact_memtable(.., false)`).
//!
//! Observed on the unmodified code: the flush records the sticky background error, but the table
//! compaction carries on and installs its own results with a second append to the same manifest,
//! right behind the torn record. From then on `DB::open` fails for good with "The checksums of the
//! data did not match" although every table file and WAL is intact, i.e. no committed write can be
//! read any more.
//!
//! Needs `--features verif`.
#![cfg(feature = "verif")]

use std::collections::BTreeMap;
use std::io::{self, Read, Seek, SeekFrom, Write};
use std::path::{Path, PathBuf};
use std::sync::atomic::{AtomicBool, AtomicU64, Ordering};
use std::sync::{Arc, Condvar, Mutex};
use std::time::{Duration, Instant};

use raindb::fs::{
    FileLock, FileSystem, InMemoryFileSystem, RandomAccessFile, ReadonlyRandomAccessFile,
};
use raindb::{DbOptions, RainDBError, ReadOptions, WriteOptions, DB};

// ---------------------------------------------------------------------------------------------
// File system: InMemoryFileSystem plus a one-shot torn write on manifest files
// ---------------------------------------------------------------------------------------------

#[derive(Default)]
struct FaultControl {
    /// When set, the next write to a manifest file stores half of its bytes and fails.
    armed: AtomicBool,
    /// Number of faults injected.
    fired: AtomicU64,
    /// Number of successful manifest writes after the fault.
    manifest_writes_after_fault: AtomicU64,
}

struct FaultFs {
    inner: InMemoryFileSystem,
    control: Arc<FaultControl>,
}

struct FaultFile {
    inner: Box<dyn RandomAccessFile>,
    is_manifest: bool,
    control: Arc<FaultControl>,
}

impl FaultFile {
    /// Returns the number of bytes to write and whether to fail afterwards.
    fn plan(&self, len: usize) -> (usize, bool) {
        if self.is_manifest && std::env::var("DEMO_TRACE").is_ok() {
            eprintln!("[{:?}] manifest write of {len} bytes, armed={}", std::thread::current().name(), self.control.armed.load(Ordering::SeqCst));
        }
        if self.is_manifest && len > 1 && self.control.armed.swap(false, Ordering::SeqCst) {
            self.control.fired.fetch_add(1, Ordering::SeqCst);
            return (len / 2, true);
        }
        if self.is_manifest && self.control.fired.load(Ordering::SeqCst) > 0 {
            self.control
                .manifest_writes_after_fault
                .fetch_add(1, Ordering::SeqCst);
        }
        (len, false)
    }
}

impl Read for FaultFile {
    fn read(&mut self, buf: &mut [u8]) -> io::Result<usize> {
        self.inner.read(buf)
    }
}

impl Seek for FaultFile {
    fn seek(&mut self, pos: SeekFrom) -> io::Result<u64> {
        self.inner.seek(pos)
    }
}

impl Write for FaultFile {
    fn write(&mut self, buf: &[u8]) -> io::Result<usize> {
        let (len, fail) = self.plan(buf.len());
        if fail {
            self.inner.write_all(&buf[..len])?;
            return Err(io::Error::new(io::ErrorKind::Other, "injected: no space left on device"));
        }
        self.inner.write(buf)
    }

    fn flush(&mut self) -> io::Result<()> {
        self.inner.flush()
    }
}

impl ReadonlyRandomAccessFile for FaultFile {
    fn read_from(&self, buf: &mut [u8], offset: usize) -> io::Result<usize> {
        self.inner.read_from(buf, offset)
    }

    fn len(&self) -> io::Result<u64> {
        self.inner.len()
    }
}

impl RandomAccessFile for FaultFile {
    fn append(&mut self, buf: &[u8]) -> io::Result<usize> {
        let (len, fail) = self.plan(buf.len());
        if fail {
            self.inner.append(&buf[..len])?;
            return Err(io::Error::new(io::ErrorKind::Other, "injected: no space left on device"));
        }
        self.inner.append(buf)
    }
}

impl FileSystem for FaultFs {
    fn get_name(&self) -> String {
        "FaultFs".to_string()
    }
    fn create_dir(&self, path: &Path) -> io::Result<()> {
        self.inner.create_dir(path)
    }
    fn create_dir_all(&self, path: &Path) -> io::Result<()> {
        self.inner.create_dir_all(path)
    }
    fn list_dir(&self, path: &Path) -> io::Result<Vec<PathBuf>> {
        self.inner.list_dir(path)
    }
    fn open_file(&self, path: &Path) -> io::Result<Box<dyn ReadonlyRandomAccessFile>> {
        self.inner.open_file(path)
    }
    fn rename(&self, from: &Path, to: &Path) -> io::Result<()> {
        self.inner.rename(from, to)
    }
    fn create_file(&self, path: &Path, append: bool) -> io::Result<Box<dyn RandomAccessFile>> {
        let inner = self.inner.create_file(path, append)?;
        let is_manifest = path
            .file_name()
            .map(|name| name.to_string_lossy().starts_with("MANIFEST"))
            .unwrap_or(false);
        Ok(Box::new(FaultFile {
            inner,
            is_manifest,
            control: Arc::clone(&self.control),
        }))
    }
    fn remove_file(&self, path: &Path) -> io::Result<()> {
        self.inner.remove_file(path)
    }
    fn remove_dir(&self, path: &Path) -> io::Result<()> {
        self.inner.remove_dir(path)
    }
    fn remove_dir_all(&self, path: &Path) -> io::Result<()> {
        self.inner.remove_dir_all(path)
    }
    fn get_file_size(&self, path: &Path) -> io::Result<u64> {
        self.inner.get_file_size(path)
    }
    fn is_dir(&self, path: &Path) -> io::Result<bool> {
        self.inner.is_dir(path)
    }
    fn lock_file(&self, path: &Path) -> io::Result<FileLock> {
        self.inner.lock_file(path)
    }
}

// ---------------------------------------------------------------------------------------------
// Schedule control
// ---------------------------------------------------------------------------------------------

#[derive(Default)]
struct Sched {
    /// Park the background thread at its next `compact.step` (one shot).
    park_next_compaction_step: AtomicBool,
    parked: AtomicBool,
    release: AtomicBool,
    idle: AtomicU64,
    /// `imm.drop` notes (successful flushes) and `bg.error` notes
    flushes: AtomicU64,
    bg_errors: AtomicU64,
    installs: AtomicU64,
    lock: Mutex<()>,
    cv: Condvar,
}

impl Sched {
    fn wait(&self, what: &str, condition: impl Fn() -> bool) {
        let deadline = Instant::now() + Duration::from_secs(60);
        let mut guard = self.lock.lock().unwrap();
        while !condition() {
            let now = Instant::now();
            assert!(now < deadline, "harness: timed out waiting for {what}");
            guard = self
                .cv
                .wait_timeout(guard, (deadline - now).min(Duration::from_millis(50)))
                .unwrap()
                .0;
        }
    }

    fn signal(&self) {
        let _guard = self.lock.lock().unwrap();
        self.cv.notify_all();
    }
}

impl raindb::verif::Handler for Sched {
    fn pause(&self, point: &'static str, _args: &[u64]) {
        match point {
            "compact.step" => {
                if self.park_next_compaction_step.swap(false, Ordering::SeqCst) {
                    self.parked.store(true, Ordering::SeqCst);
                    self.signal();
                    self.wait("the release of the parked compaction", || {
                        self.release.load(Ordering::SeqCst)
                    });
                }
            }
            "worker.idle" => {
                self.idle.fetch_add(1, Ordering::SeqCst);
                self.signal();
            }
            _ => {}
        }
    }

    fn note(&self, point: &'static str, _args: &[u64]) {
        if std::env::var("DEMO_TRACE").is_ok() {
            eprintln!("[{:?}] note {point} {_args:?}", std::thread::current().name());
        }
        match point {
            "imm.drop" => {
                self.flushes.fetch_add(1, Ordering::SeqCst);
            }
            "bg.error" => {
                self.bg_errors.fetch_add(1, Ordering::SeqCst);
            }
            "version.install" => {
                self.installs.fetch_add(1, Ordering::SeqCst);
            }
            _ => {}
        }
    }
}

// ---------------------------------------------------------------------------------------------
// The history
// ---------------------------------------------------------------------------------------------

type Model = BTreeMap<Vec<u8>, Vec<u8>>;

fn options(fs: &Arc<FaultFs>, create: bool) -> DbOptions {
    DbOptions {
        db_path: "/db".to_string(),
        max_memtable_size: 4 * 1024,
        max_file_size: 2 * 1024,
        max_block_size: 256,
        filesystem_provider: Arc::clone(fs) as Arc<dyn FileSystem>,
        create_if_missing: create,
        // A fresh manifest per open keeps the example small; the defect does not depend on it
        reuse_log_files: false,
        ..DbOptions::default()
    }
}

fn put(db: &DB, model: &mut Model, key: Vec<u8>, value: Vec<u8>) {
    db.put(WriteOptions::default(), key.clone(), value.clone())
        .expect("put before the fault");
    model.insert(key, value);
}

/// Put fillers (on both sides of "m-key") until the memtable was rotated.
fn fill_until_rotation(db: &DB, model: &mut Model, round: u64) {
    let wal_before = db.verif_probe().curr_wal_number;
    for i in 0..10_000u64 {
        let key = if i % 2 == 0 {
            format!("a-filler-{round:03}-{i:04}")
        } else {
            format!("z-filler-{round:03}-{i:04}")
        };
        put(db, model, key.into_bytes(), vec![b'f'; 100]);
        let probe = db.verif_probe();
        if probe.has_immutable_memtable || probe.curr_wal_number != wal_before {
            return;
        }
    }
    panic!("harness: the memtable never rotated");
}

fn level0_files(db: &DB) -> usize {
    db.verif_files().iter().filter(|f| f.level == 0).count()
}

fn check_all(db: &DB, model: &Model, ctx: &str) {
    for (key, expected) in model {
        match db.get(ReadOptions::default(), key) {
            Ok(value) => assert!(
                value == *expected,
                "{ctx}: get({:?}) returned {:?} but the latest committed write is {:?}",
                String::from_utf8_lossy(key),
                String::from_utf8_lossy(&value),
                String::from_utf8_lossy(expected)
            ),
            Err(error) => panic!(
                "{ctx}: get({:?}) returned Err({error:?}) but the latest committed write is {:?}",
                String::from_utf8_lossy(key),
                String::from_utf8_lossy(expected)
            ),
        }
    }
    match db.get(ReadOptions::default(), b"never-written") {
        Err(RainDBError::KeyNotFound) => {}
        other => panic!("{ctx}: get(never-written) returned {other:?}, KeyNotFound is required"),
    }
}

#[test]
fn torn_manifest_write_of_a_flush_inside_a_table_compaction() {
    let sched = Arc::new(Sched::default());
    raindb::verif::set_handler(Some(sched.clone()));

    let control = Arc::new(FaultControl::default());
    let fs = Arc::new(FaultFs {
        inner: InMemoryFileSystem::new(),
        control: Arc::clone(&control),
    });
    let mut model = Model::new();
    let db = DB::open(options(&fs, true)).expect("create");

    // 1. Flush memtables until three files sit at level 0 (the first flushes go to levels 2 and 1).
    let mut round = 0u64;
    while level0_files(&db) < 3 {
        assert!(round < 12, "harness: could not build three level-0 files");
        let idle_before = sched.idle.load(Ordering::SeqCst);
        put(&db, &mut model, b"m-key".to_vec(), format!("value-{round}").into_bytes());
        fill_until_rotation(&db, &mut model, round);
        sched.wait("the flush", || sched.idle.load(Ordering::SeqCst) > idle_before);
        round += 1;
    }

    // 2. The fourth level-0 file triggers a table compaction (level 0 -> 1). Park it at its first
    //    step.
    sched.park_next_compaction_step.store(true, Ordering::SeqCst);
    put(&db, &mut model, b"m-key".to_vec(), format!("value-{round}").into_bytes());
    fill_until_rotation(&db, &mut model, round);
    round += 1;
    sched.wait("the table compaction to start", || sched.parked.load(Ordering::SeqCst));

    // 3. While the compaction is parked the client fills the next memtable: an immutable memtable is
    //    now pending and the compaction will flush it at its next step.
    put(&db, &mut model, b"m-key".to_vec(), format!("value-{round}").into_bytes());
    fill_until_rotation(&db, &mut model, round);
    assert!(
        db.verif_probe().has_immutable_memtable,
        "harness: no immutable memtable is pending"
    );

    // 4. One torn manifest write, then let the compaction run to its end.
    let installs_before = sched.installs.load(Ordering::SeqCst);
    let idle_before = sched.idle.load(Ordering::SeqCst);
    control.armed.store(true, Ordering::SeqCst);
    sched.release.store(true, Ordering::SeqCst);
    sched.signal();
    sched.wait("the compaction to finish", || sched.idle.load(Ordering::SeqCst) > idle_before);

    assert!(control.fired.load(Ordering::SeqCst) == 1, "harness: the fault was not injected");
    let probe = db.verif_probe();
    assert!(
        probe.bad_state.is_some(),
        "harness: the torn manifest write was expected to leave the sticky background error: {probe:?}"
    );
    eprintln!(
        "after the fault: sticky error = {:?}; versions installed after the fault = {}; manifest \
        writes after the fault = {}",
        probe.bad_state,
        sched.installs.load(Ordering::SeqCst) - installs_before,
        control.manifest_writes_after_fault.load(Ordering::SeqCst)
    );

    // 5. Reads in the session that saw the error are still right
    check_all(&db, &model, "same session, after the failed flush");

    // 6. Clean close and reopen. No further fault is injected.
    drop(db);
    let mut errors = vec![];
    let mut reopened = None;
    for _ in 0..3 {
        match DB::open(options(&fs, false)) {
            Ok(db) => {
                reopened = Some(db);
                break;
            }
            Err(error) => errors.push(format!("{error:?}")),
        }
    }
    raindb::verif::set_handler(None);
    let db = reopened.unwrap_or_else(|| {
        panic!(
            "after ONE torn manifest write (during a flush inside a table compaction) and a clean \
            close, DB::open fails permanently, so none of the {} committed keys can be read any \
            more; the property requires every get to return the latest committed write. Errors of \
            the three attempts: {errors:?}",
            model.len()
        )
    });
    check_all(&db, &model, "after reopen");
}
