//! Audit of property C01: "Reads return the latest committed write, wherever the data lives".
//!
//! Deterministic, directed single-client histories (public API only, in-memory file system).
//! Every check compares `DB::get` with a model (`BTreeMap`) of the latest committed write and
//! fails, with a message saying what was observed and what the property requires, iff they differ.
//!
//! The randomized differential tests live in `audit_fuzz.rs` / `audit_volume.rs`, the forced
//! client/background schedules in `audit_sched.rs` (needs `--features verif`).

use std::collections::BTreeMap;
use std::sync::Arc;

use raindb::fs::{FileSystem, InMemoryFileSystem};
use raindb::{Batch, DbOptions, RainDBError, ReadOptions, WriteOptions, DB};

type Model = BTreeMap<Vec<u8>, Vec<u8>>;

fn head(v: &[u8]) -> &[u8] {
    &v[..v.len().min(12)]
}

fn check_key(db: &DB, model: &Model, key: &[u8], ctx: &str) {
    let got = db.get(ReadOptions::default(), key);
    match (model.get(key), got) {
        (Some(exp), Ok(val)) => assert!(
            *exp == val,
            "{ctx}: get({:x?}) returned a value of length {} (head {:x?}) but the latest committed \
            write is a value of length {} (head {:x?})",
            head(key),
            val.len(),
            head(&val),
            exp.len(),
            head(exp)
        ),
        (None, Err(RainDBError::KeyNotFound)) => {}
        (Some(exp), Err(e)) => panic!(
            "{ctx}: get({:x?}) returned Err({e:?}) but the latest committed write is a put of a \
            value of length {}",
            head(key),
            exp.len()
        ),
        (None, Ok(val)) => panic!(
            "{ctx}: get({:x?}) returned a value of length {} but the latest committed write is a \
            delete (or there is none), so KeyNotFound is required",
            head(key),
            val.len()
        ),
        (None, Err(e)) => panic!(
            "{ctx}: get({:x?}) returned Err({e:?}) but KeyNotFound is required",
            head(key)
        ),
    }
}

fn check_all(db: &DB, model: &Model, universe: &[Vec<u8>], ctx: &str) {
    for key in universe {
        check_key(db, model, key, ctx);
    }
}

struct Harness {
    fs: Arc<dyn FileSystem>,
    db: Option<DB>,
    model: Model,
    universe: Vec<Vec<u8>>,
}

impl Harness {
    fn options(&self, mem: usize, file: u64, block: usize, reuse: bool, create: bool) -> DbOptions {
        DbOptions {
            db_path: "/db".to_string(),
            max_memtable_size: mem,
            max_file_size: file,
            max_block_size: block,
            filesystem_provider: Arc::clone(&self.fs),
            create_if_missing: create,
            reuse_log_files: reuse,
            ..DbOptions::default()
        }
    }

    fn new(mem: usize, file: u64, block: usize, reuse: bool) -> Self {
        let mut h = Harness {
            fs: Arc::new(InMemoryFileSystem::new()),
            db: None,
            model: Model::new(),
            universe: vec![],
        };
        let opts = h.options(mem, file, block, reuse, true);
        h.db = Some(DB::open(opts).expect("open of a new database"));
        h
    }

    fn db(&self) -> &DB {
        self.db.as_ref().unwrap()
    }

    fn note_key(&mut self, key: &[u8]) {
        if !self.universe.iter().any(|k| k == key) {
            self.universe.push(key.to_vec());
        }
    }

    fn put(&mut self, key: &[u8], value: &[u8]) {
        self.note_key(key);
        self.db()
            .put(WriteOptions::default(), key.to_vec(), value.to_vec())
            .expect("put");
        self.model.insert(key.to_vec(), value.to_vec());
    }

    fn delete(&mut self, key: &[u8]) {
        self.note_key(key);
        self.db()
            .delete(WriteOptions::default(), key.to_vec())
            .expect("delete");
        self.model.remove(key);
    }

    fn apply(&mut self, ops: &[(&[u8], Option<&[u8]>)]) {
        let mut batch = Batch::new();
        for (key, value) in ops {
            self.note_key(key);
            match value {
                Some(v) => {
                    batch.add_put(key.to_vec(), v.to_vec());
                    self.model.insert(key.to_vec(), v.to_vec());
                }
                None => {
                    batch.add_delete(key.to_vec());
                    self.model.remove(*key);
                }
            }
        }
        self.db().apply(WriteOptions::default(), batch).expect("apply");
    }

    /// Flush the memtable and push the range down (manual compaction).
    fn compact(&mut self, start: Option<&[u8]>, end: Option<&[u8]>) {
        self.db().compact_range(start..end);
    }

    /// Flush-by-fill: write filler keys until at least `bytes` have been written.
    fn fill(&mut self, tag: &str, bytes: usize) {
        let mut written = 0;
        let mut i = 0;
        while written < bytes {
            let key = format!("~fill-{tag}-{i:05}").into_bytes();
            let value = vec![(i % 251) as u8; 64];
            written += key.len() + value.len();
            self.put(&key, &value);
            i += 1;
        }
    }

    fn reopen(&mut self, mem: usize, file: u64, block: usize, reuse: bool) {
        drop(self.db.take());
        let opts = self.options(mem, file, block, reuse, false);
        self.db = Some(DB::open(opts).unwrap_or_else(|e| {
            panic!("reopen of a cleanly closed database failed with {e:?}; the property requires the history to continue")
        }));
    }

    fn verify(&self, ctx: &str) {
        check_all(self.db(), &self.model, &self.universe, ctx);
    }
}

fn pattern(len: usize, seed: u8) -> Vec<u8> {
    let mut x: u32 = 0x9E37_79B9 ^ (seed as u32).wrapping_mul(0x85EB_CA6B) | 1;
    (0..len)
        .map(|_| {
            x ^= x << 13;
            x ^= x >> 17;
            x ^= x << 5;
            x as u8
        })
        .collect()
}

/// Empty key, one byte keys, 0x00/0xff keys and empty / one byte values in the memtable, after a
/// flush, after a manual compaction and after reopen with each log-reuse setting.
#[test]
fn special_keys_and_values_everywhere() {
    let keys: Vec<Vec<u8>> = vec![
        vec![],
        vec![0x00],
        vec![0x00, 0x00],
        vec![0xff],
        vec![0xff, 0xff],
        vec![0xff; 17],
        vec![0x00, 0xff],
        vec![0xff, 0x00],
        vec![0x61],
        vec![0x61, 0xff],
        vec![0x61, 0xff, 0xff],
        vec![0x62],
    ];
    let values: Vec<Vec<u8>> = vec![vec![], vec![0x00], vec![0xff], vec![0x00; 5], vec![0xff; 5], b"v".to_vec()];

    for reuse in [true, false] {
        for (mem, file, block) in [(4 << 20, 2 << 20, 4096usize), (600usize, 300u64, 16usize), (200, 1, 1), (130, 0, 0)] {
            let ctx = format!("reuse={reuse} mem={mem} file={file} block={block}");
            let mut h = Harness::new(mem, file, block, reuse);
            for (i, key) in keys.iter().enumerate() {
                h.put(key, &values[i % values.len()]);
            }
            h.verify(&format!("{ctx}: after puts"));
            h.delete(&[]);
            h.delete(&[0xff, 0xff]);
            h.put(&[0xff], &[]);
            h.verify(&format!("{ctx}: after overwrites"));
            h.compact(None, None);
            h.verify(&format!("{ctx}: after full manual compaction"));
            h.put(&[], b"empty key is back");
            h.delete(&[0x00]);
            h.apply(&[(&[0xff, 0xff], Some(&[0xff])), (&[0x61], None), (&[0x61], Some(&[])), (&[0x62], None)]);
            h.verify(&format!("{ctx}: after second round"));
            h.reopen(mem, file, block, reuse);
            h.verify(&format!("{ctx}: after reopen"));
            h.compact(Some(&[0x00]), Some(&[0xff]));
            h.verify(&format!("{ctx}: after partial manual compaction"));
            h.reopen(mem, file, block, !reuse);
            h.verify(&format!("{ctx}: after reopen with the other log-reuse setting"));
        }
    }
}

/// Values larger than a WAL block (32 KiB), larger than the memtable and larger than the group
/// commit limit, across flushes, compactions and reopens with changed settings.
#[test]
fn large_values() {
    for reuse in [true, false] {
        let ctx = format!("reuse={reuse}");
        let mut h = Harness::new(64 * 1024, 32 * 1024, 1024, reuse);
        // Sizes around the WAL block boundaries (block 32768, header 7)
        for (i, len) in [32760usize, 32761, 32762, 32768, 65522, 65536, 100_000, 300_000].iter().enumerate() {
            h.put(format!("big-{i}").as_bytes(), &pattern(*len, i as u8));
        }
        h.put(b"small", b"s");
        h.verify(&format!("{ctx}: after big puts"));
        h.reopen(64 * 1024, 32 * 1024, 1024, reuse);
        h.verify(&format!("{ctx}: after reopen"));
        h.put(b"big-3", &pattern(70_000, 77));
        h.delete(b"big-5");
        h.put(b"huge", &pattern(3 << 20, 9));
        h.verify(&format!("{ctx}: after huge put"));
        h.compact(None, None);
        h.verify(&format!("{ctx}: after manual compaction"));
        h.reopen(1024, 512, 64, !reuse);
        h.verify(&format!("{ctx}: after reopen with tiny sizes"));
        h.put(b"huge", &pattern(40_000, 10));
        h.fill("a", 5000);
        h.verify(&format!("{ctx}: after overwrite of the huge value"));
        h.reopen(4 << 20, 2 << 20, 4096, reuse);
        h.verify(&format!("{ctx}: after reopen with default sizes"));
    }
}

/// Records that end exactly at, or a few bytes before, a WAL block boundary, followed by more
/// records; then reopen (with and without log reuse) and append again.
#[test]
fn wal_block_boundaries() {
    for reuse in [true, false] {
        for slack in 0..=8usize {
            let ctx = format!("reuse={reuse} slack={slack}");
            let mut h = Harness::new(4 << 20, 2 << 20, 4096, reuse);
            // batch payload = 8 (seq) + 1 (count) + 1 (op) + 1 (key len) + key + 3 (value len) + value
            let key = b"k0";
            let overhead = 7 + 8 + 1 + 1 + 1 + key.len() + 3;
            let value_len = 32768 - overhead - slack;
            h.put(key, &pattern(value_len, slack as u8));
            h.put(b"k1", b"after the boundary");
            h.put(b"k2", &pattern(40_000, 3));
            h.delete(b"k1");
            h.verify(&format!("{ctx}: before reopen"));
            h.reopen(4 << 20, 2 << 20, 4096, reuse);
            h.verify(&format!("{ctx}: after reopen"));
            h.put(b"k1", b"again");
            h.put(b"k3", &pattern(32761 - 15 - slack, 5));
            h.reopen(4 << 20, 2 << 20, 4096, reuse);
            h.verify(&format!("{ctx}: after second reopen"));
            h.put(b"k4", b"x");
            h.reopen(4 << 20, 2 << 20, 4096, !reuse);
            h.verify(&format!("{ctx}: after third reopen"));
        }
    }
}

/// A deletion marker must keep hiding an older value that lives in a deeper level, whatever gets
/// compacted in between; and the value must come back when it is written again.
#[test]
fn tombstones_over_deeper_levels() {
    for (mem, file, block) in [(4 << 20, 2 << 20, 4096usize), (2000usize, 400u64, 64usize)] {
        let ctx = format!("mem={mem} file={file} block={block}");
        let mut h = Harness::new(mem, file, block, true);
        // Old values at the deepest level reachable by manual compaction
        for i in 0..40u32 {
            h.put(format!("key-{i:03}").as_bytes(), format!("old-{i}").as_bytes());
        }
        h.compact(None, None);
        h.compact(None, None);
        h.verify(&format!("{ctx}: old values pushed down"));
        // A middle layer of overwrites
        for i in (0..40u32).step_by(3) {
            h.put(format!("key-{i:03}").as_bytes(), format!("mid-{i}").as_bytes());
        }
        h.compact(Some(b"key-000"), Some(b"key-020"));
        h.verify(&format!("{ctx}: middle layer"));
        // Deletions on top, compacted only partially
        for i in (0..40u32).step_by(2) {
            h.delete(format!("key-{i:03}").as_bytes());
        }
        h.verify(&format!("{ctx}: deletions in the memtable"));
        h.compact(Some(b"key-010"), Some(b"key-015"));
        h.verify(&format!("{ctx}: deletions partially compacted"));
        h.fill("t", mem.min(20_000) * 2);
        h.verify(&format!("{ctx}: after flush by fill"));
        h.reopen(mem, file, block, false);
        h.verify(&format!("{ctx}: after reopen"));
        h.compact(None, Some(b"key-030"));
        h.verify(&format!("{ctx}: after compaction of a prefix"));
        for i in (0..40u32).step_by(4) {
            h.put(format!("key-{i:03}").as_bytes(), format!("new-{i}").as_bytes());
        }
        h.verify(&format!("{ctx}: values written again"));
        h.compact(None, None);
        h.verify(&format!("{ctx}: after final full compaction"));
        h.reopen(mem, file, block, true);
        h.verify(&format!("{ctx}: after final reopen"));
    }
}

/// Many flushes of disjoint key ranges (memtable outputs are pushed to levels 1 and 2 and level-0
/// files are moved trivially), then overwrites of the same ranges in reverse order.
#[test]
fn disjoint_flushes_then_overwrites() {
    let mut h = Harness::new(1500, 600, 128, true);
    for round in 0..12u32 {
        for i in 0..25u32 {
            h.put(
                format!("r{round:02}-{i:03}").as_bytes(),
                format!("v1-{round}-{i}").as_bytes(),
            );
        }
    }
    h.verify("after disjoint rounds");
    for round in (0..12u32).rev() {
        for i in (0..25u32).step_by(2) {
            h.put(
                format!("r{round:02}-{i:03}").as_bytes(),
                format!("v2-{round}-{i}").as_bytes(),
            );
        }
        for i in (1..25u32).step_by(4) {
            h.delete(format!("r{round:02}-{i:03}").as_bytes());
        }
    }
    h.verify("after overwrites in reverse order");
    h.reopen(900, 300, 32, false);
    h.verify("after reopen with smaller sizes");
    h.compact(Some(b"r03"), Some(b"r07"));
    h.verify("after partial compaction");
    h.reopen(4 << 20, 2 << 20, 4096, true);
    h.verify("after reopen with default sizes");
    h.compact(None, None);
    h.verify("after full compaction");
}

/// One hot key overwritten and deleted many times while the memtable rotates after almost every
/// write; more than a hundred gets in between so that seek-triggered compactions happen too.
#[test]
fn hot_key_with_tiny_memtable() {
    let mut h = Harness::new(160, 200, 32, true);
    for i in 0..300u32 {
        if i % 7 == 3 {
            h.delete(b"hot");
        } else {
            h.put(b"hot", format!("hot-value-{i}").as_bytes());
        }
        h.put(format!("cold-{:03}", i % 50).as_bytes(), &pattern((i % 90) as usize, i as u8));
        check_key(h.db(), &h.model, b"hot", &format!("step {i}"));
        check_key(h.db(), &h.model, b"cold-000", &format!("step {i}"));
        check_key(h.db(), &h.model, b"absent", &format!("step {i}"));
        if i % 60 == 59 {
            h.reopen(160 + (i as usize % 5) * 100, 200, 32, i % 120 == 59);
            h.verify(&format!("after reopen at step {i}"));
        }
    }
    h.verify("final");
}

/// Empty batches, batches touching the same key several times, and a batch bigger than the
/// memtable.
#[test]
fn batches() {
    let mut h = Harness::new(2000, 1000, 128, true);
    h.apply(&[]);
    h.verify("after an empty batch on an empty database");
    h.apply(&[
        (b"a", Some(b"1")),
        (b"a", None),
        (b"a", Some(b"2")),
        (b"b", Some(b"1")),
        (b"b", None),
        (b"c", None),
        (b"c", Some(b"")),
    ]);
    h.verify("after a batch with repeated keys");
    h.apply(&[]);
    h.reopen(2000, 1000, 128, true);
    h.verify("after reopen (empty batch is the last WAL record)");
    let big = pattern(900, 1);
    let ops: Vec<(Vec<u8>, Option<Vec<u8>>)> = (0..30u32)
        .map(|i| (format!("batch-{i:02}").into_bytes(), if i % 5 == 4 { None } else { Some(big.clone()) }))
        .collect();
    let borrowed: Vec<(&[u8], Option<&[u8]>)> =
        ops.iter().map(|(k, v)| (k.as_slice(), v.as_deref())).collect();
    h.apply(&borrowed);
    h.apply(&[(b"batch-00", None), (b"batch-04", Some(b"now present"))]);
    h.verify("after a batch bigger than the memtable");
    h.reopen(2000, 1000, 128, false);
    h.verify("after reopen without log reuse");
    h.compact(None, None);
    h.verify("after compaction");
}
