//! Audit of property C01 ("reads return the latest committed write, wherever the data lives"):
//! forced schedules between the single client thread and the background compaction thread.
//!
//! Needs `--features verif`. Kept in its own test binary because the verif handler is process-wide.
//! Each test fails iff a `get` returns something else than the latest committed write.
#![cfg(feature = "verif")]

use std::sync::atomic::{AtomicBool, AtomicU64, Ordering};
use std::sync::{Arc, Condvar, Mutex};
use std::time::{Duration, Instant};

use raindb::fs::{FileSystem, InMemoryFileSystem};
use raindb::{DbOptions, RainDBError, ReadOptions, WriteOptions, DB};

/// Serialises the tests of this binary (the handler is global).
static SERIAL: Mutex<()> = Mutex::new(());

struct Sched {
    /// While true the background thread parks at `compact.begin`.
    hold_bg: AtomicBool,
    /// Name of the client-side pause point at which the background thread is let loose.
    client_gate: Mutex<Option<&'static str>>,
    /// Number of times the background thread went idle.
    idle: AtomicU64,
    /// Number of times the gate was used.
    gate_hits: AtomicU64,
    /// Number of obsolete files the garbage collector planned to delete while the client was parked.
    gc_planned: AtomicU64,
    in_gate: AtomicBool,
    lock: Mutex<()>,
    cv: Condvar,
}

impl Sched {
    fn new() -> Arc<Self> {
        Arc::new(Sched {
            hold_bg: AtomicBool::new(false),
            client_gate: Mutex::new(None),
            idle: AtomicU64::new(0),
            gate_hits: AtomicU64::new(0),
            gc_planned: AtomicU64::new(0),
            in_gate: AtomicBool::new(false),
            lock: Mutex::new(()),
            cv: Condvar::new(),
        })
    }

    fn release_bg(&self) {
        let _g = self.lock.lock().unwrap();
        self.hold_bg.store(false, Ordering::SeqCst);
        self.cv.notify_all();
    }

    fn wait_idle_after(&self, idle_before: u64, what: &str) {
        let deadline = Instant::now() + Duration::from_secs(60);
        let mut g = self.lock.lock().unwrap();
        while self.idle.load(Ordering::SeqCst) <= idle_before {
            let now = Instant::now();
            assert!(now < deadline, "harness: background thread did not go idle ({what})");
            g = self.cv.wait_timeout(g, deadline - now).unwrap().0;
        }
    }
}

impl raindb::verif::Handler for Sched {
    fn pause(&self, point: &'static str, _args: &[u64]) {
        match point {
            "compact.begin" => {
                let deadline = Instant::now() + Duration::from_secs(60);
                let mut g = self.lock.lock().unwrap();
                while self.hold_bg.load(Ordering::SeqCst) {
                    let now = Instant::now();
                    if now >= deadline {
                        panic!("harness: background thread parked for too long");
                    }
                    g = self.cv.wait_timeout(g, deadline - now).unwrap().0;
                }
            }
            "worker.idle" => {
                let _g = self.lock.lock().unwrap();
                self.idle.fetch_add(1, Ordering::SeqCst);
                self.cv.notify_all();
            }
            _ => {
                let gate = *self.client_gate.lock().unwrap();
                if gate == Some(point) {
                    // One shot
                    *self.client_gate.lock().unwrap() = None;
                    self.gate_hits.fetch_add(1, Ordering::SeqCst);
                    let idle_before = self.idle.load(Ordering::SeqCst);
                    self.in_gate.store(true, Ordering::SeqCst);
                    self.release_bg();
                    self.wait_idle_after(idle_before, point);
                    self.in_gate.store(false, Ordering::SeqCst);
                }
            }
        }
    }

    fn note(&self, point: &'static str, args: &[u64]) {
        if point == "gc.plan" && self.in_gate.load(Ordering::SeqCst) {
            self.gc_planned.fetch_add(args[0], Ordering::SeqCst);
        }
    }
}

fn options(fs: &Arc<dyn FileSystem>, create: bool) -> DbOptions {
    DbOptions {
        db_path: "/db".to_string(),
        max_memtable_size: 4 * 1024,
        max_file_size: 2 * 1024,
        max_block_size: 256,
        filesystem_provider: Arc::clone(fs),
        create_if_missing: create,
        ..DbOptions::default()
    }
}

fn filler_key(round: u64, i: u64) -> Vec<u8> {
    // Fillers surround the probed key "m..." on both sides so that every file's range covers it
    if i % 2 == 0 {
        format!("a-filler-{round:03}-{i:04}").into_bytes()
    } else {
        format!("z-filler-{round:03}-{i:04}").into_bytes()
    }
}

/// Write fillers until the memtable was rotated once more. Returns when the put that caused the
/// rotation has returned.
fn fill_until_rotation(db: &DB, round: u64) {
    let rotations_before = db.verif_probe().curr_wal_number;
    let mut i = 0;
    loop {
        db.put(WriteOptions::default(), filler_key(round, i), vec![b'f'; 100])
            .unwrap();
        i += 1;
        // The WAL number known to the version set changes only after the flush; use the file list
        // of the wal dir instead: simplest is to detect via the probe of the immutable memtable or
        // a changed live file set.
        let probe = db.verif_probe();
        if probe.has_immutable_memtable || probe.curr_wal_number != rotations_before {
            return;
        }
        assert!(i < 10_000, "harness: memtable never rotated");
    }
}

fn expect(db: &DB, key: &[u8], expected: Option<&[u8]>, ctx: &str) {
    match (db.get(ReadOptions::default(), key), expected) {
        (Ok(v), Some(e)) => assert!(
            v == e,
            "{ctx}: get({:?}) returned {:?} but the latest committed write is {:?}",
            String::from_utf8_lossy(key),
            String::from_utf8_lossy(&v),
            String::from_utf8_lossy(e)
        ),
        (Err(RainDBError::KeyNotFound), None) => {}
        (other, e) => panic!(
            "{ctx}: get({:?}) returned {:?} but the property requires {:?}",
            String::from_utf8_lossy(key),
            other.map(|v| String::from_utf8_lossy(&v).to_string()),
            e.map(|v| String::from_utf8_lossy(v).to_string())
        ),
    }
}

/// Flush memtables until `n` files sit at level 0. Every memtable holds a version of "m-key"
/// ("value-<round>"); "m-gone" is written in the second last round and deleted in the last one.
/// Returns the number of the last round.
fn build_level0_files(db: &DB, sched: &Arc<Sched>, n: usize) -> u64 {
    let mut round = 0u64;
    loop {
        let level0 = db.verif_files().iter().filter(|f| f.level == 0).count();
        assert!(round < 12, "harness: could not build {n} level-0 files");
        let idle_before = sched.idle.load(Ordering::SeqCst);
        db.put(
            WriteOptions::default(),
            b"m-key".to_vec(),
            format!("value-{round}").into_bytes(),
        )
        .unwrap();
        if level0 + 2 == n {
            db.put(WriteOptions::default(), b"m-gone".to_vec(), b"x".to_vec())
                .unwrap();
        }
        if level0 + 1 == n {
            db.delete(WriteOptions::default(), b"m-gone".to_vec()).unwrap();
        }
        fill_until_rotation(db, round);
        sched.wait_idle_after(idle_before, "setup flush");
        if db.verif_files().iter().filter(|f| f.level == 0).count() == n {
            return round;
        }
        round += 1;
    }
}

/// The client's `get` is parked at `gate` (no lock held, memtable/immutable memtable/version
/// already captured). Meanwhile the background thread flushes the pending immutable memtable,
/// compacts all of level 0 into level 1 and garbage-collects. The `get` then resumes on the
/// version it captured.
fn get_parked_while_background_runs(gate: &'static str) {
    let _serial = SERIAL.lock().unwrap_or_else(|e| e.into_inner());
    let sched = Sched::new();
    raindb::verif::set_handler(Some(sched.clone()));

    let fs: Arc<dyn FileSystem> = Arc::new(InMemoryFileSystem::new());
    let db = DB::open(options(&fs, true)).unwrap();

    // Flush memtables (each holding a version of "m-key") until three files sit at level 0. The
    // first flushes are pushed to levels 2 and 1 because nothing overlaps them there.
    let last_round = build_level0_files(&db, &sched, 3);
    let latest = format!("value-{last_round}").into_bytes();

    // Fourth rotation with the background thread parked: an immutable memtable is pending and the
    // flush of it will bring level 0 to the compaction trigger.
    sched.hold_bg.store(true, Ordering::SeqCst);
    fill_until_rotation(&db, 100);
    assert!(db.verif_probe().has_immutable_memtable, "harness: no pending immutable memtable");

    *sched.client_gate.lock().unwrap() = Some(gate);
    expect(&db, b"m-key", Some(&latest), &format!("get parked at {gate}"));
    assert!(
        sched.gc_planned.load(Ordering::SeqCst) > 0,
        "harness: the garbage collector had nothing to delete while the get was parked"
    );
    assert!(sched.gate_hits.load(Ordering::SeqCst) == 1, "harness: gate {gate} not reached");

    // The background work really happened while the get was parked
    let files = db.verif_files();
    assert!(
        files.iter().all(|f| f.level >= 1),
        "harness: level 0 was not compacted while the get was parked: {files:?}"
    );

    *sched.client_gate.lock().unwrap() = None;
    expect(&db, b"m-gone", None, "after the background work");
    expect(&db, b"m-key", Some(&latest), "after the background work");
    expect(&db, &filler_key(100, 0), Some(&[b'f'; 100]), "after the background work");

    drop(db);
    let db = DB::open(options(&fs, false)).unwrap();
    expect(&db, b"m-gone", None, "after reopen");
    expect(&db, b"m-key", Some(&latest), "after reopen");
    drop(db);
    raindb::verif::set_handler(None);
}

#[test]
fn get_parked_before_memtable_lookup() {
    get_parked_while_background_runs("get.unlocked");
}

#[test]
fn get_parked_before_immutable_memtable_lookup() {
    get_parked_while_background_runs("get.before_imm");
}

#[test]
fn get_parked_before_table_lookup() {
    get_parked_while_background_runs("get.before_tables");
}

/// The probed key lives only in the pending immutable memtable when the `get` starts; the flush and
/// the compaction of level 0 complete while the `get` is parked.
#[test]
fn get_of_key_in_immutable_memtable_parked_while_it_is_flushed() {
    for gate in ["get.unlocked", "get.before_imm"] {
        let _serial = SERIAL.lock().unwrap_or_else(|e| e.into_inner());
        let sched = Sched::new();
        raindb::verif::set_handler(Some(sched.clone()));
        let fs: Arc<dyn FileSystem> = Arc::new(InMemoryFileSystem::new());
        let db = DB::open(options(&fs, true)).unwrap();

        let idle_before = sched.idle.load(Ordering::SeqCst);
        db.put(WriteOptions::default(), b"m-key".to_vec(), b"old".to_vec()).unwrap();
        fill_until_rotation(&db, 0);
        sched.wait_idle_after(idle_before, "setup flush");

        sched.hold_bg.store(true, Ordering::SeqCst);
        db.put(WriteOptions::default(), b"m-key".to_vec(), b"new".to_vec()).unwrap();
        fill_until_rotation(&db, 1);
        assert!(db.verif_probe().has_immutable_memtable);

        *sched.client_gate.lock().unwrap() = Some(gate);
        expect(&db, b"m-key", Some(b"new"), &format!("get parked at {gate}"));
        assert!(sched.gate_hits.load(Ordering::SeqCst) == 1);
        assert!(!db.verif_probe().has_immutable_memtable, "harness: flush did not happen");
        expect(&db, b"m-key", Some(b"new"), "after the flush");
        drop(db);
        raindb::verif::set_handler(None);
    }
}

/// The client's `put` is parked between the WAL append and the memtable insert (and, second
/// variant, between the memtable insert and the publication of the sequence number) while the
/// background thread flushes the previous memtable and compacts level 0.
#[test]
fn put_parked_while_background_runs() {
    for gate in ["write.after_wal", "write.after_mem", "write.before_wal"] {
        let _serial = SERIAL.lock().unwrap_or_else(|e| e.into_inner());
        let sched = Sched::new();
        raindb::verif::set_handler(Some(sched.clone()));
        let fs: Arc<dyn FileSystem> = Arc::new(InMemoryFileSystem::new());
        let db = DB::open(options(&fs, true)).unwrap();

        build_level0_files(&db, &sched, 3);

        sched.hold_bg.store(true, Ordering::SeqCst);
        fill_until_rotation(&db, 100);
        assert!(db.verif_probe().has_immutable_memtable);

        *sched.client_gate.lock().unwrap() = Some(gate);
        db.put(WriteOptions::default(), b"m-key".to_vec(), b"latest".to_vec()).unwrap();
        assert!(sched.gate_hits.load(Ordering::SeqCst) == 1, "harness: gate {gate} not reached");
        db.delete(WriteOptions::default(), filler_key(0, 0)).unwrap();

        expect(&db, b"m-key", Some(b"latest"), &format!("after a put parked at {gate}"));
        expect(&db, &filler_key(0, 0), None, &format!("after a put parked at {gate}"));
        expect(&db, &filler_key(0, 1), Some(&[b'f'; 100]), &format!("after a put parked at {gate}"));

        drop(db);
        let db = DB::open(options(&fs, false)).unwrap();
        expect(&db, b"m-key", Some(b"latest"), &format!("after a put parked at {gate} and reopen"));
        expect(&db, &filler_key(0, 0), None, &format!("after a put parked at {gate} and reopen"));
        drop(db);
        raindb::verif::set_handler(None);
    }
}
