//! Exploratory volume test for the audit of property C01: enough data that level 1 exceeds its
//! 10 MiB budget so that size-triggered compactions at levels >= 1 (compaction pointers, trivial
//! moves, grandparent-overlap file splitting, tombstone dropping at the base level) happen
//! naturally.

use std::collections::BTreeMap;
use std::sync::Arc;

use raindb::fs::{FileSystem, InMemoryFileSystem};
use raindb::{DbOptions, RainDBError, ReadOptions, WriteOptions, DB};

struct Rng(u64);
impl Rng {
    fn next(&mut self) -> u64 {
        self.0 ^= self.0 >> 12;
        self.0 ^= self.0 << 25;
        self.0 ^= self.0 >> 27;
        self.0.wrapping_mul(0x2545F4914F6CDD1D)
    }
    fn below(&mut self, n: u64) -> u64 {
        self.next() % n
    }
}

#[cfg(feature = "verif")]
mod stats {
    use std::collections::BTreeMap;
    use std::sync::Mutex;
    pub struct H(pub Mutex<BTreeMap<String, u64>>);
    impl raindb::verif::Handler for H {
        fn pause(&self, _p: &'static str, _a: &[u64]) {}
        fn note(&self, p: &'static str, a: &[u64]) {
            let k = if p == "compaction.pick" {
                format!("pick level={} manual={} trivial={} n1>0={}", a[0], a[3], a[4], (a[2] > 0) as u64)
            } else {
                p.to_string()
            };
            *self.0.lock().unwrap().entry(k).or_insert(0) += 1;
        }
    }
}

fn gen_val(b: u8, len: usize) -> Vec<u8> {
    let mut r = Rng((b as u64 + 1).wrapping_mul(0x9E3779B97F4A7C15) ^ (len as u64) | 1);
    let mut v = Vec::with_capacity(len + 8);
    while v.len() < len {
        v.extend_from_slice(&r.next().to_le_bytes());
    }
    v.truncate(len);
    v
}

fn check(db: &DB, model: &BTreeMap<Vec<u8>, (u8, usize)>, key: &[u8], ctx: &str) {
    let got = db.get(ReadOptions::default(), key);
    match (model.get(key), got) {
        (Some((b, len)), Ok(val)) => {
            if val != gen_val(*b, *len) {
                panic!(
                    "{ctx}: get({}) returned len {} first byte {:?}; latest committed write is len {} byte {}",
                    String::from_utf8_lossy(key),
                    val.len(),
                    val.first(),
                    len,
                    b
                );
            }
        }
        (None, Err(RainDBError::KeyNotFound)) => {}
        (Some((b, len)), Err(e)) => panic!(
            "{ctx}: get({}) returned Err({e:?}); latest committed write is a put (len {len}, byte {b})",
            String::from_utf8_lossy(key)
        ),
        (None, Ok(val)) => panic!(
            "{ctx}: get({}) returned a value of len {} first byte {:?}; latest committed write is a delete / none",
            String::from_utf8_lossy(key),
            val.len(),
            val.first()
        ),
        (None, Err(e)) => panic!("{ctx}: get returned Err({e:?}), expected KeyNotFound"),
    }
}

fn run(seed: u64, nkeys: u64, steps: usize, vmin: u64, vmax: u64, file: u64, mem: usize) {
    let mut rng = Rng(seed.wrapping_mul(0x9E3779B97F4A7C15) | 1);
    let fs: Arc<dyn FileSystem> = Arc::new(InMemoryFileSystem::new());
    let mk = |i: u64| -> Vec<u8> { format!("k{:07}", i).into_bytes() };
    let mut model: BTreeMap<Vec<u8>, (u8, usize)> = BTreeMap::new();
    let opts = |create: bool, rng: &mut Rng| DbOptions {
        db_path: "/db".to_string(),
        max_memtable_size: mem,
        max_file_size: file,
        max_block_size: 1024,
        filesystem_provider: Arc::clone(&fs),
        create_if_missing: create,
        reuse_log_files: rng.below(2) == 0,
        ..DbOptions::default()
    };
    let mut db = Some(DB::open(opts(true, &mut rng)).unwrap());
    for step in 0..steps {
        let d = db.as_ref().unwrap();
        let op = rng.below(100);
        let k = mk(rng.below(nkeys));
        if op < 60 {
            let b = rng.next() as u8;
            let len = (vmin + rng.below(vmax - vmin)) as usize;
            d.put(WriteOptions::default(), k.clone(), gen_val(b, len)).unwrap();
            model.insert(k, (b, len));
        } else if op < 80 {
            d.delete(WriteOptions::default(), k.clone()).unwrap();
            model.remove(&k);
        } else {
            check(d, &model, &k, &format!("volume seed {seed} step {step}"));
        }
        if step % 4000 == 3999 {
            for i in 0..nkeys {
                check(d, &model, &mk(i), &format!("volume seed {seed} step {step} (full check)"));
            }
            #[cfg(feature = "verif")]
            {
                let files = d.verif_files();
                let mut per_level = [0usize; 7];
                for f in &files {
                    per_level[f.level] += 1;
                }
                eprintln!("step {step}: files per level {per_level:?}");
            }
        }
        if step % 9000 == 8999 {
            drop(db.take());
            db = Some(DB::open(opts(false, &mut rng)).unwrap());
            let d = db.as_ref().unwrap();
            for i in 0..nkeys {
                check(d, &model, &mk(i), &format!("volume seed {seed} step {step} (after reopen)"));
            }
        }
    }
    let d = db.as_ref().unwrap();
    for i in 0..nkeys {
        check(d, &model, &mk(i), &format!("volume seed {seed} final"));
    }
}

#[test]
fn volume() {
    let seed: u64 = std::env::var("VOL_SEED").ok().and_then(|s| s.parse().ok()).unwrap_or(1);
    let steps: usize = std::env::var("VOL_STEPS").ok().and_then(|s| s.parse().ok()).unwrap_or(30000);
    #[cfg(feature = "verif")]
    let h = Arc::new(stats::H(std::sync::Mutex::new(Default::default())));
    #[cfg(feature = "verif")]
    raindb::verif::set_handler(Some(h.clone()));
    let nkeys: u64 = std::env::var("VOL_KEYS").ok().and_then(|s| s.parse().ok()).unwrap_or(6000);
    let file: u64 = std::env::var("VOL_FILE").ok().and_then(|s| s.parse().ok()).unwrap_or(64 * 1024);
    run(seed, nkeys, steps, 1000, 6000, file, 256 * 1024);
    #[cfg(feature = "verif")]
    {
        raindb::verif::set_handler(None);
        for (k, v) in h.0.lock().unwrap().iter() {
            eprintln!("{k}: {v}");
        }
    }
}
