//! Audit of property C01, exploration beyond the stated scope: process-crash images.
//!
//! A private in-memory file system counts every mutating call (create/truncate, write, append,
//! rename, remove). At chosen counts it takes an image of the whole file system as a process crash
//! at that instant would leave it (all completed calls are in, the call in progress is either
//! absent or, for a write, torn after a prefix). Every image is then opened as a database and every
//! key is read: a write that had been acknowledged before the image was taken must be visible, the
//! operation in flight may or may not be, nothing else may be.
//!
//! Needs `--features verif` (for the `UnlockableFile` re-export).
#![cfg(feature = "verif")]

use std::collections::{BTreeMap, BTreeSet, HashMap, HashSet};
use std::io::{self, Read, Seek, SeekFrom, Write};
use std::path::{Path, PathBuf};
use std::sync::{Arc, Mutex};

use raindb::fs::{FileLock, FileSystem, RandomAccessFile, ReadonlyRandomAccessFile};
use raindb::verif::UnlockableFile;
use raindb::{Batch, DbOptions, RainDBError, ReadOptions, WriteOptions, DB};

type Model = BTreeMap<Vec<u8>, Vec<u8>>;

#[derive(Clone, Default)]
struct ClientState {
    acked: Model,
    /// Keys touched by the operation in flight, with the value they would get (None = deleted).
    inflight: Vec<(Vec<u8>, Option<Vec<u8>>)>,
    step: usize,
}

#[derive(Clone)]
struct Image {
    files: HashMap<PathBuf, Vec<u8>>,
    client: ClientState,
    label: String,
}

#[derive(Default)]
struct State {
    inodes: HashMap<u64, Vec<u8>>,
    names: HashMap<PathBuf, u64>,
    next_inode: u64,
    locked: HashSet<PathBuf>,
    mutations: u64,
    snap_points: BTreeSet<u64>,
    images: Vec<Image>,
    /// One-shot I/O fault: the mutation with this number fails. `Some(true)`: a write fails after
    /// half of its bytes were written; `Some(false)`: nothing is written.
    fault_at: Option<(u64, bool)>,
    fault_fired: Option<String>,
}

impl State {
    fn image_files(&self) -> HashMap<PathBuf, Vec<u8>> {
        self.names
            .iter()
            .map(|(path, inode)| (path.clone(), self.inodes[inode].clone()))
            .collect()
    }
}

struct Shared {
    state: Mutex<State>,
    client: Arc<Mutex<ClientState>>,
}

impl Shared {
    /// Count a mutation; take images if this is a snap point. `torn` describes a write in progress:
    /// (inode, offset, data).
    fn before_mutation(
        &self,
        state: &mut State,
        what: &str,
        torn: Option<(u64, usize, &[u8])>,
    ) -> Option<bool> {
        state.mutations += 1;
        if let Some((at, partial)) = state.fault_at {
            if at == state.mutations {
                state.fault_fired = Some(format!("mutation {at} ({what}), partial={partial}"));
                return Some(partial);
            }
        }
        if !state.snap_points.contains(&state.mutations) {
            return None;
        }
        let client = self.client.lock().unwrap().clone();
        let n = state.mutations;
        state.images.push(Image {
            files: state.image_files(),
            client: client.clone(),
            label: format!("before mutation {n} ({what})"),
        });
        if let Some((inode, offset, data)) = torn {
            if data.len() > 1 {
                for cut in [1, data.len() / 2, data.len() - 1] {
                    let mut files = state.image_files();
                    for (path, ino) in state.names.iter() {
                        if *ino == inode {
                            let contents = files.get_mut(path).unwrap();
                            contents.truncate(offset);
                            contents.extend_from_slice(&data[..cut]);
                        }
                    }
                    state.images.push(Image {
                        files,
                        client: client.clone(),
                        label: format!("mutation {n} ({what}) torn after {cut} of {} bytes", data.len()),
                    });
                }
            }
        }
        None
    }
}

fn injected() -> io::Error {
    io::Error::new(io::ErrorKind::Other, "injected I/O fault")
}

#[derive(Clone)]
struct CrashFs(Arc<Shared>);

impl CrashFs {
    fn new(client: Arc<Mutex<ClientState>>, snap_points: BTreeSet<u64>) -> Self {
        let state = State {
            snap_points,
            ..State::default()
        };
        CrashFs(Arc::new(Shared {
            state: Mutex::new(state),
            client,
        }))
    }

    fn from_image(image: &Image) -> Self {
        let fs = CrashFs::new(Arc::new(Mutex::new(ClientState::default())), BTreeSet::new());
        {
            let mut state = fs.0.state.lock().unwrap();
            for (path, contents) in &image.files {
                let inode = state.next_inode;
                state.next_inode += 1;
                state.inodes.insert(inode, contents.clone());
                state.names.insert(path.clone(), inode);
            }
        }
        fs
    }
}

struct Handle {
    shared: Arc<Shared>,
    inode: u64,
    cursor: u64,
    append_mode: bool,
}

impl Read for Handle {
    fn read(&mut self, buf: &mut [u8]) -> io::Result<usize> {
        let state = self.shared.state.lock().unwrap();
        let contents = &state.inodes[&self.inode];
        let start = (self.cursor as usize).min(contents.len());
        let n = buf.len().min(contents.len() - start);
        buf[..n].copy_from_slice(&contents[start..start + n]);
        self.cursor += n as u64;
        Ok(n)
    }
}

impl Seek for Handle {
    fn seek(&mut self, pos: SeekFrom) -> io::Result<u64> {
        let len = self.shared.state.lock().unwrap().inodes[&self.inode].len() as i64;
        let target = match pos {
            SeekFrom::Start(off) => off as i64,
            SeekFrom::Current(off) => self.cursor as i64 + off,
            SeekFrom::End(off) => len + off,
        };
        if target < 0 {
            return Err(io::Error::new(io::ErrorKind::InvalidInput, "negative seek"));
        }
        self.cursor = target as u64;
        Ok(self.cursor)
    }
}

impl Write for Handle {
    fn write(&mut self, buf: &[u8]) -> io::Result<usize> {
        if buf.is_empty() {
            return Ok(0);
        }
        let mut state = self.shared.state.lock().unwrap();
        let len = state.inodes[&self.inode].len();
        let offset = if self.append_mode { len } else { self.cursor as usize };
        let fault = self
            .shared
            .before_mutation(&mut state, "write", Some((self.inode, offset.min(len), buf)));
        let buf = match fault {
            Some(false) => return Err(injected()),
            Some(true) => &buf[..buf.len() / 2],
            None => buf,
        };
        let contents = state.inodes.get_mut(&self.inode).unwrap();
        if offset > contents.len() {
            contents.resize(offset, 0);
        }
        let overlap = (contents.len() - offset).min(buf.len());
        contents[offset..offset + overlap].copy_from_slice(&buf[..overlap]);
        contents.extend_from_slice(&buf[overlap..]);
        self.cursor = (offset + buf.len()) as u64;
        if fault.is_some() {
            return Err(injected());
        }
        Ok(buf.len())
    }

    fn flush(&mut self) -> io::Result<()> {
        Ok(())
    }
}

impl ReadonlyRandomAccessFile for Handle {
    fn read_from(&self, buf: &mut [u8], offset: usize) -> io::Result<usize> {
        let state = self.shared.state.lock().unwrap();
        let contents = &state.inodes[&self.inode];
        let start = offset.min(contents.len());
        let n = buf.len().min(contents.len() - start);
        buf[..n].copy_from_slice(&contents[start..start + n]);
        Ok(n)
    }

    fn len(&self) -> io::Result<u64> {
        Ok(self.shared.state.lock().unwrap().inodes[&self.inode].len() as u64)
    }
}

impl RandomAccessFile for Handle {
    fn append(&mut self, buf: &[u8]) -> io::Result<usize> {
        if buf.is_empty() {
            return Ok(0);
        }
        let mut state = self.shared.state.lock().unwrap();
        let len = state.inodes[&self.inode].len();
        let fault = self
            .shared
            .before_mutation(&mut state, "append", Some((self.inode, len, buf)));
        let buf = match fault {
            Some(false) => return Err(injected()),
            Some(true) => &buf[..buf.len() / 2],
            None => buf,
        };
        state.inodes.get_mut(&self.inode).unwrap().extend_from_slice(buf);
        self.cursor = (len + buf.len()) as u64;
        if fault.is_some() {
            return Err(injected());
        }
        Ok(buf.len())
    }
}

struct LockHandle {
    shared: Arc<Shared>,
    path: PathBuf,
}

impl UnlockableFile for LockHandle {
    fn unlock(&self) -> io::Result<()> {
        self.shared.state.lock().unwrap().locked.remove(&self.path);
        Ok(())
    }
}

fn not_found(path: &Path) -> io::Error {
    io::Error::new(io::ErrorKind::NotFound, format!("{path:?} not found"))
}

impl FileSystem for CrashFs {
    fn get_name(&self) -> String {
        "CrashFs".to_string()
    }

    fn create_dir(&self, _path: &Path) -> io::Result<()> {
        Ok(())
    }

    fn create_dir_all(&self, _path: &Path) -> io::Result<()> {
        Ok(())
    }

    fn list_dir(&self, path: &Path) -> io::Result<Vec<PathBuf>> {
        let state = self.0.state.lock().unwrap();
        let mut children: BTreeSet<PathBuf> = BTreeSet::new();
        for name in state.names.keys() {
            if let Ok(rest) = name.strip_prefix(path) {
                if let Some(first) = rest.components().next() {
                    children.insert(path.join(first));
                }
            }
        }
        Ok(children.into_iter().collect())
    }

    fn open_file(&self, path: &Path) -> io::Result<Box<dyn ReadonlyRandomAccessFile>> {
        let state = self.0.state.lock().unwrap();
        let inode = *state.names.get(path).ok_or_else(|| not_found(path))?;
        Ok(Box::new(Handle {
            shared: Arc::clone(&self.0),
            inode,
            cursor: 0,
            append_mode: false,
        }))
    }

    fn rename(&self, from: &Path, to: &Path) -> io::Result<()> {
        let mut state = self.0.state.lock().unwrap();
        if !state.names.contains_key(from) {
            return Err(not_found(from));
        }
        if self.0.before_mutation(&mut state, "rename", None).is_some() {
            return Err(injected());
        }
        let inode = state.names.remove(from).unwrap();
        state.names.insert(to.to_path_buf(), inode);
        Ok(())
    }

    fn create_file(&self, path: &Path, append: bool) -> io::Result<Box<dyn RandomAccessFile>> {
        let mut state = self.0.state.lock().unwrap();
        if append {
            if let Some(inode) = state.names.get(path).copied() {
                let len = state.inodes[&inode].len() as u64;
                return Ok(Box::new(Handle {
                    shared: Arc::clone(&self.0),
                    inode,
                    cursor: len,
                    append_mode: true,
                }));
            }
        }
        if self.0.before_mutation(&mut state, "create", None).is_some() {
            return Err(injected());
        }
        let inode = state.next_inode;
        state.next_inode += 1;
        state.inodes.insert(inode, vec![]);
        state.names.insert(path.to_path_buf(), inode);
        Ok(Box::new(Handle {
            shared: Arc::clone(&self.0),
            inode,
            cursor: 0,
            append_mode: append,
        }))
    }

    fn remove_file(&self, path: &Path) -> io::Result<()> {
        let mut state = self.0.state.lock().unwrap();
        if !state.names.contains_key(path) {
            return Err(not_found(path));
        }
        if self.0.before_mutation(&mut state, "remove", None).is_some() {
            return Err(injected());
        }
        state.names.remove(path);
        Ok(())
    }

    fn remove_dir(&self, _path: &Path) -> io::Result<()> {
        Ok(())
    }

    fn remove_dir_all(&self, path: &Path) -> io::Result<()> {
        let mut state = self.0.state.lock().unwrap();
        let doomed: Vec<PathBuf> = state
            .names
            .keys()
            .filter(|name| name.starts_with(path))
            .cloned()
            .collect();
        for name in doomed {
            state.names.remove(&name);
        }
        Ok(())
    }

    fn get_file_size(&self, path: &Path) -> io::Result<u64> {
        let state = self.0.state.lock().unwrap();
        let inode = state.names.get(path).ok_or_else(|| not_found(path))?;
        Ok(state.inodes[inode].len() as u64)
    }

    fn is_dir(&self, path: &Path) -> io::Result<bool> {
        let state = self.0.state.lock().unwrap();
        if state.names.contains_key(path) {
            return Ok(false);
        }
        Ok(state.names.keys().any(|name| name.starts_with(path)))
    }

    fn lock_file(&self, path: &Path) -> io::Result<FileLock> {
        let mut state = self.0.state.lock().unwrap();
        if state.locked.contains(path) {
            return Err(io::Error::new(io::ErrorKind::WouldBlock, "already locked"));
        }
        if !state.names.contains_key(path) {
            let inode = state.next_inode;
            state.next_inode += 1;
            state.inodes.insert(inode, vec![]);
            state.names.insert(path.to_path_buf(), inode);
        }
        state.locked.insert(path.to_path_buf());
        Ok(FileLock::new(Box::new(LockHandle {
            shared: Arc::clone(&self.0),
            path: path.to_path_buf(),
        })))
    }
}

struct Rng(u64);
impl Rng {
    fn next(&mut self) -> u64 {
        self.0 ^= self.0 >> 12;
        self.0 ^= self.0 << 25;
        self.0 ^= self.0 >> 27;
        self.0.wrapping_mul(0x2545F4914F6CDD1D)
    }
    fn below(&mut self, n: u64) -> u64 {
        self.next() % n
    }
}

fn options(fs: &CrashFs, create: bool, reuse: bool, mem: usize) -> DbOptions {
    DbOptions {
        db_path: "/db".to_string(),
        max_memtable_size: mem,
        max_file_size: 700,
        max_block_size: 128,
        filesystem_provider: Arc::new(fs.clone()),
        create_if_missing: create,
        reuse_log_files: reuse,
        ..DbOptions::default()
    }
}

fn universe() -> Vec<Vec<u8>> {
    (0..40u32).map(|i| format!("key-{i:02}").into_bytes()).collect()
}

/// The workload: puts, deletes, batches, manual compactions and clean reopens. Returns the number
/// of file system mutations it caused.
fn workload(seed: u64, fs: &CrashFs, client: &Arc<Mutex<ClientState>>, steps: usize) -> u64 {
    let mut rng = Rng(seed.wrapping_mul(0x9E3779B97F4A7C15) | 1);
    let keys = universe();
    let mut reuse = seed % 2 == 0;
    let mut db = Some(DB::open(options(fs, true, reuse, 1200)).unwrap());
    for step in 0..steps {
        let d = db.as_ref().unwrap();
        let op = rng.below(100);
        let key = keys[rng.below(keys.len() as u64) as usize].clone();
        let begin = |ops: Vec<(Vec<u8>, Option<Vec<u8>>)>| {
            let mut c = client.lock().unwrap();
            c.inflight = ops;
            c.step = step;
        };
        let commit = || {
            let mut c = client.lock().unwrap();
            let ops = std::mem::take(&mut c.inflight);
            for (k, v) in ops {
                match v {
                    Some(v) => {
                        c.acked.insert(k, v);
                    }
                    None => {
                        c.acked.remove(&k);
                    }
                }
            }
        };
        if op < 55 {
            let len = match rng.below(10) {
                0 => 0,
                1 => 600 + rng.below(900) as usize,
                _ => rng.below(80) as usize,
            };
            let value = vec![(step % 250) as u8 + 1; len];
            begin(vec![(key.clone(), Some(value.clone()))]);
            d.put(WriteOptions::default(), key, value).unwrap();
            commit();
        } else if op < 72 {
            begin(vec![(key.clone(), None)]);
            d.delete(WriteOptions::default(), key).unwrap();
            commit();
        } else if op < 82 {
            let mut batch = Batch::new();
            let mut ops = vec![];
            for _ in 0..(1 + rng.below(4)) {
                let k = keys[rng.below(keys.len() as u64) as usize].clone();
                if ops.iter().any(|(seen, _): &(Vec<u8>, Option<Vec<u8>>)| *seen == k) {
                    continue;
                }
                if rng.below(3) == 0 {
                    batch.add_delete(k.clone());
                    ops.push((k, None));
                } else {
                    let value = vec![(step % 250) as u8 + 1; rng.below(60) as usize];
                    batch.add_put(k.clone(), value.clone());
                    ops.push((k, Some(value)));
                }
            }
            begin(ops);
            d.apply(WriteOptions::default(), batch).unwrap();
            commit();
        } else if op < 90 {
            begin(vec![]);
            let a = keys[rng.below(keys.len() as u64) as usize].clone();
            d.compact_range(Some(a.as_slice())..None);
            commit();
        } else {
            begin(vec![]);
            drop(db.take());
            reuse = rng.below(2) == 0;
            db = Some(DB::open(options(fs, false, reuse, 600 + rng.below(1500) as usize)).unwrap());
            commit();
        }
    }
    drop(db);
    let mutations = fs.0.state.lock().unwrap().mutations;
    mutations
}

/// Open the image and compare every key with what the property allows. Returns the number of keys
/// for which the in-flight operation was found applied.
fn verify_image(image: &Image, index: usize) {
    let fs = CrashFs::from_image(image);
    let ctx = format!(
        "crash image {index} [{}], client step {}",
        image.label, image.client.step
    );
    if !image.files.keys().any(|p| p.ends_with("CURRENT")) {
        // Crash before the database was created: nothing was acknowledged
        assert!(image.client.acked.is_empty(), "{ctx}: no CURRENT file but acknowledged writes exist");
        return;
    }
    let reuse = index % 2 == 0;
    let db = DB::open(options(&fs, false, reuse, 1200))
        .unwrap_or_else(|e| panic!("{ctx}: open of the crash image failed: {e:?}"));
    let mut recovered: Model = Model::new();
    for key in universe() {
        let acked = image.client.acked.get(&key).cloned();
        let mut allowed: Vec<Option<Vec<u8>>> = vec![acked];
        for (k, v) in &image.client.inflight {
            if *k == key {
                allowed.push(v.clone());
            }
        }
        let got = match db.get(ReadOptions::default(), &key) {
            Ok(v) => Some(v),
            Err(RainDBError::KeyNotFound) => None,
            Err(e) => panic!("{ctx}: get({:?}) returned Err({e:?})", String::from_utf8_lossy(&key)),
        };
        assert!(
            allowed.contains(&got),
            "{ctx}: get({:?}) returned {:?} but only {:?} is allowed (latest acknowledged write, or \
            the operation in flight)",
            String::from_utf8_lossy(&key),
            got.as_ref().map(|v| (v.len(), v.first().copied())),
            allowed
                .iter()
                .map(|v| v.as_ref().map(|v| (v.len(), v.first().copied())))
                .collect::<Vec<_>>()
        );
        if let Some(v) = got {
            recovered.insert(key, v);
        }
    }

    // The recovered database must keep working: write, reopen, read
    let keys = universe();
    for (i, key) in keys.iter().enumerate().step_by(3) {
        if i % 2 == 0 {
            let value = format!("post-crash-{i}").into_bytes();
            db.put(WriteOptions::default(), key.clone(), value.clone()).unwrap();
            recovered.insert(key.clone(), value);
        } else {
            db.delete(WriteOptions::default(), key.clone()).unwrap();
            recovered.remove(key);
        }
    }
    drop(db);
    let db = DB::open(options(&fs, false, !reuse, 1200))
        .unwrap_or_else(|e| panic!("{ctx}: second open after the crash failed: {e:?}"));
    for key in keys {
        let got = match db.get(ReadOptions::default(), &key) {
            Ok(v) => Some(v),
            Err(RainDBError::KeyNotFound) => None,
            Err(e) => panic!("{ctx}: second open: get returned Err({e:?})"),
        };
        assert!(
            got.as_ref() == recovered.get(&key),
            "{ctx}: after post-crash writes and a reopen get({:?}) returned {:?} but the latest \
            committed write is {:?}",
            String::from_utf8_lossy(&key),
            got.as_ref().map(|v| (v.len(), v.first().copied())),
            recovered.get(&key).map(|v| (v.len(), v.first().copied()))
        );
    }
}

#[test]
fn crash_images() {
    let seeds: u64 = std::env::var("CRASH_SEEDS").ok().and_then(|s| s.parse().ok()).unwrap_or(3);
    let steps: usize = std::env::var("CRASH_STEPS").ok().and_then(|s| s.parse().ok()).unwrap_or(120);
    let stride: u64 = std::env::var("CRASH_STRIDE").ok().and_then(|s| s.parse().ok()).unwrap_or(7);
    for seed in 0..seeds {
        // First run: count the mutations
        let client = Arc::new(Mutex::new(ClientState::default()));
        let fs = CrashFs::new(Arc::clone(&client), BTreeSet::new());
        let total = workload(seed, &fs, &client, steps);

        // Second run: take images at every `stride`-th mutation (the phase depends on the seed)
        let points: BTreeSet<u64> = (1..=total + 50).filter(|n| n % stride == seed % stride).collect();
        let client = Arc::new(Mutex::new(ClientState::default()));
        let fs = CrashFs::new(Arc::clone(&client), points);
        workload(seed, &fs, &client, steps);
        let images = std::mem::take(&mut fs.0.state.lock().unwrap().images);
        eprintln!("seed {seed}: {total} mutations, {} images", images.len());
        for (index, image) in images.iter().enumerate() {
            verify_image(image, index);
        }
    }
}

/// What the property allows for a key: the latest acknowledged write, or one of the writes that
/// failed after it (their outcome is unknown).
#[derive(Default)]
struct FaultModel {
    acked: Model,
    uncertain: BTreeMap<Vec<u8>, Vec<Option<Vec<u8>>>>,
}

impl FaultModel {
    fn ack(&mut self, ops: &[(Vec<u8>, Option<Vec<u8>>)]) {
        for (k, v) in ops {
            self.uncertain.remove(k);
            match v {
                Some(v) => {
                    self.acked.insert(k.clone(), v.clone());
                }
                None => {
                    self.acked.remove(k);
                }
            }
        }
    }

    fn failed(&mut self, ops: &[(Vec<u8>, Option<Vec<u8>>)]) {
        for (k, v) in ops {
            self.uncertain.entry(k.clone()).or_default().push(v.clone());
        }
    }

    fn check(&mut self, db: &DB, ctx: &str) {
        for key in universe() {
            let got = match db.get(ReadOptions::default(), &key) {
                Ok(v) => Some(v),
                Err(RainDBError::KeyNotFound) => None,
                Err(e) => panic!("{ctx}: get({:?}) returned Err({e:?})", String::from_utf8_lossy(&key)),
            };
            let acked = self.acked.get(&key).cloned();
            let mut allowed = vec![acked];
            if let Some(more) = self.uncertain.get(&key) {
                allowed.extend(more.iter().cloned());
            }
            assert!(
                allowed.contains(&got),
                "{ctx}: get({:?}) returned {:?} but the property allows only {:?} (latest \
                acknowledged write, or a later write that reported an error)",
                String::from_utf8_lossy(&key),
                got.as_ref().map(|v| (v.len(), v.first().copied())),
                allowed
                    .iter()
                    .map(|v| v.as_ref().map(|v| (v.len(), v.first().copied())))
                    .collect::<Vec<_>>()
            );
        }
    }

    /// After a reopen the outcome of the failed writes is decided: what is read now is the state.
    fn settle(&mut self, db: &DB) {
        for key in universe() {
            if self.uncertain.remove(&key).is_some() {
                match db.get(ReadOptions::default(), &key) {
                    Ok(v) => {
                        self.acked.insert(key, v);
                    }
                    Err(_) => {
                        self.acked.remove(&key);
                    }
                }
            }
        }
    }
}

fn open_with_retries(fs: &CrashFs, reuse: bool, mem: usize, ctx: &str) -> DB {
    let mut errors = vec![];
    for _ in 0..3 {
        match DB::open(options(fs, false, reuse, mem)) {
            Ok(db) => return db,
            Err(e) => errors.push(format!("{e:?}")),
        }
    }
    let fired = fs.0.state.lock().unwrap().fault_fired.clone();
    panic!(
        "{ctx}: open of a cleanly closed database failed three times in a row although only one \
        I/O fault was injected ({fired:?}); the history cannot continue. Errors: {errors:?}"
    );
}

/// Same mix of operations as `workload`, with a client that survives errors: a failed write makes
/// the outcome for its keys unknown, then the database is reopened.
fn fault_workload(seed: u64, fs: &CrashFs, steps: usize, ctx: &str) -> u64 {
    let mut rng = Rng(seed.wrapping_mul(0x9E3779B97F4A7C15) | 1);
    let keys = universe();
    let mut model = FaultModel::default();
    let mut reuse = seed % 2 == 0;
    let mut db = match DB::open(options(fs, true, reuse, 1200)) {
        Ok(db) => Some(db),
        Err(_) => Some(DB::open(options(fs, true, reuse, 1200)).expect("second attempt to create")),
    };
    for step in 0..steps {
        let ctx = format!("{ctx}, step {step}");
        let d = db.as_ref().unwrap();
        let op = rng.below(100);
        let key = keys[rng.below(keys.len() as u64) as usize].clone();
        let mut failed = false;
        if op < 55 {
            let len = match rng.below(10) {
                0 => 0,
                1 => 600 + rng.below(900) as usize,
                _ => rng.below(80) as usize,
            };
            let value = vec![(step % 250) as u8 + 1; len];
            let ops = vec![(key.clone(), Some(value.clone()))];
            match d.put(WriteOptions::default(), key, value) {
                Ok(()) => model.ack(&ops),
                Err(_) => {
                    model.failed(&ops);
                    failed = true;
                }
            }
        } else if op < 72 {
            let ops = vec![(key.clone(), None)];
            match d.delete(WriteOptions::default(), key) {
                Ok(()) => model.ack(&ops),
                Err(_) => {
                    model.failed(&ops);
                    failed = true;
                }
            }
        } else if op < 82 {
            let mut batch = Batch::new();
            let mut ops: Vec<(Vec<u8>, Option<Vec<u8>>)> = vec![];
            for _ in 0..(1 + rng.below(4)) {
                let k = keys[rng.below(keys.len() as u64) as usize].clone();
                if ops.iter().any(|(seen, _)| *seen == k) {
                    continue;
                }
                if rng.below(3) == 0 {
                    batch.add_delete(k.clone());
                    ops.push((k, None));
                } else {
                    let value = vec![(step % 250) as u8 + 1; rng.below(60) as usize];
                    batch.add_put(k.clone(), value.clone());
                    ops.push((k, Some(value)));
                }
            }
            match d.apply(WriteOptions::default(), batch) {
                Ok(()) => model.ack(&ops),
                Err(_) => {
                    model.failed(&ops);
                    failed = true;
                }
            }
        } else if op < 90 {
            let a = keys[rng.below(keys.len() as u64) as usize].clone();
            d.compact_range(Some(a.as_slice())..None);
        } else {
            drop(db.take());
            reuse = rng.below(2) == 0;
            let mem = 600 + rng.below(1500) as usize;
            db = Some(open_with_retries(fs, reuse, mem, &ctx));
            model.settle(db.as_ref().unwrap());
            model.check(db.as_ref().unwrap(), &format!("{ctx} (after reopen)"));
        }
        if failed {
            // Reads must keep working in the session that saw the error ...
            model.check(db.as_ref().unwrap(), &format!("{ctx} (same session, after a failed write)"));
            // ... and after a reopen
            drop(db.take());
            db = Some(open_with_retries(fs, reuse, 1200, &ctx));
            model.settle(db.as_ref().unwrap());
            model.check(db.as_ref().unwrap(), &format!("{ctx} (reopen after a failed write)"));
        } else if step % 10 == 9 {
            model.check(db.as_ref().unwrap(), &ctx);
        }
    }
    model.check(db.as_ref().unwrap(), &format!("{ctx}, end of the session"));
    drop(db.take());
    let db = open_with_retries(fs, !reuse, 1200, ctx);
    model.settle(&db);
    model.check(&db, &format!("{ctx}, final reopen"));
    drop(db);
    let mutations = fs.0.state.lock().unwrap().mutations;
    mutations
}

#[test]
fn single_io_faults() {
    let seeds: u64 = std::env::var("FAULT_SEEDS").ok().and_then(|s| s.parse().ok()).unwrap_or(2);
    let steps: usize = std::env::var("FAULT_STEPS").ok().and_then(|s| s.parse().ok()).unwrap_or(100);
    let stride: u64 = std::env::var("FAULT_STRIDE").ok().and_then(|s| s.parse().ok()).unwrap_or(5);
    let mut failures: Vec<String> = vec![];
    for seed in 0..seeds {
        let dummy = Arc::new(Mutex::new(ClientState::default()));
        let fs = CrashFs::new(Arc::clone(&dummy), BTreeSet::new());
        let total = fault_workload(seed, &fs, steps, &format!("seed {seed}, no fault"));
        eprintln!("seed {seed}: {total} mutations without fault");
        let mut fired = 0;
        let range: Option<(u64, u64)> = std::env::var("FAULT_RANGE").ok().and_then(|s| {
            let (lo, hi) = s.split_once('-')?;
            Some((lo.parse().ok()?, hi.parse().ok()?))
        });
        let only_seed: Option<u64> = std::env::var("FAULT_ONLY_SEED").ok().and_then(|s| s.parse().ok());
        if only_seed.map_or(false, |only| only != seed) {
            continue;
        }
        for at in (1..=total).filter(|n| match range {
            Some((lo, hi)) => *n >= lo && *n <= hi,
            None => n % stride == seed % stride,
        }) {
            for partial in [false, true] {
                let fs = CrashFs::new(Arc::clone(&dummy), BTreeSet::new());
                fs.0.state.lock().unwrap().fault_at = Some((at, partial));
                let ctx = format!("seed {seed}, one I/O fault at mutation {at} (partial write: {partial})");
                let outcome = std::panic::catch_unwind(std::panic::AssertUnwindSafe(|| {
                    fault_workload(seed, &fs, steps, &ctx);
                }));
                if let Err(payload) = outcome {
                    let message = payload
                        .downcast_ref::<String>()
                        .cloned()
                        .or_else(|| payload.downcast_ref::<&str>().map(|m| m.to_string()))
                        .unwrap_or_default();
                    failures.push(message);
                }
                if fs.0.state.lock().unwrap().fault_fired.is_some() {
                    fired += 1;
                }
            }
        }
        eprintln!("seed {seed}: {fired} faults fired, {} failures so far", failures.len());
    }
    assert!(
        failures.is_empty(),
        "{} fault points violated the expectations; the first ones:\n{}",
        failures.len(),
        failures.iter().take(5).cloned().collect::<Vec<_>>().join("\n")
    );
}
