//! Audit of property C01 ("reads return the latest committed write, wherever the data lives"):
//! randomized differential tests against a model (`BTreeMap` of the latest committed write).
//!
//! The operation sequences are deterministic functions of the seed; the timing of the background
//! compaction thread is not. A test fails iff some `get` differs from the model (the message shows
//! what was returned, what the property requires and the tail of the operation trace).
//!
//! Environment: FUZZ_LO/FUZZ_HI (seed range, default 0..20), FUZZ_STEPS, FUZZ_FS=os (use the disk
//! file system under target/fuzz-os), FUZZ_EXTREME=1 (memtable 128..228 bytes, file size 1..60,
//! block size 1), FUZZ_TRACE=1, FUZZ_STATS=1 (fuzz_deep: print which compactions happened).
//! `fuzz_stats` and `fuzz_bg_parking` install the process-wide verif handler and are therefore
//! ignored by default; run them one at a time, e.g.
//! `cargo test --offline --features verif --test audit_fuzz -- --ignored fuzz_bg_parking`.

use std::collections::BTreeMap;
use std::sync::Arc;

use raindb::fs::{FileSystem, InMemoryFileSystem};
use raindb::{Batch, DbOptions, RainDBError, ReadOptions, WriteOptions, DB};

struct Rng(u64);
impl Rng {
    fn next(&mut self) -> u64 {
        // xorshift64*
        self.0 ^= self.0 >> 12;
        self.0 ^= self.0 << 25;
        self.0 ^= self.0 >> 27;
        self.0.wrapping_mul(0x2545F4914F6CDD1D)
    }
    fn below(&mut self, n: u64) -> u64 {
        self.next() % n
    }
    fn chance(&mut self, num: u64, den: u64) -> bool {
        self.below(den) < num
    }
}

fn key_pool(rng: &mut Rng, n: usize) -> Vec<Vec<u8>> {
    let mut pool: Vec<Vec<u8>> = vec![
        vec![],
        vec![0],
        vec![0, 0],
        vec![0xff],
        vec![0xff, 0xff],
        vec![0xff; 9],
        vec![0xff, 0],
        vec![0, 0xff],
        b"a".to_vec(),
        b"ab".to_vec(),
        b"b".to_vec(),
    ];
    let alphabet: [u8; 5] = [0, 1, b'a', 0xfe, 0xff];
    while pool.len() < n {
        let len = rng.below(6) as usize;
        let mut k = vec![];
        for _ in 0..len {
            k.push(alphabet[rng.below(5) as usize]);
        }
        if rng.chance(1, 10) {
            k.extend(std::iter::repeat(b'x').take(rng.below(300) as usize));
        }
        pool.push(k);
    }
    pool.sort();
    pool.dedup();
    pool
}

fn gen_value(rng: &mut Rng, big: bool) -> Vec<u8> {
    let class = rng.below(100);
    let len = if class < 10 {
        0
    } else if class < 20 {
        1
    } else if class < 85 {
        rng.below(120) as usize
    } else if class < 97 {
        rng.below(1500) as usize
    } else if big {
        // larger than a WAL block (32 KiB)
        30000 + rng.below(50000) as usize
    } else {
        rng.below(3000) as usize
    };
    let fill = rng.below(4);
    let mut v = Vec::with_capacity(len);
    for i in 0..len {
        v.push(match fill {
            0 => 0u8,
            1 => 0xff,
            2 => (i % 251) as u8,
            _ => rng.next() as u8,
        });
    }
    v
}

fn fs_and_path(tag: &str) -> (Arc<dyn FileSystem>, String) {
    if std::env::var("FUZZ_FS").map(|v| v == "os").unwrap_or(false) {
        let dir = format!("/tmp/wtb-C01/target/fuzz-os/{}-{}", tag, std::process::id());
        let _ = std::fs::remove_dir_all(&dir);
        std::fs::create_dir_all(&dir).unwrap();
        (Arc::new(raindb::fs::OsFileSystem::new()), dir)
    } else {
        (Arc::new(InMemoryFileSystem::new()), "/db".to_string())
    }
}

fn gen_options(rng: &mut Rng, fs: &Arc<dyn FileSystem>, create: bool) -> DbOptions {
    let mem = match rng.below(5) {
        0 => if std::env::var("FUZZ_EXTREME").is_ok() { 128 + rng.below(100) } else { 400 + rng.below(400) },
        1 => 500 + rng.below(2000),
        2 => 2000 + rng.below(10000),
        3 => 64 * 1024,
        _ => 4 * 1024 * 1024,
    } as usize;
    let file = match rng.below(4) {
        0 => if std::env::var("FUZZ_EXTREME").is_ok() { 1 + rng.below(60) } else { 100 + rng.below(400) },
        1 => 500 + rng.below(3000),
        2 => 10000 + rng.below(50000),
        _ => 2 * 1024 * 1024,
    };
    let block = match rng.below(4) {
        0 => if std::env::var("FUZZ_EXTREME").is_ok() { 1 } else { 1 + rng.below(64) },
        1 => 64 + rng.below(512),
        2 => 1024,
        _ => 4096,
    } as usize;
    DbOptions {
        db_path: "/db".to_string(),
        max_memtable_size: mem,
        max_file_size: file,
        max_block_size: block,
        filesystem_provider: Arc::clone(fs),
        create_if_missing: create,
        reuse_log_files: rng.chance(1, 2),
        ..DbOptions::default()
    }
}

fn check_key(db: &DB, model: &BTreeMap<Vec<u8>, Vec<u8>>, key: &[u8], ctx: &str) {
    let got = db.get(ReadOptions::default(), key);
    match (model.get(key), got) {
        (Some(exp), Ok(val)) => {
            if *exp != val {
                panic!(
                    "{ctx}: get({key:x?}) returned a value of length {} (head {:x?}) but the latest committed write is a value of length {} (head {:x?})",
                    val.len(),
                    &val[..val.len().min(16)],
                    exp.len(),
                    &exp[..exp.len().min(16)]
                );
            }
        }
        (None, Err(RainDBError::KeyNotFound)) => {}
        (Some(exp), Err(e)) => panic!(
            "{ctx}: get({key:x?}) returned Err({e:?}) but the latest committed write is a put of a value of length {}",
            exp.len()
        ),
        (None, Ok(val)) => panic!(
            "{ctx}: get({key:x?}) returned a value of length {} but the key was deleted/never written",
            val.len()
        ),
        (None, Err(e)) => panic!("{ctx}: get({key:x?}) returned Err({e:?}), expected KeyNotFound"),
    }
}

fn run(seed: u64, steps: usize, big: bool) {
    let mut rng = Rng(seed.wrapping_mul(0x9E3779B97F4A7C15) | 1);
    let (fs, db_path) = fs_and_path(&format!("s{seed}"));
    let pool_size = 8 + rng.below(60) as usize;
    let pool = key_pool(&mut rng, pool_size);
    let mut model: BTreeMap<Vec<u8>, Vec<u8>> = BTreeMap::new();
    let mut opts = gen_options(&mut rng, &fs, true);
    opts.db_path = db_path.clone();
    let mut db = Some(DB::open(opts.clone()).expect("open"));
    let mut trace: Vec<String> = vec![format!(
        "open mem={} file={} block={} reuse={}",
        opts.max_memtable_size, opts.max_file_size, opts.max_block_size, opts.reuse_log_files
    )];

    for step in 0..steps {
        let ctx = format!("seed {seed} step {step}");
        let op = rng.below(100);
        let d = db.as_ref().unwrap();
        if std::env::var("FUZZ_TRACE").is_ok() {
            eprintln!("step {step}: after {:?}", trace.last());
        }
        if op < 45 {
            let k = pool[rng.below(pool.len() as u64) as usize].clone();
            let v = gen_value(&mut rng, big);
            trace.push(format!("put {:x?} len {}", &k[..k.len().min(8)], v.len()));
            d.put(WriteOptions::default(), k.clone(), v.clone())
                .unwrap_or_else(|e| panic!("{ctx}: put failed {e:?}"));
            model.insert(k, v);
        } else if op < 60 {
            let k = pool[rng.below(pool.len() as u64) as usize].clone();
            trace.push(format!("del {:x?}", &k[..k.len().min(8)]));
            d.delete(WriteOptions::default(), k.clone())
                .unwrap_or_else(|e| panic!("{ctx}: delete failed {e:?}"));
            model.remove(&k);
        } else if op < 70 {
            let mut batch = Batch::new();
            let n = rng.below(8);
            for _ in 0..n {
                let k = pool[rng.below(pool.len() as u64) as usize].clone();
                if rng.chance(2, 3) {
                    let v = gen_value(&mut rng, false);
                    batch.add_put(k.clone(), v.clone());
                    model.insert(k, v);
                } else {
                    batch.add_delete(k.clone());
                    model.remove(&k);
                }
            }
            trace.push(format!("batch n={n}"));
            d.apply(WriteOptions::default(), batch)
                .unwrap_or_else(|e| panic!("{ctx}: apply failed {e:?}"));
        } else if op < 85 {
            let k = pool[rng.below(pool.len() as u64) as usize].clone();
            check_key(d, &model, &k, &format!("{ctx} trace tail {:?}", &trace[trace.len().saturating_sub(12)..]));
        } else if op < 90 {
            let a = pool[rng.below(pool.len() as u64) as usize].clone();
            let b = pool[rng.below(pool.len() as u64) as usize].clone();
            let (a, b) = if a <= b { (a, b) } else { (b, a) };
            let start = if rng.chance(1, 3) { None } else { Some(a.as_slice()) };
            let end = if rng.chance(1, 3) { None } else { Some(b.as_slice()) };
            trace.push(format!("compact {:x?}..{:x?}", start.map(|s| &s[..s.len().min(8)]), end.map(|s| &s[..s.len().min(8)])));
            d.compact_range(start..end);
        } else if op < 95 {
            drop(db.take());
            opts = gen_options(&mut rng, &fs, false);
            opts.db_path = db_path.clone();
            trace.push(format!(
                "reopen mem={} file={} block={} reuse={}",
                opts.max_memtable_size, opts.max_file_size, opts.max_block_size, opts.reuse_log_files
            ));
            db = Some(
                DB::open(opts.clone())
                    .unwrap_or_else(|e| panic!("{ctx}: reopen failed {e:?}; trace tail {:?}", &trace[trace.len().saturating_sub(12)..])),
            );
        } else {
            for k in pool.iter() {
                check_key(d, &model, k, &format!("{ctx} (full check) trace tail {:?}", &trace[trace.len().saturating_sub(12)..]));
            }
        }
    }
    let d = db.as_ref().unwrap();
    for k in pool.iter() {
        check_key(d, &model, k, &format!("seed {seed} final"));
    }
    drop(db);
    if db_path != "/db" {
        let _ = std::fs::remove_dir_all(&db_path);
    }
}

#[cfg(feature = "verif")]
mod stats {
    use std::collections::BTreeMap;
    use std::sync::Mutex;
    pub struct H(pub Mutex<BTreeMap<String, u64>>);
    impl raindb::verif::Handler for H {
        fn pause(&self, _p: &'static str, _a: &[u64]) {}
        fn note(&self, p: &'static str, a: &[u64]) {
            let k = if p == "compaction.pick" {
                format!("pick level={} manual={} trivial={} n1>0={}", a[0], a[3], a[4], (a[2] > 0) as u64)
            } else {
                p.to_string()
            };
            *self.0.lock().unwrap().entry(k).or_insert(0) += 1;
        }
    }
}

#[cfg(feature = "verif")]
#[test]
#[ignore]
fn fuzz_stats() {
    let (lo, hi) = seeds();
    let h = std::sync::Arc::new(stats::H(std::sync::Mutex::new(Default::default())));
    raindb::verif::set_handler(Some(h.clone()));
    for seed in lo..hi {
        run(seed, 600, false);
    }
    raindb::verif::set_handler(None);
    for (k, v) in h.0.lock().unwrap().iter() {
        eprintln!("{k}: {v}");
    }
}

/// Variant 2: large ordered key space, tiny files, frequent sub-range compactions => deep LSM shapes.
fn run_deep(seed: u64, steps: usize, nkeys: u64, vmax: u64) {
    let mut rng = Rng(seed.wrapping_mul(0x9E3779B97F4A7C15) | 1);
    let fs: Arc<dyn FileSystem> = Arc::new(InMemoryFileSystem::new());
    let mk = |i: u64| -> Vec<u8> { format!("k{:06}", i).into_bytes() };
    let mut model: BTreeMap<Vec<u8>, Vec<u8>> = BTreeMap::new();
    let gen_opts = |rng: &mut Rng, create: bool| -> DbOptions {
        DbOptions {
            db_path: "/db".to_string(),
            max_memtable_size: (600 + rng.below(6000)) as usize,
            max_file_size: 300 + rng.below(3000),
            max_block_size: (32 + rng.below(600)) as usize,
            filesystem_provider: Arc::clone(&fs),
            create_if_missing: create,
            reuse_log_files: rng.chance(1, 2),
            ..DbOptions::default()
        }
    };
    let opts = gen_opts(&mut rng, true);
    let mut db = Some(DB::open(opts).expect("open"));
    let mut trace: Vec<String> = vec![];
    let mut hot = rng.below(nkeys);
    for step in 0..steps {
        let ctx = format!("deep seed {seed} step {step}");
        let op = rng.below(100);
        let d = db.as_ref().unwrap();
        if rng.chance(1, 50) {
            hot = rng.below(nkeys);
        }
        // keys cluster around a moving hot spot so that memtables cover narrow ranges
        let pick = |rng: &mut Rng| -> u64 {
            if rng.chance(3, 4) {
                (hot + rng.below(40)) % nkeys
            } else {
                rng.below(nkeys)
            }
        };
        if op < 55 {
            let k = mk(pick(&mut rng));
            let len = rng.below(vmax) as usize;
            let b = rng.next() as u8;
            let v = vec![b; len];
            trace.push(format!("put {} len {}", String::from_utf8_lossy(&k), len));
            d.put(WriteOptions::default(), k.clone(), v.clone()).unwrap();
            model.insert(k, v);
        } else if op < 75 {
            let k = mk(pick(&mut rng));
            trace.push(format!("del {}", String::from_utf8_lossy(&k)));
            d.delete(WriteOptions::default(), k.clone()).unwrap();
            model.remove(&k);
        } else if op < 88 {
            let k = mk(pick(&mut rng));
            check_key(d, &model, &k, &format!("{ctx} trace tail {:?}", &trace[trace.len().saturating_sub(8)..]));
        } else if op < 94 {
            let a = pick(&mut rng);
            let b = a + rng.below(60);
            let (ka, kb) = (mk(a), mk(b));
            let start = if rng.chance(1, 8) { None } else { Some(ka.as_slice()) };
            let end = if rng.chance(1, 8) { None } else { Some(kb.as_slice()) };
            trace.push(format!("compact {a}..{b}"));
            d.compact_range(start..end);
        } else if op < 97 {
            drop(db.take());
            let o = gen_opts(&mut rng, false);
            trace.push("reopen".to_string());
            db = Some(DB::open(o).unwrap_or_else(|e| panic!("{ctx}: reopen failed {e:?}")));
        } else {
            for i in 0..nkeys {
                check_key(d, &model, &mk(i), &format!("{ctx} (full check) trace tail {:?}", &trace[trace.len().saturating_sub(8)..]));
            }
        }
    }
    let d = db.as_ref().unwrap();
    for i in 0..nkeys {
        check_key(d, &model, &mk(i), &format!("deep seed {seed} final"));
    }
}

#[test]
fn fuzz_deep() {
    let (lo, hi) = seeds();
    let steps = std::env::var("FUZZ_STEPS").ok().and_then(|s| s.parse().ok()).unwrap_or(4000);
    #[cfg(feature = "verif")]
    let h = std::sync::Arc::new(stats::H(std::sync::Mutex::new(Default::default())));
    #[cfg(feature = "verif")]
    if std::env::var("FUZZ_STATS").is_ok() {
        raindb::verif::set_handler(Some(h.clone()));
    }
    let hi = if std::env::var("FUZZ_HI").is_ok() { hi } else { lo + 5 };
    for seed in lo..hi {
        eprintln!("deep seed {seed}");
        run_deep(seed, steps, 600, 200);
    }
    #[cfg(feature = "verif")]
    {
        raindb::verif::set_handler(None);
        for (k, v) in h.0.lock().unwrap().iter() {
            eprintln!("{k}: {v}");
        }
    }
}

/// Random parking of the background thread at its scheduling points until the client has made
/// progress (or a short timeout), so that client operations interleave with every background step.
#[cfg(feature = "verif")]
mod bgpark {
    use std::sync::atomic::{AtomicU64, Ordering};
    use std::time::{Duration, Instant};
    pub static CLIENT_OPS: AtomicU64 = AtomicU64::new(0);
    pub struct H(pub AtomicU64);
    impl raindb::verif::Handler for H {
        fn pause(&self, _p: &'static str, _a: &[u64]) {
            let is_bg = std::thread::current().name().map(|n| n.starts_with("raindb-")).unwrap_or(false);
            if !is_bg {
                CLIENT_OPS.fetch_add(1, Ordering::SeqCst);
                return;
            }
            // cheap xorshift on a shared counter
            let mut x = self.0.fetch_add(0x9E3779B97F4A7C15, Ordering::Relaxed) | 1;
            x ^= x >> 12;
            x ^= x << 25;
            x ^= x >> 27;
            let r = x.wrapping_mul(0x2545F4914F6CDD1D) >> 33;
            if r % 3 != 0 {
                return;
            }
            let target = CLIENT_OPS.load(Ordering::SeqCst) + 1 + (r % 7);
            let deadline = Instant::now() + Duration::from_millis(3);
            while CLIENT_OPS.load(Ordering::SeqCst) < target && Instant::now() < deadline {
                std::thread::yield_now();
            }
        }
        fn note(&self, _p: &'static str, _a: &[u64]) {}
    }
}

#[cfg(feature = "verif")]
#[test]
#[ignore]
fn fuzz_bg_parking() {
    let (lo, hi) = seeds();
    let steps = std::env::var("FUZZ_STEPS").ok().and_then(|s| s.parse().ok()).unwrap_or(600);
    raindb::verif::set_handler(Some(std::sync::Arc::new(bgpark::H(std::sync::atomic::AtomicU64::new(lo)))));
    for seed in lo..hi {
        eprintln!("bgpark seed {seed}");
        run(seed + 2_000_000, steps, false);
        run_deep(seed + 2_000_000, steps * 3, 600, 200);
    }
    raindb::verif::set_handler(None);
}

fn seeds() -> (u64, u64) {
    let lo = std::env::var("FUZZ_LO").ok().and_then(|s| s.parse().ok()).unwrap_or(0);
    let hi = std::env::var("FUZZ_HI").ok().and_then(|s| s.parse().ok()).unwrap_or(20);
    (lo, hi)
}

#[test]
fn fuzz_small() {
    let (lo, hi) = seeds();
    let steps = std::env::var("FUZZ_STEPS").ok().and_then(|s| s.parse().ok()).unwrap_or(600);
    for seed in lo..hi {
        eprintln!("seed {seed}");
        run(seed, steps, false);
    }
}

#[test]
fn fuzz_big_values() {
    let (lo, hi) = seeds();
    let steps = std::env::var("FUZZ_STEPS").ok().and_then(|s| s.parse().ok()).unwrap_or(300);
    for seed in lo..hi {
        eprintln!("big seed {seed}");
        run(seed + 1_000_000, steps, true);
    }
}
