// In-memory recording file system with POSIX-like semantics (inode based, unlink keeps open
// handles working, rename replaces). Every mutating operation is appended to an operation log so
// that the image "after the first k operations" can be rebuilt by replay.
#![allow(dead_code)]

use std::collections::{BTreeMap, BTreeSet};
use std::io::{self, Read, Seek, SeekFrom, Write};
use std::path::{Path, PathBuf};
use std::sync::atomic::{AtomicU64, Ordering};
use std::sync::{Arc, Mutex};

use raindb::fs::{
    FileLock, FileSystem, RandomAccessFile, ReadonlyRandomAccessFile, UnlockableFile,
};

#[derive(Clone, Debug)]
pub enum Op {
    Mkdir(PathBuf),
    /// create (or truncate) a file at path
    Create {
        path: PathBuf,
        truncate: bool,
    },
    Write {
        ino: usize,
        offset: usize,
        data: Vec<u8>,
    },
    Rename(PathBuf, PathBuf),
    Remove(PathBuf),
    RemoveDirAll(PathBuf),
}

impl Op {
    pub fn describe(&self, img: &Image) -> String {
        match self {
            Op::Mkdir(p) => format!("mkdir {}", p.display()),
            Op::Create { path, truncate } => {
                format!("create {} truncate={}", path.display(), truncate)
            }
            Op::Write { ino, offset, data } => {
                let name = img
                    .files
                    .iter()
                    .find(|(_, i)| **i == *ino)
                    .map(|(p, _)| p.display().to_string())
                    .unwrap_or_else(|| format!("<ino {}>", ino));
                format!("write {} off={} len={}", name, offset, data.len())
            }
            Op::Rename(a, b) => format!("rename {} -> {}", a.display(), b.display()),
            Op::Remove(p) => format!("remove {}", p.display()),
            Op::RemoveDirAll(p) => format!("rmdir -r {}", p.display()),
        }
    }
}

#[derive(Clone, Default, Debug)]
pub struct Image {
    pub files: BTreeMap<PathBuf, usize>,
    pub inodes: Vec<Vec<u8>>,
    pub dirs: BTreeSet<PathBuf>,
}

impl Image {
    pub fn apply(&mut self, op: &Op) {
        match op {
            Op::Mkdir(p) => {
                self.dirs.insert(p.clone());
            }
            Op::Create { path, truncate } => {
                if let Some(ino) = self.files.get(path) {
                    if *truncate {
                        self.inodes[*ino].clear();
                    }
                } else {
                    self.inodes.push(vec![]);
                    self.files.insert(path.clone(), self.inodes.len() - 1);
                }
            }
            Op::Write { ino, offset, data } => {
                let f = &mut self.inodes[*ino];
                if f.len() < offset + data.len() {
                    f.resize(offset + data.len(), 0);
                }
                f[*offset..offset + data.len()].copy_from_slice(data);
            }
            Op::Rename(a, b) => {
                if let Some(ino) = self.files.remove(a) {
                    self.files.insert(b.clone(), ino);
                }
            }
            Op::Remove(p) => {
                self.files.remove(p);
            }
            Op::RemoveDirAll(p) => {
                let victims: Vec<PathBuf> = self
                    .files
                    .keys()
                    .filter(|f| f.starts_with(p))
                    .cloned()
                    .collect();
                for v in victims {
                    self.files.remove(&v);
                }
                let dvictims: Vec<PathBuf> =
                    self.dirs.iter().filter(|f| f.starts_with(p)).cloned().collect();
                for v in dvictims {
                    self.dirs.remove(&v);
                }
            }
        }
    }

    pub fn listing(&self) -> String {
        let mut s = String::new();
        for (p, ino) in &self.files {
            s.push_str(&format!("  {} ({} bytes)\n", p.display(), self.inodes[*ino].len()));
        }
        s
    }

    pub fn file(&self, p: &str) -> Option<&Vec<u8>> {
        self.files.get(Path::new(p)).map(|i| &self.inodes[*i])
    }
}

pub struct Shared {
    pub img: Mutex<Image>,
    pub log: Mutex<Vec<Op>>,
    pub record: bool,
    pub locks: Mutex<BTreeSet<PathBuf>>,
    pub nops: AtomicU64,
    /// Fail the n-th mutating operation (0 based) from now on with an I/O error; u64::MAX = never
    pub fail_at: AtomicU64,
    /// If true every mutating op after `fail_at` fails too
    pub fail_sticky: std::sync::atomic::AtomicBool,
}

#[derive(Clone)]
pub struct SimFs {
    pub sh: Arc<Shared>,
}

impl SimFs {
    pub fn new(img: Image, record: bool) -> SimFs {
        SimFs {
            sh: Arc::new(Shared {
                img: Mutex::new(img),
                log: Mutex::new(vec![]),
                record,
                locks: Mutex::new(BTreeSet::new()),
                nops: AtomicU64::new(0),
                fail_at: AtomicU64::new(u64::MAX),
                fail_sticky: std::sync::atomic::AtomicBool::new(false),
            }),
        }
    }

    pub fn nops(&self) -> u64 {
        self.sh.nops.load(Ordering::SeqCst)
    }

    pub fn image(&self) -> Image {
        self.sh.img.lock().unwrap().clone()
    }

    pub fn take_log(&self) -> Vec<Op> {
        std::mem::take(&mut *self.sh.log.lock().unwrap())
    }

    fn mutate(&self, op: Op) -> io::Result<()> {
        // hold the image lock across log + apply so that log order == apply order
        let mut img = self.sh.img.lock().unwrap();
        let n = self.sh.nops.load(Ordering::SeqCst);
        let fa = self.sh.fail_at.load(Ordering::SeqCst);
        if n == fa || (n > fa && self.sh.fail_sticky.load(Ordering::SeqCst)) {
            self.sh.nops.fetch_add(1, Ordering::SeqCst);
            return Err(io::Error::new(io::ErrorKind::Other, "injected fault"));
        }
        img.apply(&op);
        if self.sh.record {
            self.sh.log.lock().unwrap().push(op);
        }
        self.sh.nops.fetch_add(1, Ordering::SeqCst);
        Ok(())
    }

    fn parent_exists(&self, path: &Path) -> bool {
        match path.parent() {
            None => true,
            Some(p) if p.as_os_str().is_empty() => true,
            Some(p) => self.sh.img.lock().unwrap().dirs.contains(p),
        }
    }
}

pub struct Handle {
    fs: SimFs,
    ino: usize,
    pos: usize,
    append: bool,
}

impl Read for Handle {
    fn read(&mut self, buf: &mut [u8]) -> io::Result<usize> {
        let img = self.fs.sh.img.lock().unwrap();
        let f = &img.inodes[self.ino];
        if self.pos >= f.len() {
            return Ok(0);
        }
        let n = std::cmp::min(buf.len(), f.len() - self.pos);
        buf[..n].copy_from_slice(&f[self.pos..self.pos + n]);
        self.pos += n;
        Ok(n)
    }
}

impl Seek for Handle {
    fn seek(&mut self, pos: SeekFrom) -> io::Result<u64> {
        let len = self.fs.sh.img.lock().unwrap().inodes[self.ino].len() as i64;
        let np = match pos {
            SeekFrom::Start(o) => o as i64,
            SeekFrom::End(o) => len + o,
            SeekFrom::Current(o) => self.pos as i64 + o,
        };
        if np < 0 {
            return Err(io::Error::new(io::ErrorKind::InvalidInput, "negative seek"));
        }
        self.pos = np as usize;
        Ok(np as u64)
    }
}

impl Write for Handle {
    fn write(&mut self, buf: &[u8]) -> io::Result<usize> {
        if buf.is_empty() {
            return Ok(0);
        }
        let offset = if self.append {
            self.fs.sh.img.lock().unwrap().inodes[self.ino].len()
        } else {
            self.pos
        };
        self.fs.mutate(Op::Write {
            ino: self.ino,
            offset,
            data: buf.to_vec(),
        })?;
        self.pos = offset + buf.len();
        Ok(buf.len())
    }

    fn flush(&mut self) -> io::Result<()> {
        Ok(())
    }
}

impl ReadonlyRandomAccessFile for Handle {
    fn read_from(&self, buf: &mut [u8], offset: usize) -> io::Result<usize> {
        let img = self.fs.sh.img.lock().unwrap();
        let f = &img.inodes[self.ino];
        if offset >= f.len() {
            return Ok(0);
        }
        let n = std::cmp::min(buf.len(), f.len() - offset);
        buf[..n].copy_from_slice(&f[offset..offset + n]);
        Ok(n)
    }

    fn len(&self) -> io::Result<u64> {
        Ok(self.fs.sh.img.lock().unwrap().inodes[self.ino].len() as u64)
    }
}

impl RandomAccessFile for Handle {
    fn append(&mut self, buf: &[u8]) -> io::Result<usize> {
        let offset = self.fs.sh.img.lock().unwrap().inodes[self.ino].len();
        if buf.is_empty() {
            return Ok(0);
        }
        self.fs.mutate(Op::Write {
            ino: self.ino,
            offset,
            data: buf.to_vec(),
        })?;
        self.pos = offset + buf.len();
        Ok(buf.len())
    }
}

struct LockHandle {
    fs: SimFs,
    path: PathBuf,
}

impl UnlockableFile for LockHandle {
    fn unlock(&self) -> io::Result<()> {
        self.fs.sh.locks.lock().unwrap().remove(&self.path);
        Ok(())
    }
}

fn not_found(p: &Path) -> io::Error {
    io::Error::new(io::ErrorKind::NotFound, format!("not found: {}", p.display()))
}

impl FileSystem for SimFs {
    fn get_name(&self) -> String {
        "SimFs".to_string()
    }

    fn create_dir(&self, path: &Path) -> io::Result<()> {
        if self.sh.img.lock().unwrap().dirs.contains(path) {
            return Err(io::Error::new(io::ErrorKind::AlreadyExists, "exists"));
        }
        if !self.parent_exists(path) {
            return Err(not_found(path));
        }
        self.mutate(Op::Mkdir(path.to_path_buf()))
    }

    fn create_dir_all(&self, path: &Path) -> io::Result<()> {
        let mut cur = PathBuf::new();
        for c in path.components() {
            cur.push(c);
            if !self.sh.img.lock().unwrap().dirs.contains(&cur) {
                self.mutate(Op::Mkdir(cur.clone()))?;
            }
        }
        Ok(())
    }

    fn list_dir(&self, path: &Path) -> io::Result<Vec<PathBuf>> {
        let img = self.sh.img.lock().unwrap();
        if !img.dirs.contains(path) {
            return Err(not_found(path));
        }
        let mut out: Vec<PathBuf> = vec![];
        for f in img.files.keys() {
            if f.parent() == Some(path) {
                out.push(f.clone());
            }
        }
        for d in img.dirs.iter() {
            if d.parent() == Some(path) {
                out.push(d.clone());
            }
        }
        out.sort();
        Ok(out)
    }

    fn open_file(&self, path: &Path) -> io::Result<Box<dyn ReadonlyRandomAccessFile>> {
        let img = self.sh.img.lock().unwrap();
        match img.files.get(path) {
            Some(ino) => Ok(Box::new(Handle {
                fs: self.clone(),
                ino: *ino,
                pos: 0,
                append: false,
            })),
            None => Err(not_found(path)),
        }
    }

    fn rename(&self, from: &Path, to: &Path) -> io::Result<()> {
        if !self.sh.img.lock().unwrap().files.contains_key(from) {
            return Err(not_found(from));
        }
        self.mutate(Op::Rename(from.to_path_buf(), to.to_path_buf()))
    }

    fn create_file(&self, path: &Path, append: bool) -> io::Result<Box<dyn RandomAccessFile>> {
        if !self.parent_exists(path) {
            return Err(not_found(path));
        }
        let exists = self.sh.img.lock().unwrap().files.contains_key(path);
        if !(exists && append) {
            // creating a file or truncating one changes the image
            self.mutate(Op::Create {
                path: path.to_path_buf(),
                truncate: !append,
            })?;
        }
        let img = self.sh.img.lock().unwrap();
        let ino = *img.files.get(path).unwrap();
        Ok(Box::new(Handle {
            fs: self.clone(),
            ino,
            pos: 0,
            append,
        }))
    }

    fn remove_file(&self, path: &Path) -> io::Result<()> {
        if !self.sh.img.lock().unwrap().files.contains_key(path) {
            return Err(not_found(path));
        }
        self.mutate(Op::Remove(path.to_path_buf()))
    }

    fn remove_dir(&self, path: &Path) -> io::Result<()> {
        self.mutate(Op::RemoveDirAll(path.to_path_buf()))
    }

    fn remove_dir_all(&self, path: &Path) -> io::Result<()> {
        self.mutate(Op::RemoveDirAll(path.to_path_buf()))
    }

    fn get_file_size(&self, path: &Path) -> io::Result<u64> {
        let img = self.sh.img.lock().unwrap();
        match img.files.get(path) {
            Some(ino) => Ok(img.inodes[*ino].len() as u64),
            None => Err(not_found(path)),
        }
    }

    fn is_dir(&self, path: &Path) -> io::Result<bool> {
        let img = self.sh.img.lock().unwrap();
        if img.dirs.contains(path) {
            Ok(true)
        } else if img.files.contains_key(path) {
            Ok(false)
        } else {
            Err(not_found(path))
        }
    }

    fn lock_file(&self, path: &Path) -> io::Result<FileLock> {
        {
            let mut locks = self.sh.locks.lock().unwrap();
            if locks.contains(path) {
                return Err(io::Error::new(io::ErrorKind::WouldBlock, "locked"));
            }
            locks.insert(path.to_path_buf());
        }
        let exists = self.sh.img.lock().unwrap().files.contains_key(path);
        if !exists {
            if let Err(e) = self.mutate(Op::Create {
                path: path.to_path_buf(),
                truncate: true,
            }) {
                self.sh.locks.lock().unwrap().remove(path);
                return Err(e);
            }
        }
        Ok(FileLock::new(Box::new(LockHandle {
            fs: self.clone(),
            path: path.to_path_buf(),
        })))
    }
}
