// Crash-point sweep harness (search tool, not a deliverable demo).
// cargo test --offline --release --features verif --test audit_sweep -- --nocapture
#![allow(dead_code)]

mod simfs;

use std::collections::BTreeMap;
use std::sync::Arc;

use raindb::{Batch, DbOptions, RainDbIterator, ReadOptions, WriteOptions, DB};
use simfs::{Image, Op, SimFs};

pub type Model = BTreeMap<Vec<u8>, Vec<u8>>;
pub type WriteOps = Vec<(Vec<u8>, Option<Vec<u8>>)>;

#[derive(Clone, Debug)]
pub struct Cfg {
    pub memtable: usize,
    pub file_size: u64,
    pub block_size: usize,
    pub reuse: bool,
}

#[derive(Clone, Debug)]
pub enum Step {
    Write(WriteOps),
    Compact(Option<Vec<u8>>, Option<Vec<u8>>),
    Get(Vec<u8>),
    Scan,
}

pub struct Rng(pub u64);
impl Rng {
    pub fn next(&mut self) -> u64 {
        let mut x = self.0;
        x ^= x << 13;
        x ^= x >> 7;
        x ^= x << 17;
        self.0 = x;
        x.wrapping_mul(0x2545F4914F6CDD1D)
    }
    pub fn below(&mut self, n: u64) -> u64 {
        self.next() % n
    }
}

thread_local! {
    static BASE: std::cell::RefCell<(u64, Option<DbOptions>)> = std::cell::RefCell::new((0, None));
}

pub fn options(fs: &SimFs, cfg: &Cfg) -> DbOptions {
    // DbOptions::default() allocates a hash map with 8M slots for the block cache: do it once and
    // share the cache (cache keys carry an id that is unique per opened table)
    // but the shared cache only evicts after 8M entries, so replace it regularly
    let base = BASE.with(|b| {
        let mut b = b.borrow_mut();
        b.0 += 1;
        if b.0 % 64 == 1 || b.1.is_none() {
            b.1 = Some(DbOptions::default());
        }
        b.1.clone().unwrap()
    });
    DbOptions {
        db_path: "db".to_string(),
        max_memtable_size: cfg.memtable,
        max_file_size: cfg.file_size,
        max_block_size: cfg.block_size,
        filesystem_provider: Arc::new(fs.clone()),
        create_if_missing: true,
        error_if_exists: false,
        reuse_log_files: cfg.reuse,
        ..base
    }
}

pub fn apply_to_model(m: &mut Model, w: &WriteOps) {
    for (k, v) in w {
        match v {
            Some(v) => {
                m.insert(k.clone(), v.clone());
            }
            None => {
                m.remove(k);
            }
        }
    }
}

pub fn scan(db: &DB) -> Result<Model, String> {
    let mut it = db
        .new_iterator(ReadOptions::default())
        .map_err(|e| format!("new_iterator: {}", e))?;
    it.seek_to_first().map_err(|e| format!("seek_to_first: {}", e))?;
    let mut out = Model::new();
    while it.is_valid() {
        let (k, v) = it.current().unwrap();
        if out.insert(k.clone(), v.clone()).is_some() {
            return Err(format!("scan: duplicate key {:?}", short(k)));
        }
        it.next();
    }
    if let Some(e) = it.status() {
        return Err(format!("scan status: {}", e));
    }
    Ok(out)
}

pub fn short(b: &[u8]) -> String {
    if b.len() <= 24 {
        format!("{:?}", String::from_utf8_lossy(b))
    } else {
        format!("{:?}..(len {})", String::from_utf8_lossy(&b[..16]), b.len())
    }
}

pub fn diff(a: &Model, b: &Model) -> String {
    let mut s = String::new();
    for (k, v) in a {
        match b.get(k) {
            None => s.push_str(&format!(" db has extra {}={};", short(k), short(v))),
            Some(bv) if bv != v => {
                s.push_str(&format!(" {}: db {} model {};", short(k), short(v), short(bv)))
            }
            _ => {}
        }
    }
    for (k, v) in b {
        if !a.contains_key(k) {
            s.push_str(&format!(" db lacks {}={};", short(k), short(v)));
        }
    }
    s
}

/// Compare the database with the allowed models. Returns the index of the matching model.
pub fn verify(db: &DB, allowed: &[Model], universe: &[Vec<u8>]) -> Result<usize, String> {
    let got = scan(db)?;
    let idx = allowed.iter().position(|m| *m == got);
    let idx = match idx {
        Some(i) => i,
        None => {
            let mut s = String::from("contents match none of the allowed states:");
            for (i, m) in allowed.iter().enumerate() {
                s.push_str(&format!("\n   vs allowed[{}]:{}", i, diff(&got, m)));
            }
            return Err(s);
        }
    };
    for k in universe {
        let r = db.get(ReadOptions::default(), k);
        match (r, allowed[idx].get(k)) {
            (Ok(v), Some(mv)) if v == *mv => {}
            (Err(raindb::RainDBError::KeyNotFound), None) => {}
            (r, mv) => {
                return Err(format!(
                    "get({}) = {:?} but model has {:?}",
                    short(k),
                    r.map(|v| short(&v)),
                    mv.map(|v| short(v))
                ))
            }
        }
    }
    Ok(idx)
}

pub struct Span {
    pub start: u64,
    pub ack: u64,
    pub ops: WriteOps,
    pub ok: bool,
}

pub struct Session {
    pub log: Vec<Op>,
    pub open_done: u64,
    pub resolved: Model,
    pub spans: Vec<Span>,
    pub final_model: Model,
    pub final_image: Image,
}

pub fn to_batch(w: &WriteOps) -> Batch {
    let mut b = Batch::new();
    for (k, v) in w {
        match v {
            Some(v) => {
                b.add_put(k.clone(), v.clone());
            }
            None => {
                b.add_delete(k.clone());
            }
        }
    }
    b
}

/// Open the database on `image`, check that its contents are one of `allowed`, run `steps`
/// (checking reads on the way), close cleanly.
pub fn run_session(
    image: &Image,
    allowed: &[Model],
    cfg: &Cfg,
    steps: &[Step],
    universe: &[Vec<u8>],
    record: bool,
) -> Result<Session, String> {
    let fs = SimFs::new(image.clone(), record);
    let db = DB::open(options(&fs, cfg)).map_err(|e| format!("open failed: {}", e))?;
    let idx = verify(&db, allowed, universe).map_err(|e| format!("after open: {}", e))?;
    let open_done = fs.nops();
    let resolved = allowed[idx].clone();
    let mut model = resolved.clone();
    let mut spans = vec![];
    for (si, step) in steps.iter().enumerate() {
        match step {
            Step::Write(w) => {
                let start = fs.nops();
                let r = db.apply(WriteOptions::default(), to_batch(w));
                let ack = fs.nops();
                if let Err(e) = &r {
                    return Err(format!("step {}: write failed: {}", si, e));
                }
                apply_to_model(&mut model, w);
                spans.push(Span {
                    start,
                    ack,
                    ops: w.clone(),
                    ok: r.is_ok(),
                });
            }
            Step::Compact(a, b) => {
                db.compact_range(a.as_deref()..b.as_deref());
            }
            Step::Get(k) => {
                let r = db.get(ReadOptions::default(), k);
                match (r, model.get(k)) {
                    (Ok(v), Some(mv)) if v == *mv => {}
                    (Err(raindb::RainDBError::KeyNotFound), None) => {}
                    (r, mv) => {
                        return Err(format!(
                            "step {}: get({}) = {:?} but model has {:?}",
                            si,
                            short(k),
                            r.map(|v| short(&v)),
                            mv.map(|v| short(v))
                        ))
                    }
                }
            }
            Step::Scan => {
                verify(&db, &[model.clone()], &[]).map_err(|e| format!("step {}: {}", si, e))?;
            }
        }
    }
    verify(&db, &[model.clone()], universe).map_err(|e| format!("after steps: {}", e))?;
    drop(db);
    Ok(Session {
        log: fs.take_log(),
        open_done,
        resolved,
        spans,
        final_model: model,
        final_image: fs.image(),
    })
}

/// Allowed states for a crash that keeps the first k operations of the session.
pub fn allowed_at(s: &Session, base_allowed: &[Model], k: u64) -> Vec<Model> {
    if k < s.open_done {
        // the recovery had not finished: whatever was allowed before
        // (strictly, the state is already decided on disk, but we have not observed it)
        let mut v = base_allowed.to_vec();
        if !v.contains(&s.resolved) {
            v.push(s.resolved.clone());
        }
        return v;
    }
    let mut m = s.resolved.clone();
    let mut out = vec![];
    for sp in &s.spans {
        if sp.ack <= k {
            apply_to_model(&mut m, &sp.ops);
        } else if sp.start < k {
            let mut m2 = m.clone();
            apply_to_model(&mut m2, &sp.ops);
            out.push(m2);
            break;
        } else {
            break;
        }
    }
    out.insert(0, m);
    out
}

pub struct SweepStats {
    pub checks: u64,
}

/// Sweep all crash points of session `s` (which started from `image`).
#[allow(clippy::too_many_arguments)]
pub fn sweep(
    s: &Session,
    image: &Image,
    base_allowed: &[Model],
    rec_cfgs: &[Cfg],
    post: &[Step],
    universe: &[Vec<u8>],
    depth: usize,
    stride: usize,
    stats: &mut SweepStats,
    trail: &str,
) -> Result<(), String> {
    let mut img = image.clone();
    for k in 0..=s.log.len() {
        if k > 0 {
            img.apply(&s.log[k - 1]);
        }
        if stride > 1 && k % stride != 0 && k != s.log.len() {
            continue;
        }
        let allowed = allowed_at(s, base_allowed, k as u64);
        for (ci, rc) in rec_cfgs.iter().enumerate() {
            stats.checks += 1;
            let here = format!(
                "{} -> crash after op {}/{} [{}] recover with cfg#{} {:?}",
                trail,
                k,
                s.log.len(),
                if k > 0 {
                    s.log[k - 1].describe(&img)
                } else {
                    "start".to_string()
                },
                ci,
                rc
            );
            let r = run_session(&img, &allowed, rc, post, universe, depth > 0);
            let rs = match r {
                Ok(rs) => rs,
                Err(e) => {
                    return Err(format!("{}\n  FAIL: {}\n  files:\n{}", here, e, img.listing()))
                }
            };
            // clean reopen after the post steps
            let r2 = run_session(
                &rs.final_image,
                &[rs.final_model.clone()],
                rc,
                &[],
                universe,
                false,
            );
            if let Err(e) = r2 {
                return Err(format!("{}\n  FAIL at clean reopen after recovery: {}", here, e));
            }
            if depth > 0 {
                sweep(
                    &rs, &img, &allowed, rec_cfgs, post, universe, depth - 1, 1, stats, &here,
                )?;
            }
        }
    }
    Ok(())
}

pub fn key(i: u64, long: bool) -> Vec<u8> {
    if long {
        let mut k = format!("key{:03}", i).into_bytes();
        k.resize(env_u64("KEYLEN", 300) as usize, b'x');
        k
    } else {
        format!("key{:03}", i).into_bytes()
    }
}

pub fn value(counter: u64, len: usize) -> Vec<u8> {
    let mut v = format!("v{}:", counter).into_bytes();
    let mut x = counter.wrapping_mul(0x9E3779B97F4A7C15) | 1;
    while v.len() < len {
        x ^= x << 13;
        x ^= x >> 7;
        x ^= x << 17;
        v.push(b'a' + (x % 26) as u8);
    }
    v
}

pub struct Gen {
    pub rng: Rng,
    pub counter: u64,
    pub nkeys: u64,
    pub val_sizes: Vec<usize>,
    pub long_keys: bool,
    pub compact_pct: u64,
    pub batch_max: u64,
}

impl Gen {
    pub fn universe(&self) -> Vec<Vec<u8>> {
        (0..self.nkeys).map(|i| key(i, self.long_keys && i % 3 == 0)).collect()
    }

    pub fn steps(&mut self, n: usize) -> Vec<Step> {
        let mut out = vec![];
        for _ in 0..n {
            let r = self.rng.below(100);
            if r < self.compact_pct {
                match self.rng.below(3) {
                    0 => out.push(Step::Compact(None, None)),
                    1 => {
                        let a = self.rng.below(self.nkeys);
                        let b = self.rng.below(self.nkeys);
                        out.push(Step::Compact(
                            Some(key(a.min(b), false)),
                            Some(key(a.max(b), false)),
                        ))
                    }
                    _ => out.push(Step::Compact(Some(key(self.rng.below(self.nkeys), false)), None)),
                }
            } else if r < self.compact_pct + 5 {
                out.push(Step::Get(self.any_key()));
            } else {
                let nb = 1 + self.rng.below(self.batch_max);
                let mut w = vec![];
                for _ in 0..nb {
                    let k = self.any_key();
                    if self.rng.below(100) < 20 {
                        w.push((k, None));
                    } else {
                        self.counter += 1;
                        let sz = self.val_sizes[self.rng.below(self.val_sizes.len() as u64) as usize];
                        w.push((k, Some(value(self.counter, sz))));
                    }
                }
                out.push(Step::Write(w));
            }
        }
        out
    }

    fn any_key(&mut self) -> Vec<u8> {
        let i = self.rng.below(self.nkeys);
        key(i, self.long_keys && i % 3 == 0)
    }
}

fn env_u64(name: &str, default: u64) -> u64 {
    std::env::var(name).ok().and_then(|v| v.parse().ok()).unwrap_or(default)
}


fn one_seed(seed: u64, nsteps: usize, depth: usize, stride: usize, sessions: u64) -> Result<u64, String> {
    let mut total = 0u64;
    let mut rng = Rng(seed.wrapping_mul(0x9E3779B97F4A7C15) | 1);
    let memtables = [200usize, 1000, 4000, 20000, 100000, 4 << 20];
    let files = [300u64, 2000, 20000, 2 << 20];
    let blocks = [1usize, 64, 512, 4096];
    let mk_cfg = |rng: &mut Rng| Cfg {
        memtable: memtables[rng.below(memtables.len() as u64) as usize],
        file_size: files[rng.below(files.len() as u64) as usize],
        block_size: blocks[rng.below(blocks.len() as u64) as usize],
        reuse: rng.below(2) == 0,
    };
    let val_sets: [Vec<usize>; 4] = [
        vec![10, 100],
        vec![10, 1000, 40000],
        vec![33000, 70000, 10],
        vec![0, 5, 32750, 32760],
    ];
    let vs = val_sets[rng.below(4) as usize].clone();
    let mut gen = Gen {
        rng: Rng(rng.next() | 1),
        counter: 0,
        nkeys: 4 + rng.below(20),
        val_sizes: vs,
        long_keys: rng.below(3) == 0,
        compact_pct: [0, 3, 10][rng.below(3) as usize],
        batch_max: [1, 3, 8][rng.below(3) as usize],
    };
    let universe = gen.universe();
    let mut image = Image::default();
    let mut model = Model::new();
    for sess in 0..sessions {
        let cfg = mk_cfg(&mut rng);
        let steps = gen.steps(nsteps);
        let post = gen.steps(3);
        let rec_cfgs = vec![
            cfg.clone(),
            Cfg {
                reuse: !cfg.reuse,
                ..mk_cfg(&mut rng)
            },
        ];
        let trail = format!("seed {} session {} cfg {:?}", seed, sess, cfg);
        let s = match run_session(&image, &[model.clone()], &cfg, &steps, &universe, true) {
            Ok(s) => s,
            Err(e) => return Err(format!("{}\n  plain run FAILED: {}", trail, e)),
        };
        let mut stats = SweepStats { checks: 0 };
        sweep(
            &s,
            &image,
            &[model.clone()],
            &rec_cfgs,
            &post,
            &universe,
            depth,
            stride,
            &mut stats,
            &trail,
        )?;
        println!("{}: {} ops, {} checks ok", trail, s.log.len(), stats.checks);
        total += stats.checks;
        image = s.final_image;
        model = s.final_model;
    }
    Ok(total)
}

#[test]
fn sweep_random() {
    let seeds = env_u64("SEEDS", 4);
    let seed0 = env_u64("SEED0", 1);
    let nsteps = env_u64("NSTEPS", 40) as usize;
    let depth = env_u64("DEPTH", 1) as usize;
    let stride = env_u64("STRIDE", 1) as usize;
    let sessions = env_u64("SESSIONS", 2);
    let threads = env_u64("THREADS", 8);
    let next = Arc::new(std::sync::atomic::AtomicU64::new(seed0));
    let total = Arc::new(std::sync::atomic::AtomicU64::new(0));
    let fails = Arc::new(std::sync::Mutex::new(Vec::<String>::new()));
    let mut hs = vec![];
    for _ in 0..threads {
        let next = next.clone();
        let total = total.clone();
        let fails = fails.clone();
        hs.push(std::thread::spawn(move || loop {
            let seed = next.fetch_add(1, std::sync::atomic::Ordering::SeqCst);
            if seed >= seed0 + seeds {
                break;
            }
            match one_seed(seed, nsteps, depth, stride, sessions) {
                Ok(n) => {
                    total.fetch_add(n, std::sync::atomic::Ordering::SeqCst);
                }
                Err(e) => {
                    println!("FAILURE: {}", e);
                    fails.lock().unwrap().push(e);
                }
            }
        }));
    }
    for h in hs {
        h.join().unwrap();
    }
    println!("total checks: {}", total.load(std::sync::atomic::Ordering::SeqCst));
    let f = fails.lock().unwrap();
    assert!(f.is_empty(), "{} failing seeds", f.len());
}


/// Run a session in which the `fail_at`-th mutating operation fails (once, or from then on if
/// `sticky`). Returns the final image and the set of allowed models.
pub fn run_faulty_session(
    image: &Image,
    allowed: &[Model],
    cfg: &Cfg,
    steps: &[Step],
    fail_at: u64,
    sticky: bool,
) -> Result<(Image, Vec<Model>, u64, String), String> {
    use std::sync::atomic::Ordering;
    let fs = SimFs::new(image.clone(), false);
    fs.sh.fail_at.store(fail_at, Ordering::SeqCst);
    fs.sh.fail_sticky.store(sticky, Ordering::SeqCst);
    let mut note = String::new();
    let db = match DB::open(options(&fs, cfg)) {
        Ok(db) => db,
        Err(e) => {
            // a failed open must leave the database recoverable
            fs.sh.fail_at.store(u64::MAX, Ordering::SeqCst);
            return Ok((fs.image(), allowed.to_vec(), fs.nops(), format!("open failed: {}", e)));
        }
    };
    let mut cands: Vec<Model> = allowed.to_vec();
    let mut nfailed = 0;
    for step in steps.iter() {
        match step {
            Step::Write(w) => {
                let r = db.apply(WriteOptions::default(), to_batch(w));
                match r {
                    Ok(()) => {
                        for c in cands.iter_mut() {
                            apply_to_model(c, w);
                        }
                    }
                    Err(e) => {
                        nfailed += 1;
                        if note.is_empty() {
                            note = format!("first write error: {}", e);
                        }
                        if cands.len() <= 16 {
                            let mut more = vec![];
                            for c in cands.iter() {
                                let mut c2 = c.clone();
                                apply_to_model(&mut c2, w);
                                if !cands.contains(&c2) {
                                    more.push(c2);
                                }
                            }
                            cands.extend(more);
                        }
                    }
                }
            }
            Step::Compact(a, b) => {
                db.compact_range(a.as_deref()..b.as_deref());
            }
            _ => {}
        }
    }
    let _ = nfailed;
    drop(db);
    fs.sh.fail_at.store(u64::MAX, Ordering::SeqCst);
    Ok((fs.image(), cands, fs.nops(), note))
}

fn one_fault_seed(seed: u64, nsteps: usize) -> Result<u64, String> {
    let mut rng = Rng(seed.wrapping_mul(0x9E3779B97F4A7C15) | 1);
    let memtables = [200usize, 1000, 4000, 20000, 4 << 20];
    let files = [300u64, 2000, 20000, 2 << 20];
    let blocks = [1usize, 64, 4096];
    let mk_cfg = |rng: &mut Rng| Cfg {
        memtable: memtables[rng.below(memtables.len() as u64) as usize],
        file_size: files[rng.below(files.len() as u64) as usize],
        block_size: blocks[rng.below(blocks.len() as u64) as usize],
        reuse: rng.below(2) == 0,
    };
    let val_sets: [Vec<usize>; 3] = [vec![10, 100], vec![10, 1000, 40000], vec![33000, 70000, 10]];
    let vs = val_sets[rng.below(3) as usize].clone();
    let mut gen = Gen {
        rng: Rng(rng.next() | 1),
        counter: 0,
        nkeys: 4 + rng.below(12),
        val_sizes: vs,
        long_keys: false,
        compact_pct: [0, 5, 10][rng.below(3) as usize],
        batch_max: [1, 3][rng.below(2) as usize],
    };
    let universe = gen.universe();
    let cfg = mk_cfg(&mut rng);
    // a prefix session without faults to get a populated database
    let pre = gen.steps(nsteps);
    let s0 = run_session(&Image::default(), &[Model::new()], &cfg, &pre, &universe, false)
        .map_err(|e| format!("seed {} pre-session: {}", seed, e))?;
    let steps = gen.steps(nsteps);
    let post = gen.steps(3);
    let s1 = run_session(&s0.final_image, &[s0.final_model.clone()], &cfg, &steps, &universe, true)
        .map_err(|e| format!("seed {} plain session: {}", seed, e))?;
    let n = s1.log.len() as u64 + 3;
    let mut checks = 0;
    for sticky in [false, true] {
        for j in 0..n {
            let (img, cands, _nops, note) = run_faulty_session(
                &s0.final_image,
                &[s0.final_model.clone()],
                &cfg,
                &steps,
                j,
                sticky,
            )?;
            checks += 1;
            let here = format!(
                "fault seed {} cfg {:?} fail_at {} sticky {} ({})",
                seed, cfg, j, sticky, note
            );
            let rs = run_session(&img, &cands, &cfg, &post, &universe, false)
                .map_err(|e| format!("{}\n  FAIL on reopen after fault: {}\n{}", here, e, img.listing()))?;
            run_session(&rs.final_image, &[rs.final_model.clone()], &cfg, &[], &universe, false)
                .map_err(|e| format!("{}\n  FAIL on second reopen: {}", here, e))?;
        }
    }
    println!("fault seed {} cfg {:?}: {} ops, {} checks ok", seed, cfg, n, checks);
    Ok(checks)
}

#[test]
fn sweep_faults() {
    let seeds = env_u64("SEEDS", 4);
    let seed0 = env_u64("SEED0", 1);
    let nsteps = env_u64("NSTEPS", 25) as usize;
    let threads = env_u64("THREADS", 6);
    let next = Arc::new(std::sync::atomic::AtomicU64::new(seed0));
    let total = Arc::new(std::sync::atomic::AtomicU64::new(0));
    let fails = Arc::new(std::sync::Mutex::new(Vec::<String>::new()));
    let mut hs = vec![];
    for _ in 0..threads {
        let next = next.clone();
        let total = total.clone();
        let fails = fails.clone();
        hs.push(std::thread::spawn(move || loop {
            let seed = next.fetch_add(1, std::sync::atomic::Ordering::SeqCst);
            if seed >= seed0 + seeds {
                break;
            }
            match one_fault_seed(seed, nsteps) {
                Ok(n) => {
                    total.fetch_add(n, std::sync::atomic::Ordering::SeqCst);
                }
                Err(e) => {
                    println!("FAILURE: {}", e);
                    fails.lock().unwrap().push(e);
                }
            }
        }));
    }
    for h in hs {
        h.join().unwrap();
    }
    println!("total fault checks: {}", total.load(std::sync::atomic::Ordering::SeqCst));
    let f = fails.lock().unwrap();
    assert!(f.is_empty(), "{} failing seeds", f.len());
}


#[test]
fn sweep_boundaries() {
    // first record leaves r bytes in the first 32 KiB block of the WAL
    let universe: Vec<Vec<u8>> = (0..4).map(|i| key(i, false)).collect();
    let mut total = 0;
    let rmax = env_u64("RMAX", 16);
    for r in 0..=rmax {
        for variant in 0..3 {
            let vlen = (32741 - r) as usize;
            let mut steps = vec![Step::Write(vec![(key(0, false), Some(value(1, vlen)))])];
            match variant {
                0 => {
                    steps.push(Step::Write(vec![(key(1, false), Some(value(2, 10)))]));
                    steps.push(Step::Write(vec![(key(2, false), Some(value(3, 70000)))]));
                }
                1 => {
                    steps.push(Step::Write(vec![]));
                    steps.push(Step::Write(vec![(key(1, false), None)]));
                    steps.push(Step::Write(vec![(key(2, false), Some(value(3, 32741)))]));
                }
                _ => {
                    steps.push(Step::Write(vec![(key(2, false), Some(value(3, 40000)))]));
                    steps.push(Step::Write(vec![(key(0, false), None)]));
                }
            }
            let post = vec![
                Step::Write(vec![(key(3, false), Some(value(9, 20)))]),
                Step::Write(vec![(key(1, false), Some(value(10, 33000)))]),
            ];
            for reuse in [true, false] {
                let cfg = Cfg { memtable: 4 << 20, file_size: 2 << 20, block_size: 4096, reuse };
                let rec = vec![cfg.clone(), Cfg { reuse: !reuse, ..cfg.clone() }];
                let trail = format!("boundary r={} variant={} reuse={}", r, variant, reuse);
                let img = Image::default();
                let s = run_session(&img, &[Model::new()], &cfg, &steps, &universe, true)
                    .unwrap_or_else(|e| panic!("{}: plain run failed: {}", trail, e));
                let mut stats = SweepStats { checks: 0 };
                if let Err(e) = sweep(&s, &img, &[Model::new()], &rec, &post, &universe, env_u64("DEPTH", 1) as usize, 1, &mut stats, &trail) {
                    panic!("{}", e);
                }
                total += stats.checks;
            }
        }
        println!("r={} done, total checks {}", r, total);
    }
}
