//! Audit demonstration for the property "The reported LSM shape is always well formed".
//!
//! Run with: cargo test --offline --features verif --test audit_demo -- --test-threads=1
#![cfg(feature = "verif")]
#![allow(dead_code)]

use std::cmp::Ordering;
use std::collections::{BTreeMap, HashSet};
use std::sync::Arc;
use std::time::{Duration, Instant};

use raindb::db::DatabaseDescriptor;
use raindb::fs::{FileSystem, InMemoryFileSystem};
use raindb::verif::{FileInfo, KeyInfo};
use raindb::{Batch, DbOptions, ReadOptions, WriteOptions, DB};

// ------------------------------------------------------------------------------------------------
// The oracle
// ------------------------------------------------------------------------------------------------

const NUM_LEVELS: usize = 7;

fn ikey_cmp(a: &KeyInfo, b: &KeyInfo) -> Ordering {
    a.user_key
        .cmp(&b.user_key)
        .then(b.sequence.cmp(&a.sequence))
}

fn fmt_key(key: &KeyInfo) -> String {
    format!(
        "{} @ {} : {:?}",
        String::from_utf8_lossy(&key.user_key).escape_debug(),
        key.sequence,
        key.operation
    )
}

/// Wait until no flush or compaction is pending or running. Returns the sticky error if there is
/// one (the layout is then still checked by the callers that want to).
fn wait_quiescent(db: &DB) -> Result<(), String> {
    let deadline = Instant::now() + Duration::from_secs(120);
    let mut calm_rounds = 0;
    loop {
        let probe = db.verif_probe();
        if let Some(err) = probe.bad_state.clone() {
            if !probe.background_compaction_scheduled {
                return Err(err);
            }
        }
        if !probe.has_immutable_memtable
            && !probe.background_compaction_scheduled
            && !probe.needs_compaction
            && !probe.manual_compaction_pending
        {
            calm_rounds += 1;
            if calm_rounds >= 3 {
                return Ok(());
            }
        } else {
            calm_rounds = 0;
        }
        if Instant::now() > deadline {
            panic!("HARNESS: the database did not quiesce within 120 s: {probe:?}");
        }
        std::thread::sleep(Duration::from_millis(2));
    }
}

/// Read every entry of a table file.
fn read_table(options: &DbOptions, number: u64) -> Result<Vec<KeyInfo>, String> {
    let reader = raindb::verif::table::open(options, number)?;
    let mut cursor = reader.cursor(false);
    cursor.seek_to_first()?;
    let mut keys = vec![];
    let mut current = cursor.current();
    while let Some((key, _value)) = current {
        keys.push(key);
        current = cursor.next();
    }
    Ok(keys)
}

/// Check the statement of the property against the layout the database reports at this moment.
/// Returns the list of violations.
fn shape_violations(db: &DB, options: &DbOptions, context: &str) -> Vec<String> {
    let mut violations: Vec<String> = vec![];
    let files: Vec<FileInfo> = db.verif_files();

    // The public descriptors must describe the same layout as the accessor
    let mut expected_sstables = String::new();
    for level in 0..NUM_LEVELS {
        let level_files: Vec<&FileInfo> = files.iter().filter(|f| f.level == level).collect();
        let reported = db
            .get_descriptor(DatabaseDescriptor::NumFilesAtLevel(level))
            .unwrap();
        if reported != level_files.len().to_string() {
            violations.push(format!(
                "[{context}] NumFilesAtLevel({level}) reports {reported} but the layout has {} files",
                level_files.len()
            ));
        }
        expected_sstables.push_str(&format!("--- Level {level} ---\n"));
        for file in level_files {
            expected_sstables.push_str(&format!(
                "{} (size: {})[{}..{}]\n",
                file.number,
                file.size,
                fmt_key(&file.smallest),
                fmt_key(&file.largest)
            ));
        }
    }
    let sstables = db.get_descriptor(DatabaseDescriptor::SSTables).unwrap();
    if sstables != expected_sstables {
        violations.push(format!(
            "[{context}] the SSTables descriptor differs from the layout.\n--- descriptor:\n{sstables}\n--- layout:\n{expected_sstables}"
        ));
    }

    // No file number appears twice
    let mut seen: HashSet<u64> = HashSet::new();
    for file in &files {
        if !seen.insert(file.number) {
            violations.push(format!(
                "[{context}] file number {} appears more than once in the layout: {:?}",
                file.number,
                files
                    .iter()
                    .filter(|f| f.number == file.number)
                    .map(|f| f.level)
                    .collect::<Vec<_>>()
            ));
        }
    }

    // smallest <= largest, order and disjointness in levels >= 1
    for file in &files {
        if ikey_cmp(&file.smallest, &file.largest) == Ordering::Greater {
            violations.push(format!(
                "[{context}] file {} at level {} has smallest {} > largest {}",
                file.number,
                file.level,
                fmt_key(&file.smallest),
                fmt_key(&file.largest)
            ));
        }
    }
    for level in 1..NUM_LEVELS {
        let level_files: Vec<&FileInfo> = files.iter().filter(|f| f.level == level).collect();
        for pair in level_files.windows(2) {
            if ikey_cmp(&pair[0].largest, &pair[1].smallest) != Ordering::Less {
                violations.push(format!(
                    "[{context}] level {level}: file {} [{}..{}] is not strictly before file {} [{}..{}]",
                    pair[0].number,
                    fmt_key(&pair[0].smallest),
                    fmt_key(&pair[0].largest),
                    pair[1].number,
                    fmt_key(&pair[1].smallest),
                    fmt_key(&pair[1].largest)
                ));
            }
        }
    }

    // The recorded range bounds exactly the entries stored in the file
    for file in &files {
        match read_table(options, file.number) {
            Err(err) => violations.push(format!(
                "[{context}] file {} of level {} cannot be read: {err}",
                file.number, file.level
            )),
            Ok(keys) => {
                if keys.is_empty() {
                    violations.push(format!(
                        "[{context}] file {} of level {} has no entries",
                        file.number, file.level
                    ));
                    continue;
                }
                for pair in keys.windows(2) {
                    if ikey_cmp(&pair[0], &pair[1]) != Ordering::Less {
                        violations.push(format!(
                            "[{context}] file {}: entries out of order: {} then {}",
                            file.number,
                            fmt_key(&pair[0]),
                            fmt_key(&pair[1])
                        ));
                    }
                }
                let first = keys.first().unwrap();
                let last = keys.last().unwrap();
                if *first != file.smallest {
                    violations.push(format!(
                        "[{context}] file {} level {}: recorded smallest {} but the first entry is {}",
                        file.number,
                        file.level,
                        fmt_key(&file.smallest),
                        fmt_key(first)
                    ));
                }
                if *last != file.largest {
                    violations.push(format!(
                        "[{context}] file {} level {}: recorded largest {} but the last entry is {}",
                        file.number,
                        file.level,
                        fmt_key(&file.largest),
                        fmt_key(last)
                    ));
                }
            }
        }
    }

    violations
}

fn assert_shape(db: &DB, options: &DbOptions, context: &str) {
    // The property is about quiescent moments: only keep a verdict computed while nothing moved.
    let mut violations;
    let mut attempts = 0;
    loop {
        let _ = wait_quiescent(db);
        let before = db.verif_files();
        violations = shape_violations(db, options, context);
        let after = db.verif_files();
        let probe = db.verif_probe();
        let calm = !probe.has_immutable_memtable
            && !probe.background_compaction_scheduled
            && !probe.manual_compaction_pending;
        attempts += 1;
        if (before == after && calm) || attempts > 20 {
            break;
        }
    }
    assert!(
        violations.is_empty(),
        "PROPERTY VIOLATED (the reported LSM shape must be well formed):\n{}",
        violations.join("\n")
    );
}

// ------------------------------------------------------------------------------------------------
// Utilities
// ------------------------------------------------------------------------------------------------

struct Rng(u64);
impl Rng {
    fn next(&mut self) -> u64 {
        // xorshift64*
        self.0 ^= self.0 >> 12;
        self.0 ^= self.0 << 25;
        self.0 ^= self.0 >> 27;
        self.0.wrapping_mul(0x2545F4914F6CDD1D)
    }
    fn below(&mut self, n: u64) -> u64 {
        self.next() % n
    }
}

fn mem_options(
    fs: Arc<dyn FileSystem>,
    path: &str,
    memtable: usize,
    file: u64,
    block: usize,
    reuse: bool,
) -> DbOptions {
    DbOptions {
        db_path: path.to_string(),
        max_memtable_size: memtable,
        max_file_size: file,
        max_block_size: block,
        filesystem_provider: fs,
        create_if_missing: true,
        reuse_log_files: reuse,
        ..DbOptions::default()
    }
}

fn gen_key(rng: &mut Rng, key_space: u64) -> Vec<u8> {
    match rng.below(40) {
        0 => vec![],
        1 => vec![0xff],
        2 => vec![0xff, 0xff],
        3 => vec![0xff, 0xff, 0xff, 0xff],
        4 => vec![0x00],
        _ => format!("k{:05}", rng.below(key_space)).into_bytes(),
    }
}

fn gen_value(rng: &mut Rng) -> Vec<u8> {
    let len = match rng.below(50) {
        0 => 0,
        1 => 3000 + rng.below(3000) as usize,
        2 => 40_000,
        _ => rng.below(60) as usize,
    };
    let byte = b'a' + (rng.below(26) as u8);
    vec![byte; len]
}

// ------------------------------------------------------------------------------------------------
// Attack 1: random histories with tiny configurations, snapshots, manual compactions and reopens
// ------------------------------------------------------------------------------------------------

fn random_history(seed: u64, memtable: usize, file: u64, block: usize, reuse: bool, steps: usize) {
    let fs: Arc<dyn FileSystem> = Arc::new(InMemoryFileSystem::new());
    let options = mem_options(fs, "/audit/random", memtable, file, block, reuse);
    let mut rng = Rng(seed.wrapping_mul(0x9E3779B97F4A7C15) | 1);
    let mut db = Some(DB::open(options.clone()).unwrap());
    let mut snapshots = vec![];
    let key_space = 20 + rng.below(400);
    let mut model: BTreeMap<Vec<u8>, Vec<u8>> = BTreeMap::new();

    for step in 0..steps {
        let context = format!(
            "seed {seed} cfg ({memtable},{file},{block},{reuse}) step {step}"
        );
        let handle = db.as_ref().unwrap();
        match rng.below(1000) {
            0..=699 => {
                let key = gen_key(&mut rng, key_space);
                let value = gen_value(&mut rng);
                model.insert(key.clone(), value.clone());
                handle.put(WriteOptions::default(), key, value).unwrap();
            }
            700..=849 => {
                let key = gen_key(&mut rng, key_space);
                model.remove(&key);
                handle.delete(WriteOptions::default(), key).unwrap();
            }
            850..=899 => {
                let mut batch = Batch::new();
                for _ in 0..(1 + rng.below(30)) {
                    let key = gen_key(&mut rng, key_space);
                    if rng.below(4) == 0 {
                        model.remove(&key);
                        batch.add_delete(key);
                    } else {
                        let value = gen_value(&mut rng);
                        model.insert(key.clone(), value.clone());
                        batch.add_put(key, value);
                    }
                }
                handle.apply(WriteOptions::default(), batch).unwrap();
            }
            900..=929 => {
                // Reads (may trigger seek compactions)
                for _ in 0..50 {
                    let key = gen_key(&mut rng, key_space);
                    let got = handle.get(ReadOptions::default(), &key).ok();
                    assert_eq!(
                        got,
                        model.get(&key).cloned(),
                        "HARNESS(side check, not the property): wrong read of {key:?} at {context}"
                    );
                }
            }
            930..=949 => {
                if snapshots.len() < 4 {
                    snapshots.push(handle.get_snapshot());
                } else {
                    let idx = rng.below(snapshots.len() as u64) as usize;
                    handle.release_snapshot(snapshots.swap_remove(idx));
                }
            }
            950..=969 => {
                let a = gen_key(&mut rng, key_space);
                let b = gen_key(&mut rng, key_space);
                let (lo, hi) = if a <= b { (a, b) } else { (b, a) };
                match rng.below(4) {
                    0 => handle.compact_range(None..None),
                    1 => handle.compact_range(Some(lo.as_slice())..None),
                    2 => handle.compact_range(None..Some(hi.as_slice())),
                    _ => handle.compact_range(Some(lo.as_slice())..Some(hi.as_slice())),
                }
                wait_quiescent(handle).unwrap();
                assert_shape(handle, &options, &format!("{context} after compact_range"));
            }
            970..=989 => {
                wait_quiescent(handle).unwrap();
                assert_shape(handle, &options, &format!("{context} quiescent"));
            }
            _ => {
                wait_quiescent(handle).unwrap();
                assert_shape(handle, &options, &format!("{context} before close"));
                for snapshot in snapshots.drain(..) {
                    handle.release_snapshot(snapshot);
                }
                drop(db.take());
                db = Some(DB::open(options.clone()).unwrap());
                let handle = db.as_ref().unwrap();
                wait_quiescent(handle).unwrap();
                assert_shape(handle, &options, &format!("{context} after reopen"));
            }
        }
    }

    let handle = db.as_ref().unwrap();
    wait_quiescent(handle).unwrap();
    assert_shape(handle, &options, &format!("seed {seed} end"));
    for snapshot in snapshots.drain(..) {
        handle.release_snapshot(snapshot);
    }
}

#[test]
fn attack01_random_histories_tiny_config() {
    for seed in 1..=6 {
        random_history(seed, 600, 400, 200, seed % 2 == 0, 3000);
    }
}

#[test]
fn attack01_random_histories_small_config() {
    for seed in 11..=14 {
        random_history(seed, 4096, 2048, 512, seed % 2 == 0, 6000);
    }
}

#[test]
fn attack01_random_histories_mixed_config() {
    for seed in 21..=24 {
        random_history(seed, 20_000, 700, 100, seed % 2 == 0, 6000);
    }
}

// ------------------------------------------------------------------------------------------------
// Attack 2: degenerate configuration values (0 / 1 byte thresholds)
// ------------------------------------------------------------------------------------------------

#[test]
fn attack02_degenerate_configs() {
    let configs: [(usize, u64, usize); 6] = [
        // NOTE: max_memtable_size values below the footprint of an empty memtable (0, 1, ...) make
        // every write wait forever (an empty memtable already counts as full). That is a liveness
        // matter of a nonsensical configuration, not a matter of this property, so such values
        // are not used.
        (300, 0, 0),
        (250, 0, 1),
        (300, 1, 1),
        (300, 100_000, 4096),
        (2000, 50, 1),
        (100_000, 1, 100_000),
    ];
    let only: Option<usize> = std::env::var("AUDIT_CFG").ok().map(|v| v.parse().unwrap());
    for (idx, (memtable, file, block)) in configs.iter().enumerate() {
        if only.map_or(false, |o| o != idx) {
            continue;
        }
        eprintln!("config {idx}: {memtable} {file} {block}");
        random_history(100 + idx as u64, *memtable, *file, *block, idx % 2 == 0, 600);
    }
}

// ------------------------------------------------------------------------------------------------
// Attack 3: few user keys, many versions kept alive by snapshots, tiny files (user keys straddle
// file boundaries in every level), manual and automatic compactions, reopen
// ------------------------------------------------------------------------------------------------

#[test]
fn attack03_many_versions_of_few_keys() {
    for seed in 1..=4u64 {
        for reuse in [false, true] {
            let fs: Arc<dyn FileSystem> = Arc::new(InMemoryFileSystem::new());
            let options = mem_options(fs, "/audit/versions", 500, 300, 100, reuse);
            let mut rng = Rng(seed * 7919 + 13);
            let mut db = Some(DB::open(options.clone()).unwrap());
            let mut snapshots = vec![];
            for step in 0..2500 {
                let handle = db.as_ref().unwrap();
                let key = format!("key{}", rng.below(4)).into_bytes();
                if rng.below(5) == 0 {
                    handle.delete(WriteOptions::default(), key).unwrap();
                } else {
                    handle
                        .put(WriteOptions::default(), key, vec![b'v'; rng.below(40) as usize])
                        .unwrap();
                }
                if step % 3 == 0 {
                    snapshots.push(handle.get_snapshot());
                }
                if snapshots.len() > 150 {
                    // release half of them, oldest first or random
                    for _ in 0..75 {
                        let idx = rng.below(snapshots.len() as u64) as usize;
                        handle.release_snapshot(snapshots.swap_remove(idx));
                    }
                }
                if step % 197 == 0 {
                    let context = format!("versions seed {seed} reuse {reuse} step {step}");
                    match rng.below(3) {
                        0 => handle.compact_range(None..None),
                        1 => handle.compact_range(Some(b"key1".as_slice())..Some(b"key2".as_slice())),
                        _ => {}
                    }
                    assert_shape(handle, &options, &context);
                    if std::env::var("AUDIT_STATS").is_ok() {
                        eprintln!("{context}: {}", layout_stats(handle));
                    }
                }
                if step % 611 == 610 {
                    let context = format!("versions seed {seed} reuse {reuse} step {step} reopen");
                    for snapshot in snapshots.drain(..) {
                        handle.release_snapshot(snapshot);
                    }
                    assert_shape(handle, &options, &format!("{context} before close"));
                    drop(db.take());
                    db = Some(DB::open(options.clone()).unwrap());
                    assert_shape(db.as_ref().unwrap(), &options, &context);
                }
            }
            let handle = db.as_ref().unwrap();
            assert_shape(handle, &options, &format!("versions seed {seed} end"));
            for snapshot in snapshots.drain(..) {
                handle.release_snapshot(snapshot);
            }
        }
    }
}

/// Diagnostics only: how interesting is the layout?
fn layout_stats(db: &DB) -> String {
    let files = db.verif_files();
    let mut per_level = [0usize; NUM_LEVELS];
    let mut straddles = 0;
    for file in &files {
        per_level[file.level] += 1;
    }
    for level in 1..NUM_LEVELS {
        let level_files: Vec<&FileInfo> = files.iter().filter(|f| f.level == level).collect();
        for pair in level_files.windows(2) {
            if pair[0].largest.user_key == pair[1].smallest.user_key {
                straddles += 1;
            }
        }
    }
    format!("files per level {per_level:?}, user keys straddling two files: {straddles}")
}

// ------------------------------------------------------------------------------------------------
// Attack 4: incompressible large values so that the size triggers of levels 1 and 2 (10 MiB,
// 100 MiB) fire and the deeper levels get populated through automatic compactions
// ------------------------------------------------------------------------------------------------

fn random_bytes(rng: &mut Rng, len: usize) -> Vec<u8> {
    let mut out = Vec::with_capacity(len + 8);
    while out.len() < len {
        out.extend_from_slice(&rng.next().to_le_bytes());
    }
    out.truncate(len);
    out
}

#[test]
fn attack04_deep_levels_through_size_compactions() {
    let fs: Arc<dyn FileSystem> = Arc::new(InMemoryFileSystem::new());
    let options = mem_options(fs, "/audit/deep", 1 << 20, 1 << 19, 4096, false);
    let mut rng = Rng(0xDEE9);
    let mut db = Some(DB::open(options.clone()).unwrap());
    let total_puts: usize = std::env::var("AUDIT_DEEP_PUTS")
        .ok()
        .map(|v| v.parse().unwrap())
        .unwrap_or(1400);
    let mut deepest = 0;
    for step in 0..total_puts {
        let handle = db.as_ref().unwrap();
        let key = format!("key{:06}", rng.below(3000)).into_bytes();
        if rng.below(10) == 0 {
            handle.delete(WriteOptions::default(), key).unwrap();
        } else {
            let len = 100_000 + rng.below(150_000) as usize;
            let value = random_bytes(&mut rng, len);
            handle.put(WriteOptions::default(), key, value).unwrap();
        }
        if step % 100 == 99 {
            let context = format!("deep step {step}");
            assert_shape(handle, &options, &context);
            let files = handle.verif_files();
            deepest = deepest.max(files.iter().map(|f| f.level).max().unwrap_or(0));
            if std::env::var("AUDIT_STATS").is_ok() {
                eprintln!("{context}: {}", layout_stats(handle));
            }
        }
        if step % 450 == 449 {
            drop(db.take());
            db = Some(DB::open(options.clone()).unwrap());
            assert_shape(db.as_ref().unwrap(), &options, &format!("deep step {step} reopen"));
        }
    }
    let handle = db.as_ref().unwrap();
    handle.compact_range(Some(b"key001000".as_slice())..Some(b"key002000".as_slice()));
    assert_shape(handle, &options, "deep after partial compact_range");
    handle.compact_range(None..None);
    assert_shape(handle, &options, "deep after full compact_range");
    eprintln!("deepest level reached: {deepest}; final {}", layout_stats(handle));
    assert!(deepest >= 3, "HARNESS: the workload did not reach level 3");
}

// ------------------------------------------------------------------------------------------------
// Attack 5: concurrent writers, readers (seek compactions, read sampling), snapshot churn and
// manual compactions, with random delays injected at the scheduling points; the shape is checked
// every time the threads are parked and the database has quiesced, and after reopen
// ------------------------------------------------------------------------------------------------

struct JitterHandler {
    state: std::sync::atomic::AtomicU64,
    intensity: u64,
}

impl raindb::verif::Handler for JitterHandler {
    fn pause(&self, _point: &'static str, _args: &[u64]) {
        use std::sync::atomic::Ordering as O;
        let mut x = self.state.fetch_add(0x9E3779B97F4A7C15, O::Relaxed);
        x ^= x >> 31;
        x = x.wrapping_mul(0xBF58476D1CE4E5B9);
        x ^= x >> 29;
        match x % self.intensity {
            0 => std::thread::sleep(Duration::from_micros(50 + (x >> 8) % 2000)),
            1 | 2 => std::thread::yield_now(),
            _ => {}
        }
    }

    fn note(&self, _point: &'static str, _args: &[u64]) {}
}

fn concurrent_round(seed: u64, memtable: usize, file: u64, block: usize, reuse: bool) {
    use std::sync::atomic::{AtomicBool, Ordering as O};

    let fs: Arc<dyn FileSystem> = Arc::new(InMemoryFileSystem::new());
    let options = mem_options(fs, "/audit/concurrent", memtable, file, block, reuse);
    raindb::verif::set_handler(Some(Arc::new(JitterHandler {
        state: std::sync::atomic::AtomicU64::new(seed),
        intensity: 6,
    })));

    for round in 0..4 {
        let db = Arc::new(DB::open(options.clone()).unwrap());
        for burst in 0..5 {
            let stop = Arc::new(AtomicBool::new(false));
            let mut threads = vec![];
            for writer in 0..3u64 {
                let db = Arc::clone(&db);
                let stop = Arc::clone(&stop);
                threads.push(std::thread::spawn(move || {
                    let mut rng = Rng(seed * 1000 + round * 100 + burst * 10 + writer + 1);
                    let mut count = 0;
                    while !stop.load(O::Relaxed) && count < 700 {
                        count += 1;
                        let key = format!("k{:04}", rng.below(300)).into_bytes();
                        let result = if rng.below(6) == 0 {
                            db.delete(WriteOptions::default(), key)
                        } else {
                            let len = rng.below(80) as usize;
                            db.put(WriteOptions::default(), key, vec![b'x'; len])
                        };
                        result.expect("HARNESS(side check): a write failed");
                    }
                }));
            }
            for reader in 0..2u64 {
                let db = Arc::clone(&db);
                let stop = Arc::clone(&stop);
                threads.push(std::thread::spawn(move || {
                    let mut rng = Rng(seed * 77 + round * 100 + burst * 10 + reader + 5);
                    while !stop.load(O::Relaxed) {
                        if rng.below(20) == 0 {
                            use raindb::RainDbIterator;
                            let mut iter = db.new_iterator(ReadOptions::default()).unwrap();
                            let _ = iter.seek_to_first();
                            let mut n = 0;
                            while iter.is_valid() && n < 500 {
                                n += 1;
                                if iter.next().is_none() {
                                    break;
                                }
                            }
                        } else {
                            // keys that mostly do not exist make reads consult several files
                            let key = format!("k{:04}x", rng.below(300)).into_bytes();
                            let _ = db.get(ReadOptions::default(), &key);
                        }
                    }
                }));
            }
            {
                let db = Arc::clone(&db);
                let stop = Arc::clone(&stop);
                threads.push(std::thread::spawn(move || {
                    let mut rng = Rng(seed * 31 + round * 100 + burst * 10 + 9);
                    let mut snapshots = vec![];
                    while !stop.load(O::Relaxed) {
                        match rng.below(10) {
                            0 => db.compact_range(None..None),
                            1 => {
                                let lo = format!("k{:04}", rng.below(150)).into_bytes();
                                let hi = format!("k{:04}", 150 + rng.below(150)).into_bytes();
                                db.compact_range(Some(lo.as_slice())..Some(hi.as_slice()));
                            }
                            2..=5 => snapshots.push(db.get_snapshot()),
                            _ => {
                                if !snapshots.is_empty() {
                                    let idx = rng.below(snapshots.len() as u64) as usize;
                                    db.release_snapshot(snapshots.swap_remove(idx));
                                }
                            }
                        }
                        std::thread::sleep(Duration::from_millis(3));
                    }
                    for snapshot in snapshots {
                        db.release_snapshot(snapshot);
                    }
                }));
            }

            std::thread::sleep(Duration::from_millis(250));
            stop.store(true, O::Relaxed);
            for thread in threads {
                thread.join().expect("HARNESS: a worker thread panicked");
            }
            let context = format!(
                "concurrent seed {seed} cfg ({memtable},{file},{block},{reuse}) round {round} burst {burst}"
            );
            wait_quiescent(&db).unwrap_or_else(|err| panic!("HARNESS(side check): sticky error {err} at {context}"));
            assert_shape(&db, &options, &context);
            if std::env::var("AUDIT_STATS").is_ok() {
                eprintln!("{context}: {}", layout_stats(&db));
            }
        }
        let db = Arc::try_unwrap(db).ok().expect("HARNESS: db still shared");
        drop(db);
    }
    let db = DB::open(options.clone()).unwrap();
    assert_shape(&db, &options, &format!("concurrent seed {seed} final reopen"));
    drop(db);
    raindb::verif::set_handler(None);
}

#[test]
fn attack05_concurrency_with_jitter() {
    concurrent_round(1, 1500, 800, 256, false);
    concurrent_round(2, 1500, 800, 256, true);
    concurrent_round(3, 600, 300, 100, false);
    concurrent_round(4, 8000, 2000, 512, true);
}

// ------------------------------------------------------------------------------------------------
// A simulated file system with per-handle cursors, fault injection, operation counting and
// crash images
// ------------------------------------------------------------------------------------------------

mod simfs {
    use std::collections::{BTreeMap, BTreeSet};
    use std::io::{self, Read, Seek, SeekFrom, Write};
    use std::path::{Path, PathBuf};
    use std::sync::{Arc, Mutex};

    use raindb::fs::{
        FileLock, FileSystem, RandomAccessFile, ReadonlyRandomAccessFile, UnlockableFile,
    };

    pub type Image = BTreeMap<PathBuf, Vec<u8>>;

    #[derive(Default)]
    pub struct State {
        pub files: BTreeMap<PathBuf, Arc<Mutex<Vec<u8>>>>,
        pub dirs: BTreeSet<PathBuf>,
        /// Number of operations of the selected kinds seen so far
        pub op_counter: u64,
        /// Fail the operations with an index in this range
        pub fail_range: Option<(u64, u64)>,
        /// Which kinds are counted/failed: b'c' create, b'w' write, b'r' rename, b'd' delete,
        /// b'o' open for reading, b'p' positional read, b'l' list
        pub kinds: Vec<u8>,
        /// Description of the operations that were failed
        pub hits: Vec<String>,
        /// Torn writes: a failed write leaves a prefix of the data behind
        pub torn: bool,
        /// A failed write reports an error although all of the data reached the file
        pub torn_full: bool,
        /// Take a crash image before every mutating operation
        pub record_images: bool,
        pub record_torn: bool,
        pub images: Vec<(String, Image)>,
        pub image_stride: u64,
        pub mutation_counter: u64,
        /// Log of the mutating operations (when enabled)
        pub trace: Option<Vec<String>>,
        /// Only operations whose description contains this text are counted/failed
        pub path_filter: Option<String>,
    }

    impl State {
        pub fn image(&self) -> Image {
            self.files
                .iter()
                .map(|(path, data)| (path.clone(), data.lock().unwrap().clone()))
                .collect()
        }

        /// Like `image` but for a caller that already holds the lock of the file at `held`.
        pub fn image_unlocked(&self, held: &Path, held_data: &[u8]) -> Image {
            self.files
                .iter()
                .map(|(path, data)| {
                    if path == held {
                        (path.clone(), held_data.to_vec())
                    } else {
                        (path.clone(), data.lock().unwrap().clone())
                    }
                })
                .collect()
        }

        /// Returns Err if the operation must fail.
        fn check(&mut self, kind: u8, what: impl Fn() -> String) -> io::Result<()> {
            if b"cwrd".contains(&kind) {
                self.mutation_counter += 1;
                if self.trace.is_some() {
                    let line = format!("{:?} {}", std::thread::current().name(), what());
                    self.trace.as_mut().unwrap().push(line);
                }
                if self.record_images && self.mutation_counter % self.image_stride.max(1) == 0 {
                    let label = format!("before mutation #{} ({})", self.mutation_counter, what());
                    let image = self.image();
                    self.images.push((label, image));
                }
            }
            if !self.kinds.contains(&kind) {
                return Ok(());
            }
            if let Some(filter) = self.path_filter.as_ref() {
                if !what().contains(filter.as_str()) {
                    return Ok(());
                }
            }
            let index = self.op_counter;
            self.op_counter += 1;
            if let Some((from, to)) = self.fail_range {
                if index >= from && index < to {
                    self.hits.push(format!("op #{index}: {}", what()));
                    return Err(io::Error::new(io::ErrorKind::Other, "injected fault"));
                }
            }
            Ok(())
        }
    }

    #[derive(Clone)]
    pub struct SimFs {
        pub state: Arc<Mutex<State>>,
    }

    impl SimFs {
        pub fn new() -> Self {
            SimFs {
                state: Arc::new(Mutex::new(State {
                    image_stride: 1,
                    ..State::default()
                })),
            }
        }

        pub fn from_image(image: &Image) -> Self {
            let fs = SimFs::new();
            {
                let mut state = fs.state.lock().unwrap();
                for (path, data) in image {
                    state
                        .files
                        .insert(path.clone(), Arc::new(Mutex::new(data.clone())));
                }
            }
            fs
        }

        pub fn with<R>(&self, f: impl FnOnce(&mut State) -> R) -> R {
            f(&mut self.state.lock().unwrap())
        }
    }

    pub struct SimFile {
        data: Arc<Mutex<Vec<u8>>>,
        cursor: u64,
        state: Arc<Mutex<State>>,
        path: PathBuf,
    }

    impl Read for SimFile {
        fn read(&mut self, buf: &mut [u8]) -> io::Result<usize> {
            let data = self.data.lock().unwrap();
            let start = (self.cursor as usize).min(data.len());
            let count = buf.len().min(data.len() - start);
            buf[..count].copy_from_slice(&data[start..start + count]);
            self.cursor += count as u64;
            Ok(count)
        }
    }

    impl Seek for SimFile {
        fn seek(&mut self, pos: SeekFrom) -> io::Result<u64> {
            let len = self.data.lock().unwrap().len() as i64;
            let target = match pos {
                SeekFrom::Start(offset) => offset as i64,
                SeekFrom::Current(offset) => self.cursor as i64 + offset,
                SeekFrom::End(offset) => len + offset,
            };
            if target < 0 {
                return Err(io::Error::new(io::ErrorKind::InvalidInput, "negative seek"));
            }
            self.cursor = target as u64;
            Ok(self.cursor)
        }
    }

    impl ReadonlyRandomAccessFile for SimFile {
        fn read_from(&self, buf: &mut [u8], offset: usize) -> io::Result<usize> {
            self.state
                .lock()
                .unwrap()
                .check(b'p', || format!("read_from {:?} @{offset}", self.path))?;
            let data = self.data.lock().unwrap();
            if buf.is_empty() {
                return Ok(0);
            }
            if offset >= data.len() {
                return Err(io::Error::new(
                    io::ErrorKind::InvalidInput,
                    "offset beyond the end of the file",
                ));
            }
            let count = buf.len().min(data.len() - offset);
            buf[..count].copy_from_slice(&data[offset..offset + count]);
            Ok(count)
        }

        fn len(&self) -> io::Result<u64> {
            Ok(self.data.lock().unwrap().len() as u64)
        }
    }

    impl SimFile {
        fn write_at_cursor(&mut self, buf: &[u8], append: bool) -> io::Result<usize> {
            let verdict = {
                let mut state = self.state.lock().unwrap();
                let verdict = state.check(b'w', || format!("write {} bytes to {:?}", buf.len(), self.path));
                (verdict, if state.torn_full { 2 } else if state.torn { 1 } else { 0 })
            };
            // Lock order: state before file data (the same order as `State::image`)
            let mut state = self.state.lock().unwrap();
            let mut data = self.data.lock().unwrap();
            if append {
                self.cursor = data.len() as u64;
            }
            if state.record_images
                && state.record_torn
                && buf.len() > 1
                && state.mutation_counter % state.image_stride.max(1) == 0
            {
                // Crash image in which only the first half of this write reached the file
                let mut image = state.image_unlocked(&self.path, &data);
                let file = image.entry(self.path.clone()).or_default();
                let start = self.cursor as usize;
                if file.len() < start {
                    file.resize(start, 0);
                }
                file.truncate(start);
                file.extend_from_slice(&buf[..buf.len() / 2]);
                let label = format!(
                    "mutation #{} torn in half (write {} bytes to {:?})",
                    state.mutation_counter,
                    buf.len(),
                    self.path
                );
                state.images.push((label, image));
            }
            drop(state);
            let to_write: &[u8] = match &verdict {
                (Ok(()), _) => buf,
                (Err(_), 2) => buf,
                (Err(_), 1) => &buf[..buf.len() / 2],
                (Err(_), _) => &[],
            };
            let start = self.cursor as usize;
            if start > data.len() {
                data.resize(start, 0);
            }
            let overlap = (data.len() - start).min(to_write.len());
            data[start..start + overlap].copy_from_slice(&to_write[..overlap]);
            data.extend_from_slice(&to_write[overlap..]);
            self.cursor += to_write.len() as u64;
            verdict.0.map(|_| buf.len())
        }
    }

    impl Write for SimFile {
        fn write(&mut self, buf: &[u8]) -> io::Result<usize> {
            if buf.is_empty() {
                return Ok(0);
            }
            self.write_at_cursor(buf, false)
        }

        fn flush(&mut self) -> io::Result<()> {
            Ok(())
        }
    }

    impl RandomAccessFile for SimFile {
        fn append(&mut self, buf: &[u8]) -> io::Result<usize> {
            self.write_at_cursor(buf, true)
        }
    }

    struct SimLock {
        state: Arc<Mutex<State>>,
        path: PathBuf,
    }

    impl UnlockableFile for SimLock {
        fn unlock(&self) -> io::Result<()> {
            self.state.lock().unwrap().dirs.remove(&self.path.join("#locked"));
            Ok(())
        }
    }

    impl FileSystem for SimFs {
        fn get_name(&self) -> String {
            "SimFs".to_string()
        }

        fn create_dir(&self, path: &Path) -> io::Result<()> {
            self.state.lock().unwrap().dirs.insert(path.to_path_buf());
            Ok(())
        }

        fn create_dir_all(&self, path: &Path) -> io::Result<()> {
            self.state.lock().unwrap().dirs.insert(path.to_path_buf());
            Ok(())
        }

        fn list_dir(&self, path: &Path) -> io::Result<Vec<PathBuf>> {
            let mut state = self.state.lock().unwrap();
            state.check(b'l', || format!("list_dir {path:?}"))?;
            let mut children: BTreeSet<PathBuf> = BTreeSet::new();
            for file in state.files.keys() {
                if let Ok(rest) = file.strip_prefix(path) {
                    if let Some(first) = rest.components().next() {
                        children.insert(path.join(first));
                    }
                }
            }
            Ok(children.into_iter().collect())
        }

        fn open_file(&self, path: &Path) -> io::Result<Box<dyn ReadonlyRandomAccessFile>> {
            let mut state = self.state.lock().unwrap();
            let data = match state.files.get(path) {
                Some(data) => Arc::clone(data),
                None => {
                    return Err(io::Error::new(
                        io::ErrorKind::NotFound,
                        format!("Could not find the file with path {}", path.display()),
                    ))
                }
            };
            state.check(b'o', || format!("open_file {path:?}"))?;
            Ok(Box::new(SimFile {
                data,
                cursor: 0,
                state: Arc::clone(&self.state),
                path: path.to_path_buf(),
            }))
        }

        fn rename(&self, from: &Path, to: &Path) -> io::Result<()> {
            let mut state = self.state.lock().unwrap();
            state.check(b'r', || format!("rename {from:?} -> {to:?}"))?;
            match state.files.remove(from) {
                Some(data) => {
                    state.files.insert(to.to_path_buf(), data);
                    Ok(())
                }
                None => Err(io::Error::new(io::ErrorKind::NotFound, "rename source missing")),
            }
        }

        fn create_file(&self, path: &Path, append: bool) -> io::Result<Box<dyn RandomAccessFile>> {
            let mut state = self.state.lock().unwrap();
            state.check(b'c', || format!("create_file {path:?} append={append}"))?;
            let data = if append && state.files.contains_key(path) {
                Arc::clone(state.files.get(path).unwrap())
            } else {
                let data = Arc::new(Mutex::new(vec![]));
                state.files.insert(path.to_path_buf(), Arc::clone(&data));
                data
            };
            let cursor = data.lock().unwrap().len() as u64;
            Ok(Box::new(SimFile {
                data,
                cursor,
                state: Arc::clone(&self.state),
                path: path.to_path_buf(),
            }))
        }

        fn remove_file(&self, path: &Path) -> io::Result<()> {
            let mut state = self.state.lock().unwrap();
            state.check(b'd', || format!("remove_file {path:?}"))?;
            match state.files.remove(path) {
                Some(_) => Ok(()),
                None => Err(io::Error::new(io::ErrorKind::NotFound, "no such file")),
            }
        }

        fn remove_dir(&self, _path: &Path) -> io::Result<()> {
            Ok(())
        }

        fn remove_dir_all(&self, path: &Path) -> io::Result<()> {
            let mut state = self.state.lock().unwrap();
            let doomed: Vec<PathBuf> = state
                .files
                .keys()
                .filter(|file| file.starts_with(path))
                .cloned()
                .collect();
            for file in doomed {
                state.files.remove(&file);
            }
            Ok(())
        }

        fn get_file_size(&self, path: &Path) -> io::Result<u64> {
            let state = self.state.lock().unwrap();
            match state.files.get(path) {
                Some(data) => Ok(data.lock().unwrap().len() as u64),
                None => Err(io::Error::new(io::ErrorKind::NotFound, "no such file")),
            }
        }

        fn is_dir(&self, path: &Path) -> io::Result<bool> {
            let state = self.state.lock().unwrap();
            if state.files.contains_key(path) {
                return Ok(false);
            }
            Ok(state.dirs.contains(path)
                || state.files.keys().any(|file| file.starts_with(path)))
        }

        fn lock_file(&self, path: &Path) -> io::Result<FileLock> {
            let mut state = self.state.lock().unwrap();
            let marker = path.join("#locked");
            if state.dirs.contains(&marker) {
                return Err(io::Error::new(io::ErrorKind::WouldBlock, "already locked"));
            }
            state.dirs.insert(marker);
            if !state.files.contains_key(path) {
                state
                    .files
                    .insert(path.to_path_buf(), Arc::new(Mutex::new(vec![])));
            }
            Ok(FileLock::new(Box::new(SimLock {
                state: Arc::clone(&self.state),
                path: path.to_path_buf(),
            })))
        }
    }
}

// ------------------------------------------------------------------------------------------------
// Attack 6: transient I/O faults (failed or torn writes, failed creates/renames/removes/reads) at
// every position of a workload that flushes, compacts, rotates manifests and reopens. The shape is
// checked on the live database once the fault has cleared, and again after reopen.
// ------------------------------------------------------------------------------------------------

use simfs::SimFs;

fn fault_workload(db: &DB, rng: &mut Rng, steps: usize) -> bool {
    for step in 0..steps {
        let key = format!("k{:03}", rng.below(120)).into_bytes();
        let result = if rng.below(6) == 0 {
            db.delete(WriteOptions::default(), key)
        } else {
            db.put(WriteOptions::default(), key, vec![b'f'; rng.below(50) as usize])
        };
        if result.is_err() {
            return false;
        }
        if step % 97 == 96 {
            let _ = db.get(ReadOptions::default(), b"k050x");
            db.compact_range(Some(b"k020".as_slice())..Some(b"k060".as_slice()));
        }
    }
    true
}

/// Returns (number of operations seen in the armed phase, descriptions of failed operations,
/// side observations).
static FAULT_PATH_FILTER: std::sync::Mutex<Option<String>> = std::sync::Mutex::new(None);
static FAULT_WRITES_EVERYTHING: std::sync::atomic::AtomicBool = std::sync::atomic::AtomicBool::new(false);

fn fault_trial(
    kinds: &[u8],
    fail_from: Option<u64>,
    fail_len: u64,
    torn: bool,
    reuse: bool,
) -> (u64, Vec<String>, Vec<String>) {
    let sim = SimFs::new();
    let fs: Arc<dyn FileSystem> = Arc::new(sim.clone());
    let options = mem_options(fs, "/audit/faults", 700, 400, 128, reuse);
    let mut rng = Rng(0xFA17);
    let mut side_observations = vec![];

    // Phase 0: build a layout with several levels, without faults
    {
        let db = DB::open(options.clone()).unwrap();
        assert!(fault_workload(&db, &mut rng, 400));
        let _ = wait_quiescent(&db);
    }

    // Phase 1: armed
    let base = sim.with(|state| {
        state.kinds = kinds.to_vec();
        state.torn = torn;
        state.torn_full = FAULT_WRITES_EVERYTHING.load(std::sync::atomic::Ordering::SeqCst);
        state.path_filter = FAULT_PATH_FILTER.lock().unwrap().clone();
        state.op_counter = 0;
        state.fail_range = fail_from.map(|from| (from, from + fail_len));
        0u64
    });
    let _ = base;
    let context = format!("faults kinds {:?} from {fail_from:?} len {fail_len} torn {torn} reuse {reuse}", String::from_utf8_lossy(kinds));
    match DB::open(options.clone()) {
        Err(err) => side_observations.push(format!("armed open failed: {err}")),
        Ok(db) => {
            let completed = fault_workload(&db, &mut rng, 250);
            if completed {
                db.compact_range(None..None);
            }
            let _ = wait_quiescent(&db);
            // The fault is transient: it has cleared by the time the shape is observed
            let seen = sim.with(|state| {
                let seen = state.op_counter;
                state.fail_range = None;
                seen
            });
            let _ = seen;
            assert_shape(&db, &options, &format!("{context} live after the fault {:?}", sim.with(|s| s.hits.clone())));
            if let Some(err) = db.verif_probe().bad_state {
                side_observations.push(format!("sticky error: {err}"));
            }
        }
    }
    let ops_seen = sim.with(|state| {
        state.fail_range = None;
        state.op_counter
    });
    let hits = sim.with(|state| state.hits.clone());

    // Phase 2: no faults any more
    for cycle in 0..2 {
        match DB::open(options.clone()) {
            Err(err) => {
                side_observations.push(format!("reopen {cycle} after the fault failed: {err}"));
                break;
            }
            Ok(db) => {
                assert_shape(&db, &options, &format!("{context} reopen {cycle} after fault {hits:?}"));
                if fault_workload(&db, &mut rng, 150) {
                    db.compact_range(None..None);
                }
                assert_shape(&db, &options, &format!("{context} reopen {cycle} after more work, fault {hits:?}"));
            }
        }
    }

    (ops_seen, hits, side_observations)
}

fn fault_sweep(kinds: &[u8], fail_len: u64, torn: bool, reuse: bool, stride: u64) {
    let (total_ops, _, _) = fault_trial(kinds, None, 0, torn, reuse);
    eprintln!(
        "fault sweep kinds {:?} len {fail_len} torn {torn} reuse {reuse}: {total_ops} operations in the armed phase",
        String::from_utf8_lossy(kinds)
    );
    let mut side: BTreeMap<String, usize> = BTreeMap::new();
    let mut from = 0;
    while from < total_ops + 5 {
        let (_, hits, observations) = fault_trial(kinds, Some(from), fail_len, torn, reuse);
        for observation in observations {
            // Strip numbers so that similar observations group together
            let generic: String = observation.chars().filter(|c| !c.is_ascii_digit()).collect();
            let entry = side.entry(generic).or_insert(0);
            *entry += 1;
            if *entry == 1 && std::env::var("AUDIT_STATS").is_ok() {
                eprintln!("  first: from {from} hits {hits:?}: {observation}");
            }
        }
        from += stride;
    }
    if std::env::var("AUDIT_STATS").is_ok() {
        for (observation, count) in side {
            eprintln!("  side observation x{count}: {observation}");
        }
    }
}

#[test]
fn attack06_transient_write_faults() {
    let stride: u64 = std::env::var("AUDIT_STRIDE").ok().map(|v| v.parse().unwrap()).unwrap_or(7);
    fault_sweep(b"cwrd", 1, false, false, stride);
    fault_sweep(b"cwrd", 1, true, true, stride);
    fault_sweep(b"cwrd", 4, true, false, stride * 2);
    fault_sweep(b"crd", 1, false, true, 1);
}

#[test]
fn attack06_transient_read_faults() {
    let stride: u64 = std::env::var("AUDIT_STRIDE").ok().map(|v| v.parse().unwrap()).unwrap_or(7);
    fault_sweep(b"opl", 1, false, false, stride * 3);
    fault_sweep(b"opl", 3, false, true, stride * 5);
}

/// Helper, not a property check (never fails on its own; run with `--ignored --nocapture`): shows
/// the manifest operations around one torn manifest write. See "side observations" in NOTES.md.
#[test]
#[ignore]
fn debug_fault_trace() {
    let from: u64 = std::env::var("AUDIT_FROM")
        .ok()
        .map(|v| v.parse().unwrap())
        .unwrap_or(8);
    let sim = SimFs::new();
    let fs: Arc<dyn FileSystem> = Arc::new(sim.clone());
    let options = mem_options(fs, "/audit/faults", 700, 400, 128, true);
    let mut rng = Rng(0xFA17);
    {
        let db = DB::open(options.clone()).unwrap();
        assert!(fault_workload(&db, &mut rng, 400));
        let _ = wait_quiescent(&db);
    }
    sim.with(|state| {
        state.kinds = b"cwrd".to_vec();
        state.torn = true;
        state.op_counter = 0;
        state.fail_range = Some((from, from + 1));
        state.trace = Some(vec![]);
        state.path_filter = Some(std::env::var("AUDIT_FILTER").unwrap_or("MANIFEST".to_string()));
    });
    {
        let db = match DB::open(options.clone()) {
            Ok(db) => db,
            Err(err) => {
                eprintln!("armed open failed: {err}");
                return;
            }
        };
        let completed = fault_workload(&db, &mut rng, 250);
        eprintln!("completed: {completed}");
        let _ = wait_quiescent(&db);
        eprintln!("probe: {:?}", db.verif_probe());
    }
    let trace = sim.with(|state| state.trace.take().unwrap());
    let hit_at = trace.iter().position(|l| l.contains("MANIFEST")).unwrap_or(0);
    let hits = sim.with(|s| s.hits.clone());
    eprintln!("hits {hits:?}");
    for line in trace.iter().filter(|l| l.contains("MANIFEST") || l.contains("dbtemp")) {
        eprintln!("{line}");
    }
    let _ = hit_at;
    sim.with(|state| state.fail_range = None);
    eprintln!("reopen: {:?}", DB::open(options.clone()).map(|_| ()));
}

// ------------------------------------------------------------------------------------------------
// Attack 7: crash images. A crash image is taken before every mutating file system operation (and,
// for writes, a second one in which only half of the write reached the file) while a workload
// flushes, compacts, switches manifests and reopens. Every image is then opened as a database of
// its own and the shape is checked right after recovery, after more work and after a reopen.
// ------------------------------------------------------------------------------------------------

fn crash_image_sweep(reuse: bool, stride: u64, torn: bool) {
    let sim = SimFs::new();
    let fs: Arc<dyn FileSystem> = Arc::new(sim.clone());
    let options = mem_options(fs, "/audit/crash", 700, 400, 128, reuse);
    let mut rng = Rng(0xC4A5);
    {
        let db = DB::open(options.clone()).unwrap();
        assert!(fault_workload(&db, &mut rng, 300));
        let _ = wait_quiescent(&db);
    }
    sim.with(|state| {
        state.record_images = true;
        state.record_torn = torn;
        state.image_stride = stride;
    });
    for _session in 0..2 {
        let db = DB::open(options.clone()).unwrap();
        assert!(fault_workload(&db, &mut rng, 200));
        db.compact_range(None..None);
        let _ = wait_quiescent(&db);
    }
    let images = sim.with(|state| {
        state.record_images = false;
        std::mem::take(&mut state.images)
    });
    eprintln!("crash sweep reuse {reuse} stride {stride} torn {torn}: {} images", images.len());

    let mut open_failures: BTreeMap<String, usize> = BTreeMap::new();
    for (label, image) in images.iter() {
        let image_fs = SimFs::from_image(image);
        let fs: Arc<dyn FileSystem> = Arc::new(image_fs.clone());
        let image_options = DbOptions {
            filesystem_provider: fs,
            ..mem_options(Arc::new(SimFs::new()), "/audit/crash", 700, 400, 128, reuse)
        };
        let context = format!("crash image [{label}] reuse {reuse}");
        for cycle in 0..2 {
            match DB::open(image_options.clone()) {
                Err(err) => {
                    let generic: String =
                        err.to_string().chars().filter(|c| !c.is_ascii_digit()).collect();
                    let count = open_failures.entry(generic).or_insert(0);
                    *count += 1;
                    if *count == 1 {
                        eprintln!("  side observation: open of {context} failed: {err}");
                    }
                    break;
                }
                Ok(db) => {
                    assert_shape(&db, &image_options, &format!("{context} open {cycle}"));
                    let mut rng = Rng(0x5EED + cycle);
                    if fault_workload(&db, &mut rng, 60) {
                        db.compact_range(None..None);
                    }
                    assert_shape(&db, &image_options, &format!("{context} open {cycle} after more work"));
                }
            }
        }
    }
    for (observation, count) in open_failures {
        eprintln!("  side observation x{count}: open failed: {observation}");
    }
}

#[test]
fn attack07_crash_images() {
    let stride: u64 = std::env::var("AUDIT_STRIDE").ok().map(|v| v.parse().unwrap()).unwrap_or(3);
    crash_image_sweep(false, stride, true);
    crash_image_sweep(true, stride, true);
}

// ------------------------------------------------------------------------------------------------
// Attack 8: very long user keys. The bounds of a few files then no longer fit in one 32 KiB block
// of the manifest log (records are fragmented), index/separator keys get long, WAL records span
// blocks. Includes reopens with and without log reuse.
// ------------------------------------------------------------------------------------------------

fn long_key(rng: &mut Rng) -> Vec<u8> {
    let family = rng.below(3);
    let len = match family {
        0 => 9_000 + rng.below(200) as usize,
        1 => 33_000 + rng.below(500) as usize,
        _ => 70_000,
    };
    let mut key = vec![b'a' + family as u8; len];
    let suffix = format!("{:03}", rng.below(40));
    let at = key.len() - 3;
    key[at..].copy_from_slice(suffix.as_bytes());
    if rng.below(2) == 0 {
        // differ early as well
        key[1] = b'0' + rng.below(10) as u8;
    }
    key
}

#[test]
fn attack08_very_long_keys() {
    for (seed, reuse) in [(1u64, false), (2, true)] {
        let fs: Arc<dyn FileSystem> = Arc::new(InMemoryFileSystem::new());
        let options = mem_options(fs, "/audit/longkeys", 200_000, 100_000, 4096, reuse);
        let mut rng = Rng(seed * 0xABCDEF + 1);
        let mut db = Some(DB::open(options.clone()).unwrap());
        let mut snapshots = vec![];
        for step in 0..700 {
            let handle = db.as_ref().unwrap();
            let key = long_key(&mut rng);
            if rng.below(5) == 0 {
                handle.delete(WriteOptions::default(), key).unwrap();
            } else {
                handle
                    .put(WriteOptions::default(), key, vec![b'v'; rng.below(30) as usize])
                    .unwrap();
            }
            if step % 10 == 0 && snapshots.len() < 30 {
                snapshots.push(handle.get_snapshot());
            }
            let context = format!("long keys seed {seed} reuse {reuse} step {step}");
            if step % 60 == 59 {
                if rng.below(2) == 0 {
                    handle.compact_range(None..None);
                }
                assert_shape(handle, &options, &context);
                if std::env::var("AUDIT_STATS").is_ok() {
                    eprintln!("{context}: {}", layout_stats(handle));
                }
            }
            if step % 130 == 129 {
                for snapshot in snapshots.drain(..) {
                    handle.release_snapshot(snapshot);
                }
                let before = {
                    let _ = wait_quiescent(handle);
                    handle.verif_files()
                };
                drop(db.take());
                db = Some(
                    DB::open(options.clone())
                        .unwrap_or_else(|err| panic!("SIDE CHECK: reopen failed at {context}: {err}")),
                );
                let handle = db.as_ref().unwrap();
                assert_shape(handle, &options, &format!("{context} after reopen"));
                // Every file that was reported before the close is either still reported with the
                // same bounds or gone; nothing may come back with different bounds
                let after = handle.verif_files();
                for file in &after {
                    if let Some(old) = before.iter().find(|f| f.number == file.number) {
                        assert_eq!(
                            (&old.smallest, &old.largest, old.size),
                            (&file.smallest, &file.largest, file.size),
                            "PROPERTY VIOLATED: file {} changed its recorded bounds across reopen at {context}",
                            file.number
                        );
                    }
                }
            }
        }
        let handle = db.as_ref().unwrap();
        for snapshot in snapshots.drain(..) {
            handle.release_snapshot(snapshot);
        }
    }
}

// ------------------------------------------------------------------------------------------------
// Attack 9: close the database at arbitrary moments (flush or compaction in flight, manifest
// write in flight, obsolete files being deleted), with delays injected at the scheduling points
// so that the close lands inside the background work; reopen and check the shape every time.
// ------------------------------------------------------------------------------------------------

#[test]
fn attack09_close_during_background_work() {
    for (seed, reuse) in [(1u64, false), (2, true), (3, false), (4, true)] {
        let fs: Arc<dyn FileSystem> = Arc::new(InMemoryFileSystem::new());
        let options = mem_options(fs, "/audit/abrupt", 700, 400, 128, reuse);
        raindb::verif::set_handler(Some(Arc::new(JitterHandler {
            state: std::sync::atomic::AtomicU64::new(seed * 99),
            intensity: 3,
        })));
        let mut rng = Rng(seed * 0x1234567 + 1);
        let mut in_flight_closes = 0;
        for cycle in 0..120 {
            let db = DB::open(options.clone())
                .unwrap_or_else(|err| panic!("SIDE CHECK: open failed in cycle {cycle}: {err}"));
            let context = format!("abrupt close seed {seed} reuse {reuse} cycle {cycle}");
            assert_shape(&db, &options, &format!("{context} after open"));
            let steps = 20 + rng.below(200);
            for _ in 0..steps {
                let key = format!("k{:03}", rng.below(150)).into_bytes();
                if rng.below(6) == 0 {
                    db.delete(WriteOptions::default(), key).unwrap();
                } else {
                    db.put(WriteOptions::default(), key, vec![b'z'; rng.below(60) as usize])
                        .unwrap();
                }
            }
            if rng.below(4) == 0 {
                // leave a manual compaction running in another thread while closing is not
                // possible (the handle is borrowed), so run it to completion but close right after
                db.compact_range(Some(b"k010".as_slice())..Some(b"k090".as_slice()));
                let key = b"k050".to_vec();
                for _ in 0..30 {
                    db.put(WriteOptions::default(), key.clone(), vec![b'q'; 50]).unwrap();
                }
            }
            let probe = db.verif_probe();
            if probe.background_compaction_scheduled || probe.has_immutable_memtable {
                in_flight_closes += 1;
            }
            drop(db);
        }
        raindb::verif::set_handler(None);
        let db = DB::open(options.clone()).unwrap();
        assert_shape(&db, &options, &format!("abrupt close seed {seed} final"));
        eprintln!("abrupt close seed {seed}: {in_flight_closes} of 120 closes had background work pending");
        assert!(in_flight_closes > 10, "HARNESS: too few closes landed during background work");
    }
}

// ------------------------------------------------------------------------------------------------
// Attack 10: the log format that carries the manifest. Records are laid out so that every
// alignment with the 32 KiB block boundary occurs (block trailers of 0..7 bytes, records that end
// exactly at the boundary, multi-block records, appending after reopen). A record that is lost or
// altered on the way back would make the layout recovered at reopen differ from the one written.
// ------------------------------------------------------------------------------------------------

#[test]
fn attack10_manifest_log_round_trip_at_block_boundaries() {
    use raindb::verif::log::{Reader, Writer};
    use std::path::Path;

    const BLOCK: usize = 32 * 1024;
    const HEADER: usize = 7;
    let mut rng = Rng(0x10A);
    for case in 0..400usize {
        let fs: Arc<dyn FileSystem> = Arc::new(InMemoryFileSystem::new());
        let path = Path::new("/audit/log/MANIFEST-000001");
        let mut expected: Vec<Vec<u8>> = vec![];
        let mut writer = Writer::new(Arc::clone(&fs), path, false).unwrap();
        let mut offset = 0usize; // offset within the file, tracked with the format's rules
        let record_count = 2 + rng.below(12) as usize;
        for index in 0..record_count {
            // Choose a size that leaves `target_left` bytes in the current block after the record
            let left_in_block = BLOCK - (offset % BLOCK);
            let target_left = (case + index) % 10; // 0..9 bytes left
            let size = match rng.below(5) {
                0 if left_in_block > HEADER + target_left => left_in_block - HEADER - target_left,
                1 => rng.below(3 * BLOCK as u64) as usize,
                2 => 0,
                _ => rng.below(300) as usize,
            };
            let fill = (index as u8).wrapping_mul(31).wrapping_add(case as u8);
            let mut record = vec![fill; size];
            if size > 0 {
                record[0] = 0xA5;
                record[size - 1] = 0x5A;
            }
            writer.append(&record).unwrap();
            expected.push(record);
            // Track the offset like the writer does
            let mut remaining = size;
            loop {
                let left = BLOCK - (offset % BLOCK);
                if left < HEADER {
                    offset += left;
                    continue;
                }
                let chunk = remaining.min(left - HEADER);
                offset += HEADER + chunk;
                remaining -= chunk;
                if remaining == 0 {
                    break;
                }
            }
            if rng.below(4) == 0 {
                // close and reopen the log for appending, like a reused manifest
                drop(writer);
                writer = Writer::new(Arc::clone(&fs), path, true).unwrap();
            }
        }
        drop(writer);

        let mut reader = Reader::new(Arc::clone(&fs), path).unwrap();
        let mut actual: Vec<Vec<u8>> = vec![];
        loop {
            let (record, is_eof) = reader
                .read_record()
                .unwrap_or_else(|err| panic!("case {case}: reading the log back failed: {err}"));
            if is_eof {
                break;
            }
            actual.push(record);
        }
        assert_eq!(
            actual.len(),
            expected.len(),
            "case {case}: {} records were written to the log but {} came back",
            expected.len(),
            actual.len()
        );
        for (index, (a, e)) in actual.iter().zip(expected.iter()).enumerate() {
            assert!(a == e, "case {case}: record {index} came back altered ({} vs {} bytes)", a.len(), e.len());
        }
    }
}

// ------------------------------------------------------------------------------------------------
// Attack 11: the same kind of random history on the disk-backed file system (kept under the
// worktree's target directory)
// ------------------------------------------------------------------------------------------------

#[test]
fn attack11_random_history_on_disk() {
    let base = std::path::Path::new(env!("CARGO_MANIFEST_DIR")).join("target/audit-tmp");
    std::fs::create_dir_all(&base).unwrap();
    for (seed, reuse) in [(1u64, false), (2, true)] {
        let tmp_fs = raindb::fs::TmpFileSystem::new(Some(&base));
        let fs: Arc<dyn FileSystem> = Arc::new(tmp_fs);
        let options = mem_options(fs, "db", 900, 500, 128, reuse);
        let mut rng = Rng(seed * 0xD15C + 1);
        let mut db = Some(DB::open(options.clone()).unwrap());
        let mut snapshots = vec![];
        for step in 0..2500 {
            let handle = db.as_ref().unwrap();
            let key = gen_key(&mut rng, 200);
            match rng.below(100) {
                0..=69 => handle.put(WriteOptions::default(), key, gen_value(&mut rng)).unwrap(),
                70..=89 => handle.delete(WriteOptions::default(), key).unwrap(),
                90..=93 => snapshots.push(handle.get_snapshot()),
                94..=95 => {
                    handle.compact_range(None..None);
                    assert_shape(handle, &options, &format!("disk seed {seed} step {step} after compact_range"));
                }
                96..=97 => assert_shape(handle, &options, &format!("disk seed {seed} step {step}")),
                _ => {
                    for snapshot in snapshots.drain(..) {
                        handle.release_snapshot(snapshot);
                    }
                    if rng.below(2) == 0 {
                        let _ = wait_quiescent(handle);
                    }
                    drop(db.take());
                    db = Some(DB::open(options.clone()).unwrap());
                    assert_shape(db.as_ref().unwrap(), &options, &format!("disk seed {seed} step {step} after reopen"));
                }
            }
        }
        let handle = db.as_ref().unwrap();
        for snapshot in snapshots.drain(..) {
            handle.release_snapshot(snapshot);
        }
        assert_shape(handle, &options, &format!("disk seed {seed} end"));
    }
}

#[test]
fn attack06_manifest_write_faults_every_position() {
    use std::sync::atomic::Ordering as O;
    *FAULT_PATH_FILTER.lock().unwrap() = Some("MANIFEST".to_string());
    for (torn, everything) in [(false, false), (true, false), (false, true)] {
        FAULT_WRITES_EVERYTHING.store(everything, O::SeqCst);
        for reuse in [false, true] {
            eprintln!("manifest faults: torn {torn} error-after-complete-write {everything} reuse {reuse}");
            fault_sweep(b"w", 1, torn, reuse, 1);
        }
    }
    FAULT_WRITES_EVERYTHING.store(false, O::SeqCst);
    *FAULT_PATH_FILTER.lock().unwrap() = None;
}

// ------------------------------------------------------------------------------------------------
// Attack 12: unusual but legal API usage: inverted / empty / 0xff manual compaction bounds, empty
// batches, a batch far larger than the memtable, only tombstones, repeated keys inside a batch
// ------------------------------------------------------------------------------------------------

#[test]
fn attack12_unusual_api_usage() {
    for reuse in [false, true] {
        let fs: Arc<dyn FileSystem> = Arc::new(InMemoryFileSystem::new());
        let options = mem_options(fs, "/audit/unusual", 600, 400, 128, reuse);
        let mut rng = Rng(0x12AB + reuse as u64);
        let mut db = Some(DB::open(options.clone()).unwrap());
        let reopen = |db: &mut Option<DB>, context: &str| {
            drop(db.take());
            *db = Some(DB::open(options.clone()).unwrap());
            assert_shape(db.as_ref().unwrap(), &options, &format!("{context} after reopen"));
        };

        // Manual compaction of an empty database, with all kinds of bounds
        db.as_ref().unwrap().compact_range(None..None);
        db.as_ref().unwrap().compact_range(Some(b"z".as_slice())..Some(b"a".as_slice()));
        assert_shape(db.as_ref().unwrap(), &options, "unusual: empty database");
        reopen(&mut db, "unusual: empty database");

        // Empty batches only, then reopen
        for _ in 0..5 {
            db.as_ref().unwrap().apply(WriteOptions::default(), Batch::new()).unwrap();
        }
        db.as_ref().unwrap().compact_range(None..None);
        assert_shape(db.as_ref().unwrap(), &options, "unusual: empty batches");
        reopen(&mut db, "unusual: empty batches");

        // Only tombstones
        for i in 0..300 {
            db.as_ref()
                .unwrap()
                .delete(WriteOptions::default(), format!("t{:04}", i % 70).into_bytes())
                .unwrap();
        }
        assert_shape(db.as_ref().unwrap(), &options, "unusual: only tombstones");
        db.as_ref().unwrap().compact_range(None..None);
        assert_shape(db.as_ref().unwrap(), &options, "unusual: only tombstones, compacted");
        reopen(&mut db, "unusual: only tombstones");

        // One batch far larger than the memtable, with repeated keys
        let mut batch = Batch::new();
        for i in 0..4000u64 {
            let key = format!("b{:04}", rng.below(500)).into_bytes();
            if i % 7 == 0 {
                batch.add_delete(key);
            } else {
                batch.add_put(key, vec![b'B'; (i % 90) as usize]);
            }
        }
        let snapshot = db.as_ref().unwrap().get_snapshot();
        db.as_ref().unwrap().apply(WriteOptions::default(), batch).unwrap();
        db.as_ref().unwrap().put(WriteOptions::default(), vec![], vec![]).unwrap();
        db.as_ref().unwrap().put(WriteOptions::default(), vec![0xff; 3], vec![]).unwrap();
        assert_shape(db.as_ref().unwrap(), &options, "unusual: giant batch");
        if std::env::var("AUDIT_STATS").is_ok() {
            eprintln!("giant batch: {}", layout_stats(db.as_ref().unwrap()));
        }

        // Manual compactions with odd bounds
        let bounds: Vec<(Option<Vec<u8>>, Option<Vec<u8>>)> = vec![
            (Some(b"z".to_vec()), Some(b"a".to_vec())),
            (Some(vec![]), Some(vec![])),
            (Some(vec![]), Some(vec![0xff; 8])),
            (Some(vec![0xff; 8]), None),
            (None, Some(vec![])),
            (Some(b"b0250".to_vec()), Some(b"b0250".to_vec())),
            (Some(b"b0400".to_vec()), Some(b"b0100".to_vec())),
        ];
        for (lo, hi) in bounds {
            let handle = db.as_ref().unwrap();
            handle.compact_range(lo.as_deref()..hi.as_deref());
            assert_shape(handle, &options, &format!("unusual: compact_range({lo:?}..{hi:?})"));
            for i in 0..40u64 {
                handle
                    .put(
                        WriteOptions::default(),
                        format!("b{:04}", rng.below(500)).into_bytes(),
                        vec![b'C'; (i % 50) as usize],
                    )
                    .unwrap();
            }
        }
        db.as_ref().unwrap().release_snapshot(snapshot);
        reopen(&mut db, "unusual: odd bounds");
        db.as_ref().unwrap().compact_range(None..None);
        assert_shape(db.as_ref().unwrap(), &options, "unusual: final full compaction");
        reopen(&mut db, "unusual: final");
    }
}

// ------------------------------------------------------------------------------------------------
// Attack 13: thousands of one-entry files (more files than the table cache holds, a manifest
// snapshot record far larger than one log block), full compaction, reopen with a new manifest
// ------------------------------------------------------------------------------------------------

#[test]
fn attack13_thousands_of_files() {
    // SimFs rather than InMemoryFileSystem: the latter's `is_dir` scans every file, which makes
    // each obsolete-file collection quadratic in the number of files
    let fs: Arc<dyn FileSystem> = Arc::new(SimFs::new());
    let options = mem_options(fs, "/audit/manyfiles", 20_000, 1, 1, false);
    let mut db = Some(DB::open(options.clone()).unwrap());
    let mut rng = Rng(0x13);
    for round in 0..2 {
        for i in 0..2600u64 {
            let key = format!("key{:05}", (i * 7 + round * 3) % 2600).into_bytes();
            if rng.below(8) == 0 {
                db.as_ref().unwrap().delete(WriteOptions::default(), key).unwrap();
            } else {
                db.as_ref()
                    .unwrap()
                    .put(WriteOptions::default(), key, vec![b'm'; rng.below(20) as usize])
                    .unwrap();
            }
        }
        let handle = db.as_ref().unwrap();
        assert_shape(handle, &options, &format!("many files round {round}"));
        handle.compact_range(None..None);
        assert_shape(handle, &options, &format!("many files round {round} after full compaction"));
        let count = handle.verif_files().len();
        eprintln!("many files round {round}: {}", layout_stats(handle));
        assert!(count > 1000, "HARNESS: expected more than a thousand files, got {count}");
        drop(db.take());
        db = Some(DB::open(options.clone()).unwrap());
        assert_shape(db.as_ref().unwrap(), &options, &format!("many files round {round} after reopen"));
        assert_eq!(
            db.as_ref().unwrap().verif_files().len(),
            count,
            "PROPERTY VIOLATED: the number of reported files changed across a quiescent close and reopen"
        );
    }
}
