// Differential fuzz: snapshots / iterators vs. frozen BTreeMap copies.
// run: FUZZ_SEEDS=0..50 cargo test --offline --release --test audit_fuzz -- --nocapture

use std::collections::BTreeMap;
use std::ops::Bound;
use std::sync::Arc;

use raindb::fs::{FileSystem, OsFileSystem};
use raindb::{Batch, DbOptions, RainDbIterator, ReadOptions, Snapshot, WriteOptions, DB};
use rand::rngs::StdRng;
use rand::{Rng, SeedableRng};

type Model = BTreeMap<Vec<u8>, Vec<u8>>;
type DbIter = Box<dyn RainDbIterator<Key = Vec<u8>, Error = raindb::RainDBError>>;

struct Cfg {
    memtable: usize,
    file_size: u64,
    block_size: usize,
    nkeys: usize,
    key_style: u8,
    val_max: usize,
    steps: usize,
}

fn make_key(style: u8, i: usize) -> Vec<u8> {
    match style {
        0 => format!("k{:04}", i).into_bytes(),
        1 => {
            // shared prefixes, nested keys, empty key
            if i == 0 {
                vec![]
            } else {
                let mut k = vec![b'a'; i % 7];
                k.extend_from_slice(format!("{}", i / 7).as_bytes());
                k
            }
        }
        2 => {
            // bytes including 0xff and 0x00
            let mut k = vec![];
            let mut x = i;
            loop {
                k.push(match x % 3 {
                    0 => 0x00,
                    1 => 0xff,
                    _ => 0x61,
                });
                x /= 3;
                if x == 0 {
                    break;
                }
            }
            k
        }
        4 => {
            let mut k = vec![b'p'; 70_000];
            k.extend_from_slice(format!("{:03}", i).as_bytes());
            if i % 3 == 0 { k.extend(std::iter::repeat(b'q').take(140_000)); }
            k
        }
        5 => {
            let mut k = format!("{:03}", i).into_bytes();
            k.extend(std::iter::repeat(b'x').take(66_000 + i));
            k
        }
        _ => {
            // long keys
            let mut k = format!("{:03}", i).into_bytes();
            k.extend(std::iter::repeat(b'x').take((i * 37) % 300));
            k
        }
    }
}

struct LiveSnap {
    snap: Snapshot,
    model: Model,
}

struct LiveIter {
    iter: DbIter,
    model: Model,
    // model position
    pos: Option<Vec<u8>>,
}


fn check_pos(
    tag: &str,
    seed: u64,
    step: usize,
    it: &dyn RainDbIterator<Key = Vec<u8>, Error = raindb::RainDBError>,
    model: &Model,
    pos: &Option<Vec<u8>>,
) {
    match pos {
        None => {
            if it.is_valid() {
                panic!(
                    "seed {seed} step {step} {tag}: iterator valid at {:?} but model says end",
                    it.current().map(|(k, _)| k.clone())
                );
            }
        }
        Some(k) => {
            if !it.is_valid() {
                panic!(
                    "seed {seed} step {step} {tag}: iterator invalid (status {:?}) but model at {:?}",
                    it.status(),
                    k
                );
            }
            let (ik, iv) = it.current().unwrap();
            if ik != k || iv != model.get(k).unwrap() {
                panic!(
                    "seed {seed} step {step} {tag}: iterator at {:?}={:?} but model at {:?}={:?}",
                    ik,
                    &iv[..iv.len().min(12)],
                    k,
                    &model.get(k).unwrap()[..model.get(k).unwrap().len().min(12)]
                );
            }
        }
    }
}

fn model_next(model: &Model, k: &Vec<u8>) -> Option<Vec<u8>> {
    model
        .range::<Vec<u8>, _>((Bound::Excluded(k), Bound::Unbounded))
        .next()
        .map(|(k, _)| k.clone())
}
fn model_prev(model: &Model, k: &Vec<u8>) -> Option<Vec<u8>> {
    model
        .range::<Vec<u8>, _>((Bound::Unbounded, Bound::Excluded(k)))
        .next_back()
        .map(|(k, _)| k.clone())
}
fn model_seek(model: &Model, k: &Vec<u8>) -> Option<Vec<u8>> {
    model
        .range::<Vec<u8>, _>((Bound::Included(k), Bound::Unbounded))
        .next()
        .map(|(k, _)| k.clone())
}

/// Random walk of an iterator against the model.
fn walk(
    tag: &str,
    seed: u64,
    step: usize,
    rng: &mut StdRng,
    it: &mut DbIter,
    model: &Model,
    pos: &mut Option<Vec<u8>>,
    cfg: &Cfg,
    nops: usize,
) {
    for _ in 0..nops {
        let r = rng.gen_range(0..100);
        if r < 8 {
            it.seek_to_first().unwrap();
            *pos = model.keys().next().cloned();
        } else if r < 16 {
            it.seek_to_last().unwrap();
            *pos = model.keys().next_back().cloned();
        } else if r < 30 {
            let k = make_key(cfg.key_style, rng.gen_range(0..cfg.nkeys + 2));
            it.seek(&k).unwrap();
            *pos = model_seek(model, &k);
        } else if r < 65 {
            if let Some(k) = pos.clone() {
                it.next();
                *pos = model_next(model, &k);
            } else {
                continue;
            }
        } else {
            if let Some(k) = pos.clone() {
                it.prev();
                *pos = model_prev(model, &k);
            } else {
                continue;
            }
        }
        check_pos(tag, seed, step, &**it, model, pos);
    }
}

fn full_scan_check(tag: &str, seed: u64, step: usize, db: &DB, ro: ReadOptions, model: &Model) {
    let mut it = db.new_iterator(ro.clone()).unwrap();
    it.seek_to_first().unwrap();
    let mut got = vec![];
    while it.is_valid() {
        let (k, v) = it.current().unwrap();
        got.push((k.clone(), v.clone()));
        it.next();
    }
    assert!(it.status().is_none(), "seed {seed} step {step} {tag}: status {:?}", it.status());
    let want: Vec<(Vec<u8>, Vec<u8>)> = model.iter().map(|(k, v)| (k.clone(), v.clone())).collect();
    if got != want {
        let gk: Vec<_> = got.iter().map(|(k, _)| k.clone()).collect();
        let wk: Vec<_> = want.iter().map(|(k, _)| k.clone()).collect();
        if gk != wk {
            let missing: Vec<_> = wk.iter().filter(|k| !gk.contains(k)).collect();
            let extra: Vec<_> = gk.iter().filter(|k| !wk.contains(k)).collect();
            panic!(
                "seed {seed} step {step} {tag}: forward scan keys differ: missing {:?} extra {:?}",
                missing, extra
            );
        }
        for (g, w) in got.iter().zip(want.iter()) {
            if g != w {
                panic!(
                    "seed {seed} step {step} {tag}: forward scan value differs for key {:?}: got {:?} want {:?}",
                    g.0,
                    &g.1[..g.1.len().min(12)],
                    &w.1[..w.1.len().min(12)]
                );
            }
        }
    }
    // backward
    it.seek_to_last().unwrap();
    let mut gotb = vec![];
    while it.is_valid() {
        let (k, v) = it.current().unwrap();
        gotb.push((k.clone(), v.clone()));
        it.prev();
    }
    gotb.reverse();
    if gotb != want {
        let gk: Vec<_> = gotb.iter().map(|(k, _)| k.clone()).collect();
        let wk: Vec<_> = want.iter().map(|(k, _)| k.clone()).collect();
        panic!(
            "seed {seed} step {step} {tag}: backward scan differs: got keys {:?} want keys {:?}",
            gk.len(),
            wk.len()
        );
    }
}

fn get_check(
    tag: &str,
    seed: u64,
    step: usize,
    db: &DB,
    ro: ReadOptions,
    model: &Model,
    key: &Vec<u8>,
) {
    let got = db.get(ro, key);
    match (got, model.get(key)) {
        (Ok(v), Some(w)) => {
            if &v != w {
                panic!(
                    "seed {seed} step {step} {tag}: get({:?}) = {:?}.. want {:?}..",
                    key,
                    &v[..v.len().min(12)],
                    &w[..w.len().min(12)]
                );
            }
        }
        (Err(raindb::RainDBError::KeyNotFound), None) => {}
        (g, w) => panic!(
            "seed {seed} step {step} {tag}: get({:?}) = {:?} want {:?}",
            key,
            g.map(|v| v[..v.len().min(12)].to_vec()),
            w.map(|v| v[..v.len().min(12)].to_vec())
        ),
    }
}

fn run_seed(seed: u64) {
    let mut rng = StdRng::seed_from_u64(seed);
    let cfg = Cfg {
        memtable: [600usize, 1500, 4000, 20_000][rng.gen_range(0..4)],
        file_size: [1u64, 300, 1200, 6000][rng.gen_range(0..4)],
        block_size: [1usize, 40, 200, 1000][rng.gen_range(0..4)],
        nkeys: [6usize, 25, 80, 300][rng.gen_range(0..4)],
        key_style: rng.gen_range(0..4),
        val_max: [8usize, 60, 400][rng.gen_range(0..3)],
        steps: std::env::var("FUZZ_STEPS").ok().and_then(|s| s.parse().ok()).unwrap_or(1500),
    };
    let mut cfg = cfg;
    if std::env::var("FUZZ_BIG").is_ok() {
        cfg.key_style = 4 + (seed % 2) as u8;
        cfg.nkeys = [6usize, 25][rng.gen_range(0..2)];
        cfg.val_max = [8usize, 3_000_000, 200_000][rng.gen_range(0..3)];
        cfg.memtable = [600usize, 200_000, 4_000_000][rng.gen_range(0..3)];
        cfg.file_size = [1u64, 100_000, 2_000_000][rng.gen_range(0..3)];
        cfg.block_size = [1usize, 4096, 100_000][rng.gen_range(0..3)];
        cfg.steps = 300;
    }
    let deep = std::env::var("FUZZ_DEEP").is_ok();
    if deep {
        cfg.key_style = 0;
        cfg.nkeys = 230;
        cfg.memtable = [1usize << 20, 4 << 20][rng.gen_range(0..2)];
        cfg.file_size = [256u64 << 10, 1 << 20, 2 << 20][rng.gen_range(0..3)];
        cfg.block_size = [4096usize, 1, 64 << 10][rng.gen_range(0..3)];
        cfg.val_max = [8usize, 60, 400][rng.gen_range(0..3)];
    }
    let mut cfg = cfg;
    let dir = tempfile::Builder::new()
        .prefix(&format!("fz{seed}-"))
        .tempdir_in(std::env::var("FUZZ_DIR").unwrap_or("/tmp/a3/C03/target/fuzz".into()))
        .unwrap();
    let fs: Arc<dyn FileSystem> = Arc::new(OsFileSystem::new());
    let mk_opts = |cfg: &Cfg| DbOptions {
        db_path: dir.path().to_str().unwrap().to_string(),
        max_memtable_size: cfg.memtable,
        max_file_size: cfg.file_size,
        max_block_size: cfg.block_size,
        filesystem_provider: Arc::clone(&fs),
        create_if_missing: true,
        ..DbOptions::default()
    };
    let mut db = DB::open(mk_opts(&cfg)).unwrap();
    let mut model: Model = BTreeMap::new();
    let mut snaps: Vec<LiveSnap> = vec![];
    let mut iters: Vec<LiveIter> = vec![];
    let mut counter: u64 = 0;

    if deep {
        // sequential load of incompressible values: flushes land in level 2 and the size trigger
        // (100 MiB) moves files on to level 3
        for i in 0..cfg.nkeys {
            let k = make_key(0, i);
            let mut v = vec![0u8; 512 << 10];
            rng.fill(&mut v[..]);
            db.put(WriteOptions::default(), k.clone(), v.clone()).unwrap();
            model.insert(k, v);
        }
        db.compact_range(Some(b"zzz".as_slice())..None);
        std::thread::sleep(std::time::Duration::from_millis(1500));
        let lv: Vec<String> = (0..7).map(|l| db.get_descriptor(raindb::db::DatabaseDescriptor::NumFilesAtLevel(l)).unwrap()).collect();
        println!("seed {seed}: after load levels {:?}", lv);
        drop(db);
        cfg.memtable = [600usize, 1500, 4000, 20_000][rng.gen_range(0..4)];
        cfg.file_size = [1u64, 300, 1200, 6000, 1 << 20][rng.gen_range(0..5)];
        cfg.block_size = [1usize, 40, 200, 4096][rng.gen_range(0..4)];
        db = DB::open(mk_opts(&cfg)).unwrap();
    }
    let cfg = cfg;

    for step in 0..cfg.steps {
        let r = rng.gen_range(0..1000);
        if r < 450 {
            // put
            let k = make_key(cfg.key_style, rng.gen_range(0..cfg.nkeys));
            counter += 1;
            let mut v = format!("v{counter}-").into_bytes();
            let extra = rng.gen_range(0..=cfg.val_max);
            v.extend(std::iter::repeat((counter % 251) as u8).take(extra));
            db.put(WriteOptions::default(), k.clone(), v.clone()).unwrap();
            model.insert(k, v);
        } else if r < 600 {
            let k = make_key(cfg.key_style, rng.gen_range(0..cfg.nkeys));
            db.delete(WriteOptions::default(), k.clone()).unwrap();
            model.remove(&k);
        } else if r < 650 {
            let mut b = Batch::new();
            for _ in 0..rng.gen_range(0..12) {
                let k = make_key(cfg.key_style, rng.gen_range(0..cfg.nkeys));
                if rng.gen_bool(0.7) {
                    counter += 1;
                    let v = format!("b{counter}").into_bytes();
                    b.add_put(k.clone(), v.clone());
                    model.insert(k, v);
                } else {
                    b.add_delete(k.clone());
                    model.remove(&k);
                }
            }
            db.apply(WriteOptions::default(), b).unwrap();
        } else if r < 700 {
            if snaps.len() < 6 {
                let snap = db.get_snapshot();
                snaps.push(LiveSnap { snap, model: model.clone() });
            }
        } else if r < 730 {
            if !snaps.is_empty() {
                let i = rng.gen_range(0..snaps.len());
                let s = snaps.swap_remove(i);
                db.release_snapshot(s.snap);
            }
        } else if r < 800 {
            // check a snapshot with gets
            if !snaps.is_empty() {
                let i = rng.gen_range(0..snaps.len());
                let nreads = if std::env::var("FUZZ_READS").is_ok() { 300 } else { 8 };
                for _ in 0..nreads {
                    let k = make_key(cfg.key_style, rng.gen_range(0..cfg.nkeys + 2));
                    let ro = ReadOptions { fill_cache: rng.gen_bool(0.5), snapshot: Some(snaps[i].snap.clone()) };
                    get_check("snapget", seed, step, &db, ro, &snaps[i].model, &k);
                }
            }
        } else if r < 830 {
            if !snaps.is_empty() {
                let i = rng.gen_range(0..snaps.len());
                let ro = ReadOptions { fill_cache: true, snapshot: Some(snaps[i].snap.clone()) };
                full_scan_check("snapscan", seed, step, &db, ro, &snaps[i].model);
            }
        } else if r < 850 {
            // walk fresh iterator at snapshot
            if !snaps.is_empty() {
                let i = rng.gen_range(0..snaps.len());
                let ro = ReadOptions { fill_cache: true, snapshot: Some(snaps[i].snap.clone()) };
                let mut it: DbIter = Box::new(db.new_iterator(ro).unwrap());
                let mut pos = None;
                walk("snapwalk", seed, step, &mut rng, &mut it, &snaps[i].model, &mut pos, &cfg, 40);
            }
        } else if r < 880 {
            if iters.len() < 4 {
                let ro = if !snaps.is_empty() && rng.gen_bool(0.3) {
                    let i = rng.gen_range(0..snaps.len());
                    (ReadOptions { fill_cache: true, snapshot: Some(snaps[i].snap.clone()) }, snaps[i].model.clone())
                } else {
                    (ReadOptions::default(), model.clone())
                };
                let it = db.new_iterator(ro.0).unwrap();
                iters.push(LiveIter { iter: Box::new(it), model: ro.1, pos: None });
            }
        } else if r < 930 {
            if !iters.is_empty() {
                let i = rng.gen_range(0..iters.len());
                let li = &mut iters[i];
                let n = rng.gen_range(1..30);
                walk("liveiter", seed, step, &mut rng, &mut li.iter, &li.model, &mut li.pos, &cfg, n);
            }
        } else if r < 945 {
            if !iters.is_empty() {
                let i = rng.gen_range(0..iters.len());
                iters.swap_remove(i);
            }
        } else if r < 965 {
            // latest state checks
            let nreads = if std::env::var("FUZZ_READS").is_ok() { 400 } else { 5 };
            for _ in 0..nreads {
                let k = make_key(cfg.key_style, rng.gen_range(0..cfg.nkeys + 2));
                get_check("get", seed, step, &db, ReadOptions::default(), &model, &k);
            }
            if rng.gen_bool(0.3) {
                full_scan_check("scan", seed, step, &db, ReadOptions::default(), &model);
            }
        } else if r < 985 {
            let a = make_key(cfg.key_style, rng.gen_range(0..cfg.nkeys));
            let b = make_key(cfg.key_style, rng.gen_range(0..cfg.nkeys));
            match rng.gen_range(0..4) {
                0 => db.compact_range(None..None),
                1 => db.compact_range(Some(a.as_slice())..None),
                2 => db.compact_range(None..Some(b.as_slice())),
                _ => db.compact_range(Some(a.as_slice())..Some(b.as_slice())),
            }
        } else if r < 992 {
            std::thread::sleep(std::time::Duration::from_millis(rng.gen_range(0..15)));
        } else {
            // reopen; all snapshots and iterators go away
            iters.clear();
            for s in snaps.drain(..) {
                db.release_snapshot(s.snap);
            }
            drop(db);
            db = DB::open(mk_opts(&cfg)).unwrap();
            full_scan_check("reopen", seed, step, &db, ReadOptions::default(), &model);
        }
    }

    if std::env::var("FUZZ_LEVELS").is_ok() {
        let lv: Vec<String> = (0..7).map(|l| db.get_descriptor(raindb::db::DatabaseDescriptor::NumFilesAtLevel(l)).unwrap()).collect();
        println!("seed {seed}: mem {} file {} block {} keys {} style {} levels {:?}", cfg.memtable, cfg.file_size, cfg.block_size, cfg.nkeys, cfg.key_style, lv);
    }
    // final check of all
    for (i, s) in snaps.iter().enumerate() {
        let ro = ReadOptions { fill_cache: true, snapshot: Some(s.snap.clone()) };
        full_scan_check(&format!("final-snap{i}"), seed, cfg.steps, &db, ro.clone(), &s.model);
        for i in 0..cfg.nkeys + 2 {
            let k = make_key(cfg.key_style, i);
            get_check("final-snapget", seed, cfg.steps, &db, ro.clone(), &s.model, &k);
        }
    }
    for li in iters.iter_mut() {
        li.iter.seek_to_first().unwrap();
        li.pos = li.model.keys().next().cloned();
        loop {
            check_pos("final-iter", seed, cfg.steps, &*li.iter, &li.model, &li.pos);
            match li.pos.clone() {
                None => break,
                Some(k) => {
                    li.iter.next();
                    li.pos = model_next(&li.model, &k);
                }
            }
        }
    }
    iters.clear();
    for s in snaps.drain(..) {
        db.release_snapshot(s.snap);
    }
}

#[test]
fn fuzz() {
    let spec = std::env::var("FUZZ_SEEDS").unwrap_or("0..8".into());
    let (a, b) = spec.split_once("..").unwrap();
    let (a, b): (u64, u64) = (a.parse().unwrap(), b.parse().unwrap());
    std::fs::create_dir_all(std::env::var("FUZZ_DIR").unwrap_or("/tmp/a3/C03/target/fuzz".into())).unwrap();
    let mut failed = vec![];
    for seed in a..b {
        let res = std::panic::catch_unwind(|| run_seed(seed));
        if let Err(e) = res {
            let msg = e
                .downcast_ref::<String>()
                .cloned()
                .or_else(|| e.downcast_ref::<&str>().map(|s| s.to_string()))
                .unwrap_or_default();
            println!("FAILED seed {seed}: {msg}");
            failed.push(seed);
        }
    }
    println!("failed seeds: {:?}", failed);
    assert!(failed.is_empty());
}
