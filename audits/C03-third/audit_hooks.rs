// Park a reader between version capture and its reads while flushes, compactions and obsolete-file
// deletion complete.
// run: cargo test --offline --release --features verif --test audit_hooks -- --nocapture --test-threads=1
#![cfg(feature = "verif")]

use std::collections::BTreeMap;
use std::sync::atomic::{AtomicBool, AtomicU64, Ordering};
use std::sync::{Arc, Condvar, Mutex};
use std::time::Duration;

use raindb::fs::{FileSystem, OsFileSystem};
use raindb::verif::Handler;
use raindb::{DbOptions, RainDbIterator, ReadOptions, WriteOptions, DB};
use rand::rngs::StdRng;
use rand::{Rng, SeedableRng};

struct Park {
    point: Mutex<&'static str>,
    parked: Mutex<bool>,
    parked_cv: Condvar,
    release: Mutex<bool>,
    release_cv: Condvar,
    armed: AtomicBool,
    hits: AtomicU64,
}

impl Handler for Park {
    fn pause(&self, point: &'static str, _args: &[u64]) {
        if !self.armed.load(Ordering::SeqCst) {
            return;
        }
        if std::thread::current().name() != Some("reader") {
            return;
        }
        if *self.point.lock().unwrap() != point {
            return;
        }
        self.armed.store(false, Ordering::SeqCst);
        self.hits.fetch_add(1, Ordering::SeqCst);
        {
            *self.parked.lock().unwrap() = true;
            self.parked_cv.notify_all();
        }
        let mut r = self.release.lock().unwrap();
        while !*r {
            r = self.release_cv.wait(r).unwrap();
        }
        *r = false;
    }
    fn note(&self, _point: &'static str, _args: &[u64]) {}
}

fn key(i: usize) -> Vec<u8> {
    format!("k{:03}", i).into_bytes()
}

#[test]
fn parked_reader() {
    let base = std::env::var("FUZZ_DIR").unwrap_or("/tmp/a3/C03/target/fuzz".into());
    std::fs::create_dir_all(&base).unwrap();
    let park = Arc::new(Park {
        point: Mutex::new(""),
        parked: Mutex::new(false),
        parked_cv: Condvar::new(),
        release: Mutex::new(false),
        release_cv: Condvar::new(),
        armed: AtomicBool::new(false),
        hits: AtomicU64::new(0),
    });
    raindb::verif::set_handler(Some(park.clone()));
    let mut violations = 0;
    let mut runs = 0;
    for seed in 0..30u64 {
        for point in ["get.unlocked", "get.before_imm", "get.before_tables"] {
            for with_snapshot in [true, false] {
                let mut rng = StdRng::seed_from_u64(seed);
                let dir = tempfile::Builder::new().prefix("hk-").tempdir_in(&base).unwrap();
                let fs: Arc<dyn FileSystem> = Arc::new(OsFileSystem::new());
                let opts = DbOptions {
                    db_path: dir.path().to_str().unwrap().to_string(),
                    max_memtable_size: [800usize, 3000][rng.gen_range(0..2)],
                    max_file_size: [1u64, 400, 3000][rng.gen_range(0..3)],
                    max_block_size: [1usize, 100][rng.gen_range(0..2)],
                    filesystem_provider: fs,
                    create_if_missing: true,
                    ..DbOptions::default()
                };
                let db = Arc::new(DB::open(opts).unwrap());
                let mut model: BTreeMap<Vec<u8>, Vec<u8>> = BTreeMap::new();
                let nkeys = 30;
                let mut c = 0;
                let pre = rng.gen_range(0..400);
                for _ in 0..pre {
                    let k = key(rng.gen_range(0..nkeys));
                    if rng.gen_bool(0.75) {
                        c += 1;
                        let v = format!("v{c}-{}", ".".repeat(rng.gen_range(0..40))).into_bytes();
                        db.put(WriteOptions::default(), k.clone(), v.clone()).unwrap();
                        model.insert(k, v);
                    } else {
                        db.delete(WriteOptions::default(), k.clone()).unwrap();
                        model.remove(&k);
                    }
                }
                if rng.gen_bool(0.5) {
                    db.compact_range(None..None);
                }
                for _ in 0..rng.gen_range(0..60) {
                    let k = key(rng.gen_range(0..nkeys));
                    c += 1;
                    let v = format!("w{c}").into_bytes();
                    db.put(WriteOptions::default(), k.clone(), v.clone()).unwrap();
                    model.insert(k, v);
                }
                let snap = if with_snapshot { Some(db.get_snapshot()) } else { None };
                let frozen = model.clone();
                let target = key(rng.gen_range(0..nkeys));

                *park.point.lock().unwrap() = point;
                *park.parked.lock().unwrap() = false;
                park.armed.store(true, Ordering::SeqCst);
                let db2 = Arc::clone(&db);
                let ro = ReadOptions { fill_cache: rng.gen_bool(0.5), snapshot: snap.clone() };
                let t2 = target.clone();
                let reader = std::thread::Builder::new()
                    .name("reader".into())
                    .spawn(move || db2.get(ro, &t2))
                    .unwrap();
                // wait until parked (or the get finished without reaching the point)
                let mut reached = true;
                {
                    let mut p = park.parked.lock().unwrap();
                    let mut waited = 0;
                    while !*p {
                        let (g, to) = park.parked_cv.wait_timeout(p, Duration::from_millis(50)).unwrap();
                        p = g;
                        if to.timed_out() {
                            waited += 1;
                            if reader.is_finished() || waited > 40 {
                                reached = false;
                                break;
                            }
                        }
                    }
                }
                park.armed.store(false, Ordering::SeqCst);
                if reached {
                    // churn: overwrite and delete everything, rotate memtables, compact, collect
                    for round in 0..3 {
                        for i in 0..nkeys {
                            c += 1;
                            if (i + round) % 3 == 0 {
                                db.delete(WriteOptions::default(), key(i)).unwrap();
                            } else {
                                db.put(WriteOptions::default(), key(i), format!("x{c}-{}", "#".repeat(60)).into_bytes()).unwrap();
                            }
                        }
                        db.compact_range(None..None);
                    }
                    std::thread::sleep(Duration::from_millis(30));
                    *park.release.lock().unwrap() = true;
                    park.release_cv.notify_all();
                }
                let got = reader.join().unwrap();
                runs += 1;
                let want = frozen.get(&target);
                let ok = match (&got, want) {
                    (Ok(v), Some(w)) => v == w,
                    (Err(raindb::RainDBError::KeyNotFound), None) => true,
                    _ => false,
                };
                if !ok {
                    violations += 1;
                    println!(
                        "VIOLATION seed {seed} point {point} snapshot {with_snapshot} reached {reached}: get({}) = {:?} want {:?}",
                        String::from_utf8_lossy(&target),
                        got.as_ref().map(|v| String::from_utf8_lossy(v).to_string()),
                        want.map(|v| String::from_utf8_lossy(v).to_string())
                    );
                }
                if let Some(s) = snap {
                    db.release_snapshot(s);
                }
            }
        }
    }
    raindb::verif::set_handler(None);
    println!("runs {runs} parked {} violations {violations}", park.hits.load(Ordering::SeqCst));
    assert_eq!(violations, 0);
}
