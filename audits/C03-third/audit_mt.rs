// Multi-threaded self-consistency: a snapshot / iterator must keep showing its first scan.
// run: MT_SECS=20 cargo test --offline --release --test audit_mt -- --nocapture

use std::sync::atomic::{AtomicBool, AtomicU64, Ordering};
use std::sync::Arc;
use std::time::{Duration, Instant};

use raindb::fs::{FileSystem, OsFileSystem};
use raindb::{Batch, DbOptions, RainDbIterator, ReadOptions, WriteOptions, DB};
use rand::rngs::StdRng;
use rand::{Rng, SeedableRng};

fn key(i: usize) -> Vec<u8> {
    format!("key{:05}", i).into_bytes()
}

fn scan_fwd<I: RainDbIterator<Key = Vec<u8>, Error = raindb::RainDBError>>(
    it: &mut I,
) -> Vec<(Vec<u8>, Vec<u8>)> {
    let mut out = vec![];
    it.seek_to_first().unwrap();
    while it.is_valid() {
        let (k, v) = it.current().unwrap();
        out.push((k.clone(), v.clone()));
        it.next();
    }
    assert!(it.status().is_none(), "status {:?}", it.status());
    out
}

fn scan_bwd<I: RainDbIterator<Key = Vec<u8>, Error = raindb::RainDBError>>(
    it: &mut I,
) -> Vec<(Vec<u8>, Vec<u8>)> {
    let mut out = vec![];
    it.seek_to_last().unwrap();
    while it.is_valid() {
        let (k, v) = it.current().unwrap();
        out.push((k.clone(), v.clone()));
        it.prev();
    }
    assert!(it.status().is_none(), "status {:?}", it.status());
    out.reverse();
    out
}

fn diff(a: &[(Vec<u8>, Vec<u8>)], b: &[(Vec<u8>, Vec<u8>)]) -> String {
    let am: std::collections::BTreeMap<_, _> = a.iter().cloned().collect();
    let bm: std::collections::BTreeMap<_, _> = b.iter().cloned().collect();
    let mut s = String::new();
    for (k, v) in &am {
        match bm.get(k) {
            None => s += &format!(" [{} only in baseline = {}]", String::from_utf8_lossy(k), String::from_utf8_lossy(&v[..v.len().min(20)])),
            Some(w) if w != v => s += &format!(" [{}: baseline {} now {}]", String::from_utf8_lossy(k), String::from_utf8_lossy(&v[..v.len().min(20)]), String::from_utf8_lossy(&w[..w.len().min(20)])),
            _ => {}
        }
    }
    for (k, w) in &bm {
        if !am.contains_key(k) {
            s += &format!(" [{} only now = {}]", String::from_utf8_lossy(k), String::from_utf8_lossy(&w[..w.len().min(20)]));
        }
    }
    if s.is_empty() && a != b {
        s = format!("order/dup differs: {} vs {}", a.len(), b.len());
    }
    s
}

#[test]
fn mt() {
    let secs: u64 = std::env::var("MT_SECS").ok().and_then(|s| s.parse().ok()).unwrap_or(15);
    let seed: u64 = std::env::var("MT_SEED").ok().and_then(|s| s.parse().ok()).unwrap_or(1);
    let nkeys: usize = std::env::var("MT_KEYS").ok().and_then(|s| s.parse().ok()).unwrap_or(150);
    let base = std::env::var("FUZZ_DIR").unwrap_or("/tmp/a3/C03/target/fuzz".into());
    std::fs::create_dir_all(&base).unwrap();
    let dir = tempfile::Builder::new().prefix("mt-").tempdir_in(base).unwrap();
    let fs: Arc<dyn FileSystem> = Arc::new(OsFileSystem::new());
    let mut r0 = StdRng::seed_from_u64(seed);
    let opts = DbOptions {
        db_path: dir.path().to_str().unwrap().to_string(),
        max_memtable_size: [1500usize, 4000, 16000][r0.gen_range(0..3)],
        max_file_size: [1u64, 500, 2500][r0.gen_range(0..3)],
        max_block_size: [1usize, 100, 600][r0.gen_range(0..3)],
        filesystem_provider: fs,
        create_if_missing: true,
        ..DbOptions::default()
    };
    println!("mt seed {seed}: memtable {} file {} block {} keys {nkeys}", opts.max_memtable_size, opts.max_file_size, opts.max_block_size);
    #[cfg(feature = "verif")]
    {
        struct Jitter(AtomicU64);
        impl raindb::verif::Handler for Jitter {
            fn pause(&self, point: &'static str, _args: &[u64]) {
                // cheap xorshift; stretch the windows at every scheduling point
                let mut x = self.0.fetch_add(0x9E3779B97F4A7C15, Ordering::Relaxed);
                x ^= x >> 29;
                x = x.wrapping_mul(0xBF58476D1CE4E5B9);
                x ^= x >> 32;
                let heavy = point.starts_with("gc.") || point.starts_with("flush.") || point.starts_with("get.") || point == "manifest.before_append";
                if x % 4 == 0 {
                    let us = if heavy { x % 3000 } else { x % 200 };
                    std::thread::sleep(Duration::from_micros(us));
                } else if x % 4 == 1 {
                    std::thread::yield_now();
                }
            }
            fn note(&self, _point: &'static str, _args: &[u64]) {}
        }
        raindb::verif::set_handler(Some(Arc::new(Jitter(AtomicU64::new(seed)))));
        println!("jitter handler installed");
    }
    let db = Arc::new(DB::open(opts).unwrap());
    let stop = Arc::new(AtomicBool::new(false));
    let counter = Arc::new(AtomicU64::new(0));
    let failures = Arc::new(parking_lot_free::Msgs::default());
    let mut handles = vec![];

    for w in 0..2u64 {
        let db = Arc::clone(&db);
        let stop = Arc::clone(&stop);
        let counter = Arc::clone(&counter);
        handles.push(std::thread::spawn(move || {
            let mut rng = StdRng::seed_from_u64(seed * 100 + w);
            while !stop.load(Ordering::Relaxed) {
                let r = rng.gen_range(0..100);
                let c = counter.fetch_add(1, Ordering::Relaxed);
                if r < 60 {
                    let mut v = format!("w{w}c{c}-").into_bytes();
                    v.extend(std::iter::repeat(b'.').take(rng.gen_range(0..80)));
                    db.put(WriteOptions::default(), key(rng.gen_range(0..nkeys)), v).unwrap();
                } else if r < 85 {
                    db.delete(WriteOptions::default(), key(rng.gen_range(0..nkeys))).unwrap();
                } else {
                    let mut b = Batch::new();
                    for j in 0..rng.gen_range(1..10) {
                        if rng.gen_bool(0.7) {
                            b.add_put(key(rng.gen_range(0..nkeys)), format!("w{w}c{c}b{j}").into_bytes());
                        } else {
                            b.add_delete(key(rng.gen_range(0..nkeys)));
                        }
                    }
                    db.apply(WriteOptions::default(), b).unwrap();
                }
                if rng.gen_range(0..50) == 0 {
                    std::thread::sleep(Duration::from_micros(rng.gen_range(0..2000)));
                }
            }
        }));
    }
    {
        let db = Arc::clone(&db);
        let stop = Arc::clone(&stop);
        handles.push(std::thread::spawn(move || {
            let mut rng = StdRng::seed_from_u64(seed * 100 + 50);
            while !stop.load(Ordering::Relaxed) {
                std::thread::sleep(Duration::from_millis(rng.gen_range(5..60)));
                let a = key(rng.gen_range(0..nkeys));
                let b = key(rng.gen_range(0..nkeys));
                match rng.gen_range(0..4) {
                    0 => db.compact_range(None..None),
                    1 => db.compact_range(Some(a.as_slice())..None),
                    2 => db.compact_range(None..Some(b.as_slice())),
                    _ => db.compact_range(Some(a.as_slice())..Some(b.as_slice())),
                }
            }
        }));
    }
    for rdr in 0..3u64 {
        let db = Arc::clone(&db);
        let stop = Arc::clone(&stop);
        let failures = Arc::clone(&failures);
        handles.push(std::thread::spawn(move || {
            let mut rng = StdRng::seed_from_u64(seed * 100 + 70 + rdr);
            let mut rounds = 0u64;
            while !stop.load(Ordering::Relaxed) {
                rounds += 1;
                let use_snapshot = rng.gen_bool(0.6);
                let snap = if use_snapshot { Some(db.get_snapshot()) } else { None };
                let ro = ReadOptions { fill_cache: rng.gen_bool(0.7), snapshot: snap.clone() };
                let mut held = db.new_iterator(ro.clone()).unwrap();
                let baseline = scan_fwd(&mut held);
                let checks = rng.gen_range(2..12);
                for c in 0..checks {
                    std::thread::sleep(Duration::from_millis(rng.gen_range(0..25)));
                    let what = rng.gen_range(0..5);
                    let tag = format!("reader {rdr} round {rounds} check {c} kind {what} snapshot {use_snapshot}");
                    match what {
                        0 => {
                            let now = scan_fwd(&mut held);
                            if now != baseline {
                                failures.push(format!("{tag}: held iterator forward rescan differs:{}", diff(&baseline, &now)));
                            }
                        }
                        1 => {
                            let now = scan_bwd(&mut held);
                            if now != baseline {
                                failures.push(format!("{tag}: held iterator backward rescan differs:{}", diff(&baseline, &now)));
                            }
                        }
                        2 if use_snapshot => {
                            let mut it = db.new_iterator(ro.clone()).unwrap();
                            let now = if rng.gen_bool(0.5) { scan_fwd(&mut it) } else { scan_bwd(&mut it) };
                            if now != baseline {
                                failures.push(format!("{tag}: fresh iterator at snapshot differs:{}", diff(&baseline, &now)));
                            }
                        }
                        3 if use_snapshot => {
                            let bm: std::collections::BTreeMap<_, _> = baseline.iter().cloned().collect();
                            for _ in 0..40 {
                                let k = key(rng.gen_range(0..nkeys + 3));
                                let got = db.get(ro.clone(), &k);
                                match (got, bm.get(&k)) {
                                    (Ok(v), Some(w)) if &v == w => {}
                                    (Err(raindb::RainDBError::KeyNotFound), None) => {}
                                    (g, w) => failures.push(format!(
                                        "{tag}: get({}) = {:?} but baseline {:?}",
                                        String::from_utf8_lossy(&k),
                                        g.map(|v| String::from_utf8_lossy(&v[..v.len().min(20)]).to_string()),
                                        w.map(|v| String::from_utf8_lossy(&v[..v.len().min(20)]).to_string())
                                    )),
                                }
                            }
                        }
                        _ => {
                            // random seeks on the held iterator
                            let bm: std::collections::BTreeMap<_, _> = baseline.iter().cloned().collect();
                            for _ in 0..20 {
                                let k = key(rng.gen_range(0..nkeys + 3));
                                held.seek(&k).unwrap();
                                let want = bm.range(k.clone()..).next();
                                let got = held.current().map(|(a, b)| (a.clone(), b.clone()));
                                let want = want.map(|(a, b)| (a.clone(), b.clone()));
                                if got != want {
                                    failures.push(format!("{tag}: seek({}) got {:?} want {:?}", String::from_utf8_lossy(&k),
                                        got.map(|(a, _)| String::from_utf8_lossy(&a).to_string()), want.map(|(a, _)| String::from_utf8_lossy(&a).to_string())));
                                }
                                // step back and forth
                                if held.is_valid() && rng.gen_bool(0.5) {
                                    held.prev();
                                    let wantp = bm.range(..k.clone()).next_back().map(|(a, b)| (a.clone(), b.clone()));
                                    let gotp = held.current().map(|(a, b)| (a.clone(), b.clone()));
                                    if gotp != wantp {
                                        failures.push(format!("{tag}: seek({})+prev got {:?} want {:?}", String::from_utf8_lossy(&k),
                                            gotp.map(|(a, _)| String::from_utf8_lossy(&a).to_string()), wantp.map(|(a, _)| String::from_utf8_lossy(&a).to_string())));
                                    }
                                }
                            }
                        }
                    }
                    if failures.len() > 5 {
                        break;
                    }
                }
                drop(held);
                if let Some(s) = snap {
                    db.release_snapshot(s);
                }
                if failures.len() > 5 {
                    break;
                }
            }
        }));
    }

    let start = Instant::now();
    while start.elapsed() < Duration::from_secs(secs) && failures.len() == 0 {
        std::thread::sleep(Duration::from_millis(100));
    }
    stop.store(true, Ordering::Relaxed);
    for h in handles {
        h.join().unwrap();
    }
    let msgs = failures.take();
    for m in &msgs {
        println!("VIOLATION: {m}");
    }
    println!("ops: {}", counter.load(Ordering::Relaxed));
    assert!(msgs.is_empty());
}

mod parking_lot_free {
    use std::sync::Mutex;
    #[derive(Default)]
    pub struct Msgs(Mutex<Vec<String>>);
    impl Msgs {
        pub fn push(&self, s: String) {
            self.0.lock().unwrap().push(s);
        }
        pub fn len(&self) -> usize {
            self.0.lock().unwrap().len()
        }
        pub fn take(&self) -> Vec<String> {
            std::mem::take(&mut *self.0.lock().unwrap())
        }
    }
}
