// Single-fault sweep over table-file reads while reading at a snapshot.
// run: cargo test --offline --release --test audit_faults -- --nocapture

use std::collections::BTreeMap;
use std::io::{self, Read, Seek, SeekFrom, Write};
use std::path::{Path, PathBuf};
use std::sync::atomic::{AtomicBool, AtomicI64, AtomicU64, Ordering};
use std::sync::Arc;

use raindb::fs::{FileLock, FileSystem, OsFileSystem, RandomAccessFile, ReadonlyRandomAccessFile};
use raindb::{DbOptions, RainDbIterator, ReadOptions, WriteOptions, DB};
use rand::rngs::StdRng;
use rand::{Rng, SeedableRng};

#[derive(Default)]
struct Ctl {
    /// countdown: when it reaches 0 the read fails; negative = disarmed
    countdown: AtomicI64,
    persistent: AtomicBool,
    tripped: AtomicBool,
    reads: AtomicU64,
    fail_opens: AtomicBool,
}

impl Ctl {
    fn hit(&self) -> bool {
        self.reads.fetch_add(1, Ordering::SeqCst);
        if self.persistent.load(Ordering::SeqCst) && self.tripped.load(Ordering::SeqCst) {
            return true;
        }
        let c = self.countdown.load(Ordering::SeqCst);
        if c < 0 {
            return false;
        }
        let prev = self.countdown.fetch_sub(1, Ordering::SeqCst);
        if prev == 0 {
            self.tripped.store(true, Ordering::SeqCst);
            return true;
        }
        false
    }
}

struct FaultFs {
    inner: OsFileSystem,
    ctl: Arc<Ctl>,
}

struct FaultFile {
    inner: Box<dyn ReadonlyRandomAccessFile>,
    ctl: Arc<Ctl>,
    is_table: bool,
}

impl Read for FaultFile {
    fn read(&mut self, buf: &mut [u8]) -> io::Result<usize> {
        if self.is_table && self.ctl.hit() {
            return Err(io::Error::new(io::ErrorKind::Other, "injected read fault"));
        }
        self.inner.read(buf)
    }
}
impl Seek for FaultFile {
    fn seek(&mut self, pos: SeekFrom) -> io::Result<u64> {
        self.inner.seek(pos)
    }
}
impl ReadonlyRandomAccessFile for FaultFile {
    fn read_from(&self, buf: &mut [u8], offset: usize) -> io::Result<usize> {
        if self.is_table && self.ctl.hit() {
            return Err(io::Error::new(io::ErrorKind::Other, "injected read fault"));
        }
        self.inner.read_from(buf, offset)
    }
    fn len(&self) -> io::Result<u64> {
        self.inner.len()
    }
}

impl FileSystem for FaultFs {
    fn get_name(&self) -> String {
        "FaultFs".into()
    }
    fn create_dir(&self, path: &Path) -> io::Result<()> {
        self.inner.create_dir(path)
    }
    fn create_dir_all(&self, path: &Path) -> io::Result<()> {
        self.inner.create_dir_all(path)
    }
    fn list_dir(&self, path: &Path) -> io::Result<Vec<PathBuf>> {
        self.inner.list_dir(path)
    }
    fn open_file(&self, path: &Path) -> io::Result<Box<dyn ReadonlyRandomAccessFile>> {
        let is_table = path.extension().map(|e| e == "rdb").unwrap_or(false);
        if is_table && self.ctl.fail_opens.load(Ordering::SeqCst) && self.ctl.hit() {
            return Err(io::Error::new(io::ErrorKind::Other, "injected open fault"));
        }
        let inner = self.inner.open_file(path)?;
        Ok(Box::new(FaultFile { inner, ctl: Arc::clone(&self.ctl), is_table }))
    }
    fn rename(&self, from: &Path, to: &Path) -> io::Result<()> {
        self.inner.rename(from, to)
    }
    fn create_file(&self, path: &Path, append: bool) -> io::Result<Box<dyn RandomAccessFile>> {
        self.inner.create_file(path, append)
    }
    fn remove_file(&self, path: &Path) -> io::Result<()> {
        self.inner.remove_file(path)
    }
    fn remove_dir(&self, path: &Path) -> io::Result<()> {
        self.inner.remove_dir(path)
    }
    fn remove_dir_all(&self, path: &Path) -> io::Result<()> {
        self.inner.remove_dir_all(path)
    }
    fn get_file_size(&self, path: &Path) -> io::Result<u64> {
        self.inner.get_file_size(path)
    }
    fn is_dir(&self, path: &Path) -> io::Result<bool> {
        self.inner.is_dir(path)
    }
    fn lock_file(&self, path: &Path) -> io::Result<FileLock> {
        self.inner.lock_file(path)
    }
}

#[allow(dead_code)]
fn unused(_: &mut dyn Write) {}

type Model = BTreeMap<Vec<u8>, Vec<u8>>;

fn key(i: usize) -> Vec<u8> {
    format!("k{:03}", i).into_bytes()
}

fn build(seed: u64, dir: &Path, ctl: &Arc<Ctl>) -> (DB, Model, raindb::Snapshot, Model, DbOptions) {
    let mut rng = StdRng::seed_from_u64(seed);
    let fs: Arc<dyn FileSystem> = Arc::new(FaultFs { inner: OsFileSystem::new(), ctl: Arc::clone(ctl) });
    let opts = DbOptions {
        db_path: dir.to_str().unwrap().to_string(),
        max_memtable_size: 1200,
        max_file_size: [200u64, 1500][rng.gen_range(0..2)],
        max_block_size: [1usize, 120][rng.gen_range(0..2)],
        filesystem_provider: fs,
        create_if_missing: true,
        ..DbOptions::default()
    };
    let db = DB::open(opts.clone()).unwrap();
    let mut model = Model::new();
    let nkeys = 40;
    let mut snap = None;
    let mut c = 0u64;
    for step in 0..900 {
        let k = key(rng.gen_range(0..nkeys));
        if rng.gen_range(0..100) < 70 {
            c += 1;
            let mut v = format!("v{c}").into_bytes();
            v.extend(std::iter::repeat(b'.').take(rng.gen_range(0..40)));
            db.put(WriteOptions::default(), k.clone(), v.clone()).unwrap();
            model.insert(k, v);
        } else {
            db.delete(WriteOptions::default(), k.clone()).unwrap();
            model.remove(&k);
        }
        if step == 450 {
            snap = Some((db.get_snapshot(), model.clone()));
        }
        if step == 300 || step == 600 {
            db.compact_range(None..None);
        }
    }
    // let background work settle
    std::thread::sleep(std::time::Duration::from_millis(300));
    let (s, sm) = snap.unwrap();
    (db, model, s, sm, opts)
}

/// Returns number of violations found; prints them.
fn check_reads(tag: &str, db: &DB, ro: &ReadOptions, model: &Model, ctl: &Ctl) -> usize {
    let mut bad = 0;
    // gets
    for i in 0..42 {
        let k = key(i);
        match (db.get(ro.clone(), &k), model.get(&k)) {
            (Ok(v), Some(w)) if &v == w => {}
            (Err(raindb::RainDBError::KeyNotFound), None) => {}
            (Err(raindb::RainDBError::KeyNotFound), Some(w)) => {
                bad += 1;
                println!("VIOLATION {tag}: get({}) = KeyNotFound but committed value {:?} (fault tripped: {})",
                    String::from_utf8_lossy(&k), String::from_utf8_lossy(w), ctl.tripped.load(Ordering::SeqCst));
            }
            (Err(_e), _) => {}
            (Ok(v), w) => {
                bad += 1;
                println!("VIOLATION {tag}: get({}) = Ok({:?}) but want {:?} (fault tripped: {})",
                    String::from_utf8_lossy(&k), String::from_utf8_lossy(&v), w.map(|w| String::from_utf8_lossy(w).to_string()), ctl.tripped.load(Ordering::SeqCst));
            }
        }
    }
    // scans
    for dir in 0..2 {
        let it = db.new_iterator(ro.clone());
        let mut it = match it {
            Ok(it) => it,
            Err(_) => continue,
        };
        let mut got: Vec<(Vec<u8>, Vec<u8>)> = vec![];
        let mut status_seen = false;
        let pos = if dir == 0 { it.seek_to_first() } else { it.seek_to_last() };
        if pos.is_err() {
            continue;
        }
        if it.status().is_some() {
            status_seen = true;
        }
        while it.is_valid() {
            let (k, v) = it.current().unwrap();
            got.push((k.clone(), v.clone()));
            if dir == 0 {
                it.next();
            } else {
                it.prev();
            }
            if it.status().is_some() {
                status_seen = true;
                break;
            }
        }
        if it.status().is_some() {
            status_seen = true;
        }
        if status_seen {
            continue;
        }
        if dir == 1 {
            got.reverse();
        }
        let want: Vec<(Vec<u8>, Vec<u8>)> = model.iter().map(|(k, v)| (k.clone(), v.clone())).collect();
        if got != want {
            bad += 1;
            println!("VIOLATION {tag}: scan dir {dir} finished with status None but differs: got {} entries want {} (fault tripped: {})",
                got.len(), want.len(), ctl.tripped.load(Ordering::SeqCst));
        }
    }
    bad
}

#[test]
fn fault_sweep() {
    let base = std::env::var("FUZZ_DIR").unwrap_or("/tmp/a3/C03/target/fuzz".into());
    std::fs::create_dir_all(&base).unwrap();
    let mut total_bad = 0;
    let mut total_points = 0;
    for seed in 0..4u64 {
        let dir = tempfile::Builder::new().prefix("flt-").tempdir_in(&base).unwrap();
        let ctl = Arc::new(Ctl::default());
        ctl.countdown.store(-1, Ordering::SeqCst);
        let (db, model, snap, snap_model, opts) = build(seed, dir.path(), &ctl);
        let ro = ReadOptions { fill_cache: false, snapshot: Some(snap.clone()) };
        // dry run to count reads
        ctl.reads.store(0, Ordering::SeqCst);
        assert_eq!(check_reads("dry", &db, &ro, &snap_model, &ctl), 0);
        let nreads = ctl.reads.load(Ordering::SeqCst) as i64;
        println!("seed {seed}: {nreads} table reads in one pass");
        let stride = std::cmp::max(1, nreads / 400);
        for persistent in [false, true] {
            let mut n = 0;
            while n < nreads {
                ctl.persistent.store(persistent, Ordering::SeqCst);
                ctl.tripped.store(false, Ordering::SeqCst);
                ctl.countdown.store(n, Ordering::SeqCst);
                total_bad += check_reads(&format!("seed {seed} snap fault@{n} persistent={persistent}"), &db, &ro, &snap_model, &ctl);
                total_points += 1;
                ctl.countdown.store(-1, Ordering::SeqCst);
                ctl.persistent.store(false, Ordering::SeqCst);
                ctl.tripped.store(false, Ordering::SeqCst);
                // after the fault is gone everything must read fine again
                if n % (stride * 20) == 0 {
                    total_bad += check_reads(&format!("seed {seed} snap after fault@{n}"), &db, &ro, &snap_model, &ctl);
                }
                n += stride;
            }
        }
        db.release_snapshot(snap);
        drop(db);

        // faults while opening tables after a reopen (latest state)
        ctl.fail_opens.store(true, Ordering::SeqCst);
        let db = DB::open(opts.clone()).unwrap();
        let ro = ReadOptions { fill_cache: false, snapshot: None };
        ctl.reads.store(0, Ordering::SeqCst);
        assert_eq!(check_reads("dry2", &db, &ro, &model, &ctl), 0);
        drop(db);
        for n in 0..60 {
            let db = DB::open(opts.clone()).unwrap();
            ctl.tripped.store(false, Ordering::SeqCst);
            ctl.countdown.store(n, Ordering::SeqCst);
            total_bad += check_reads(&format!("seed {seed} reopen fault@{n}"), &db, &ro, &model, &ctl);
            total_points += 1;
            ctl.countdown.store(-1, Ordering::SeqCst);
            total_bad += check_reads(&format!("seed {seed} reopen after fault@{n}"), &db, &ro, &model, &ctl);
            drop(db);
        }
        ctl.fail_opens.store(false, Ordering::SeqCst);
    }
    println!("fault points: {total_points}, violations: {total_bad}");
    assert_eq!(total_bad, 0);
}
