//! Audit harness for the property "A torn final write costs at most the unacknowledged tail".
//!
//! A workload is run once on a recording file system (`CrashFs`). At every `write`/`append` call
//! of every file the recorder takes up to three crash images: the state of all files at that
//! instant with only 1 byte / half / all-but-one byte of the write applied. Every image is then
//! recovered (with `reuse_log_files` true and false), its contents are compared with the model,
//! more writes are applied, the database is closed cleanly, reopened, and compared again.
//!
//! Files of the database are append-only, so an image is a list of (buffer, length) pairs that
//! share the buffers of the recording run (cheap to take) and is materialized when it is checked.
//!
//! Every test FAILS if and only if some crash image violates the property; the message names the
//! image (write number, file, cut), the reuse settings and what was observed versus required.
//!
//! By default only every n-th image is checked (n differs per test, see `stride_from_env`).
//! Environment knobs:
//!   AUDIT_STRIDE=1       check every image (exhaustive; use `--release`)
//!   AUDIT_MIXED=1        also recover with one `reuse_log_files` setting and reopen with the other
//!   AUDIT_FULL_CUT=1     also crash right after each complete write (before the next one)
//!   AUDIT_DISK=1         recover on the real file system (`OsFileSystem`, below target/audit-disk)
//!   AUDIT_CRATE_MEMFS=1  recover on the crate's own `InMemoryFileSystem`
//!   AUDIT_SEED=k         other seeds for `torn_writes_random_configurations`
//!   AUDIT_WRITE_LOG=1    print the sizes of the recorded log/manifest writes

use std::collections::{BTreeMap, BTreeSet, HashMap};
use std::io::{self, Read, Seek, SeekFrom, Write};
use std::panic::{catch_unwind, AssertUnwindSafe};
use std::path::{Path, PathBuf};
use std::sync::atomic::{AtomicUsize, Ordering};
use std::sync::{mpsc, Arc, Mutex};
use std::time::Duration;

use raindb::fs::{
    FileLock, FileSystem, InMemoryFileSystem, RandomAccessFile, ReadonlyRandomAccessFile,
};
use raindb::{Batch, DbOptions, RainDBError, RainDbIterator, ReadOptions, WriteOptions, DB};

// ---------------------------------------------------------------------------------------------
// Recording file system
// ---------------------------------------------------------------------------------------------

type Buf = Arc<Mutex<Vec<u8>>>;

#[derive(Clone)]
struct ImageRec {
    /// All files at the instant of the crash: path, shared buffer, valid length.
    files: Vec<(PathBuf, Buf, usize)>,
    /// The file that receives the torn write.
    torn_path: PathBuf,
    /// The part of the final write that reached the disk.
    torn_prefix: Vec<u8>,
    /// Number of the write operation (0-based) in the recording run.
    write_op: usize,
    /// Length of the full write.
    full_len: usize,
    /// Number of workload operations acknowledged at the instant of the crash: 16 bits for each
    /// of up to four workload threads.
    acked: usize,
}

impl ImageRec {
    fn describe(&self) -> String {
        format!(
            "write op #{} to {:?} cut at {} of {} bytes, {} workload ops acknowledged",
            self.write_op,
            self.torn_path,
            self.torn_prefix.len(),
            self.full_len,
            (0..4)
                .map(|thread| ((self.acked >> (16 * thread)) & 0xffff).to_string())
                .collect::<Vec<_>>()
                .join("/")
        )
    }

    fn materialize(&self) -> CrashFs {
        let fs = CrashFs::new();
        {
            let mut shared = fs.shared.lock().unwrap();
            for (path, buf, len) in &self.files {
                let mut contents = buf.lock().unwrap()[..*len].to_vec();
                if *path == self.torn_path {
                    contents.extend_from_slice(&self.torn_prefix);
                }
                shared
                    .files
                    .insert(path.clone(), Arc::new(Mutex::new(contents)));
            }
            if !shared.files.contains_key(&self.torn_path) {
                shared.files.insert(
                    self.torn_path.clone(),
                    Arc::new(Mutex::new(self.torn_prefix.clone())),
                );
            }
        }
        fs
    }
}

impl ImageRec {
    /// Write the crash image below `root` on the real file system.
    fn materialize_on_disk(&self, root: &Path) {
        let _ = std::fs::remove_dir_all(root);
        std::fs::create_dir_all(root.join("wal")).unwrap();
        std::fs::create_dir_all(root.join("data")).unwrap();
        let mut wrote_torn = false;
        for (path, buf, len) in &self.files {
            let mut contents = buf.lock().unwrap()[..*len].to_vec();
            if *path == self.torn_path {
                contents.extend_from_slice(&self.torn_prefix);
                wrote_torn = true;
            }
            let target = root.join(path.strip_prefix(DB_PATH).unwrap());
            std::fs::write(target, contents).unwrap();
        }
        if !wrote_torn {
            let target = root.join(self.torn_path.strip_prefix(DB_PATH).unwrap());
            std::fs::write(target, &self.torn_prefix).unwrap();
        }
    }
}

fn disk_listing(root: &Path) -> String {
    let mut entries = vec![];
    for dir in [root.to_path_buf(), root.join("wal"), root.join("data")] {
        if let Ok(read_dir) = std::fs::read_dir(&dir) {
            for entry in read_dir.flatten() {
                if let Ok(metadata) = entry.metadata() {
                    if metadata.is_file() {
                        entries.push(format!(
                            "{}({})",
                            entry.path().strip_prefix(root).unwrap().display(),
                            metadata.len()
                        ));
                    }
                }
            }
        }
    }
    entries.sort();
    entries.join(" ")
}

#[derive(Default)]
struct Shared {
    files: HashMap<PathBuf, Buf>,
    recording: bool,
    images: Vec<ImageRec>,
    write_ops: usize,
    /// (path, length) of every write, for diagnostics.
    write_log: Vec<(PathBuf, usize)>,
}

struct CrashFs {
    shared: Arc<Mutex<Shared>>,
    acked: Arc<AtomicUsize>,
    locks: InMemoryFileSystem,
}

impl CrashFs {
    fn new() -> Self {
        CrashFs {
            shared: Arc::new(Mutex::new(Shared::default())),
            acked: Arc::new(AtomicUsize::new(0)),
            locks: InMemoryFileSystem::new(),
        }
    }

    fn set_recording(&self, recording: bool) {
        self.shared.lock().unwrap().recording = recording;
    }

    fn take_images(&self) -> Vec<ImageRec> {
        std::mem::take(&mut self.shared.lock().unwrap().images)
    }

    fn listing(&self) -> String {
        let shared = self.shared.lock().unwrap();
        let mut entries: Vec<String> = shared
            .files
            .iter()
            .map(|(path, buf)| format!("{}({})", path.display(), buf.lock().unwrap().len()))
            .collect();
        entries.sort();
        entries.join(" ")
    }
}

struct Handle {
    shared: Arc<Mutex<Shared>>,
    acked: Arc<AtomicUsize>,
    path: PathBuf,
    buf: Buf,
    cursor: u64,
    append_mode: bool,
}

impl Handle {
    fn do_write(&mut self, data: &[u8]) -> io::Result<usize> {
        if data.is_empty() {
            return Ok(0);
        }
        let mut shared = self.shared.lock().unwrap();
        let write_op = shared.write_ops;
        shared.write_ops += 1;
        shared.write_log.push((self.path.clone(), data.len()));
        let current_len = self.buf.lock().unwrap().len();
        if !self.append_mode {
            assert_eq!(
                self.cursor as usize, current_len,
                "harness assumption: files are only written at their end ({:?})",
                self.path
            );
        }
        if shared.recording {
            let n = data.len();
            let mut cuts: Vec<usize> = vec![1, n / 2, n.saturating_sub(1)];
            if std::env::var("AUDIT_FULL_CUT").is_ok() {
                // Also crash right after the complete write (i.e. before the next write)
                cuts.push(n);
                cuts.retain(|cut| *cut > 0 && *cut <= n);
            } else {
                cuts.retain(|cut| *cut > 0 && *cut < n);
            }
            cuts.sort_unstable();
            cuts.dedup();
            if !cuts.is_empty() {
                let files: Vec<(PathBuf, Buf, usize)> = shared
                    .files
                    .iter()
                    .map(|(path, buf)| (path.clone(), Arc::clone(buf), buf.lock().unwrap().len()))
                    .collect();
                // The file may have been unlinked while the handle is still open. Such a write
                // cannot be seen after a crash, skip it.
                let is_linked = shared
                    .files
                    .get(&self.path)
                    .map_or(false, |buf| Arc::ptr_eq(buf, &self.buf));
                if is_linked {
                    let acked = self.acked.load(Ordering::SeqCst);
                    for cut in cuts {
                        shared.images.push(ImageRec {
                            files: files.clone(),
                            torn_path: self.path.clone(),
                            torn_prefix: data[..cut].to_vec(),
                            write_op,
                            full_len: n,
                            acked,
                        });
                    }
                }
            }
        }
        let mut contents = self.buf.lock().unwrap();
        contents.extend_from_slice(data);
        self.cursor = contents.len() as u64;
        Ok(data.len())
    }
}

impl Read for Handle {
    fn read(&mut self, out: &mut [u8]) -> io::Result<usize> {
        let contents = self.buf.lock().unwrap();
        let start = (self.cursor as usize).min(contents.len());
        let count = out.len().min(contents.len() - start);
        out[..count].copy_from_slice(&contents[start..start + count]);
        self.cursor = (start + count) as u64;
        Ok(count)
    }
}

impl Write for Handle {
    fn write(&mut self, data: &[u8]) -> io::Result<usize> {
        self.do_write(data)
    }

    fn flush(&mut self) -> io::Result<()> {
        Ok(())
    }
}

impl Seek for Handle {
    fn seek(&mut self, pos: SeekFrom) -> io::Result<u64> {
        let len = self.buf.lock().unwrap().len() as i64;
        let target = match pos {
            SeekFrom::Start(offset) => offset as i64,
            SeekFrom::Current(offset) => self.cursor as i64 + offset,
            SeekFrom::End(offset) => len + offset,
        };
        if target < 0 {
            return Err(io::Error::new(io::ErrorKind::InvalidInput, "negative seek"));
        }
        self.cursor = target as u64;
        Ok(self.cursor)
    }
}

impl ReadonlyRandomAccessFile for Handle {
    fn read_from(&self, out: &mut [u8], offset: usize) -> io::Result<usize> {
        let contents = self.buf.lock().unwrap();
        let start = offset.min(contents.len());
        let count = out.len().min(contents.len() - start);
        out[..count].copy_from_slice(&contents[start..start + count]);
        Ok(count)
    }

    fn len(&self) -> io::Result<u64> {
        Ok(self.buf.lock().unwrap().len() as u64)
    }
}

impl RandomAccessFile for Handle {
    fn append(&mut self, data: &[u8]) -> io::Result<usize> {
        let saved = self.append_mode;
        self.append_mode = true;
        let result = self.do_write(data);
        self.append_mode = saved;
        result
    }
}

fn not_found(path: &Path) -> io::Error {
    io::Error::new(io::ErrorKind::NotFound, format!("{path:?} does not exist"))
}

impl FileSystem for CrashFs {
    fn get_name(&self) -> String {
        "CrashFs".to_string()
    }

    fn create_dir(&self, _path: &Path) -> io::Result<()> {
        Ok(())
    }

    fn create_dir_all(&self, _path: &Path) -> io::Result<()> {
        Ok(())
    }

    fn list_dir(&self, path: &Path) -> io::Result<Vec<PathBuf>> {
        let shared = self.shared.lock().unwrap();
        let mut children: BTreeSet<PathBuf> = BTreeSet::new();
        for file in shared.files.keys() {
            if let Ok(rest) = file.strip_prefix(path) {
                if let Some(first) = rest.components().next() {
                    children.insert(path.join(first));
                }
            }
        }
        Ok(children.into_iter().collect())
    }

    fn open_file(&self, path: &Path) -> io::Result<Box<dyn ReadonlyRandomAccessFile>> {
        let shared = self.shared.lock().unwrap();
        match shared.files.get(path) {
            Some(buf) => Ok(Box::new(Handle {
                shared: Arc::clone(&self.shared),
                acked: Arc::clone(&self.acked),
                path: path.to_path_buf(),
                buf: Arc::clone(buf),
                cursor: 0,
                append_mode: false,
            })),
            None => Err(not_found(path)),
        }
    }

    fn rename(&self, from: &Path, to: &Path) -> io::Result<()> {
        let mut shared = self.shared.lock().unwrap();
        match shared.files.remove(from) {
            Some(buf) => {
                shared.files.insert(to.to_path_buf(), buf);
                Ok(())
            }
            None => Err(not_found(from)),
        }
    }

    fn create_file(&self, path: &Path, append: bool) -> io::Result<Box<dyn RandomAccessFile>> {
        let mut shared = self.shared.lock().unwrap();
        if append {
            if let Some(buf) = shared.files.get(path) {
                let cursor = buf.lock().unwrap().len() as u64;
                return Ok(Box::new(Handle {
                    shared: Arc::clone(&self.shared),
                    acked: Arc::clone(&self.acked),
                    path: path.to_path_buf(),
                    buf: Arc::clone(buf),
                    cursor,
                    append_mode: true,
                }));
            }
        }
        let buf: Buf = Arc::new(Mutex::new(vec![]));
        shared.files.insert(path.to_path_buf(), Arc::clone(&buf));
        Ok(Box::new(Handle {
            shared: Arc::clone(&self.shared),
            acked: Arc::clone(&self.acked),
            path: path.to_path_buf(),
            buf,
            cursor: 0,
            append_mode: append,
        }))
    }

    fn remove_file(&self, path: &Path) -> io::Result<()> {
        let mut shared = self.shared.lock().unwrap();
        match shared.files.remove(path) {
            Some(_) => Ok(()),
            None => Err(not_found(path)),
        }
    }

    fn remove_dir(&self, _path: &Path) -> io::Result<()> {
        Ok(())
    }

    fn remove_dir_all(&self, path: &Path) -> io::Result<()> {
        let mut shared = self.shared.lock().unwrap();
        shared.files.retain(|file, _| !file.starts_with(path));
        Ok(())
    }

    fn get_file_size(&self, path: &Path) -> io::Result<u64> {
        let shared = self.shared.lock().unwrap();
        match shared.files.get(path) {
            Some(buf) => Ok(buf.lock().unwrap().len() as u64),
            None => Err(not_found(path)),
        }
    }

    fn is_dir(&self, path: &Path) -> io::Result<bool> {
        let shared = self.shared.lock().unwrap();
        if shared.files.contains_key(path) {
            return Ok(false);
        }
        Ok(shared.files.keys().any(|file| file.starts_with(path)))
    }

    fn lock_file(&self, path: &Path) -> io::Result<FileLock> {
        {
            let mut shared = self.shared.lock().unwrap();
            shared
                .files
                .entry(path.to_path_buf())
                .or_insert_with(|| Arc::new(Mutex::new(vec![])));
        }
        self.locks.lock_file(path)
    }
}

// ---------------------------------------------------------------------------------------------
// Workload and model
// ---------------------------------------------------------------------------------------------

#[derive(Clone, Debug)]
enum Op {
    Put(Vec<u8>, Vec<u8>),
    Del(Vec<u8>),
    Batch(Vec<(Vec<u8>, Option<Vec<u8>>)>),
    /// `compact_range(None..None)`: flushes the memtable and compacts every level.
    CompactAll,
}

type Model = BTreeMap<Vec<u8>, Vec<u8>>;

fn apply_to_model(model: &mut Model, op: &Op) {
    match op {
        Op::Put(key, value) => {
            model.insert(key.clone(), value.clone());
        }
        Op::Del(key) => {
            model.remove(key);
        }
        Op::Batch(entries) => {
            for (key, maybe_value) in entries {
                match maybe_value {
                    Some(value) => {
                        model.insert(key.clone(), value.clone());
                    }
                    None => {
                        model.remove(key);
                    }
                }
            }
        }
        Op::CompactAll => {}
    }
}

fn apply_to_db(db: &DB, op: &Op) -> Result<(), RainDBError> {
    match op {
        Op::Put(key, value) => db.put(WriteOptions::default(), key.clone(), value.clone()),
        Op::Del(key) => db.delete(WriteOptions::default(), key.clone()),
        Op::Batch(entries) => {
            let mut batch = Batch::new();
            for (key, maybe_value) in entries {
                match maybe_value {
                    Some(value) => {
                        batch.add_put(key.clone(), value.clone());
                    }
                    None => {
                        batch.add_delete(key.clone());
                    }
                }
            }
            db.apply(WriteOptions::default(), batch)
        }
        Op::CompactAll => {
            db.compact_range(None..None);
            Ok(())
        }
    }
}

fn universe(ops: &[Op]) -> BTreeSet<Vec<u8>> {
    let mut keys = BTreeSet::new();
    for op in ops {
        match op {
            Op::Put(key, _) | Op::Del(key) => {
                keys.insert(key.clone());
            }
            Op::Batch(entries) => {
                for (key, _) in entries {
                    keys.insert(key.clone());
                }
            }
            Op::CompactAll => {}
        }
    }
    keys
}

/// Small deterministic generator (xorshift) so that the demonstration does not depend on `rand`.
struct Rng(u64);

impl Rng {
    fn next(&mut self) -> u64 {
        let mut x = self.0;
        x ^= x << 13;
        x ^= x >> 7;
        x ^= x << 17;
        self.0 = x;
        x
    }

    fn below(&mut self, bound: u64) -> u64 {
        self.next() % bound
    }
}

fn value_of(rng: &mut Rng, tag: usize, len: usize) -> Vec<u8> {
    let mut value = format!("v{tag}-").into_bytes();
    while value.len() < len {
        value.push(b'a' + (rng.below(26) as u8));
    }
    value.truncate(len.max(1));
    value
}

fn key_of(index: u64) -> Vec<u8> {
    format!("key{index:04}").into_bytes()
}

fn mixed_workload(seed: u64, num_ops: usize, num_keys: u64, max_value_len: usize) -> Vec<Op> {
    let mut rng = Rng(seed);
    let mut ops = vec![];
    for tag in 0..num_ops {
        let choice = rng.below(100);
        let op = if choice < 60 {
            let len = 1 + rng.below(max_value_len as u64) as usize;
            Op::Put(key_of(rng.below(num_keys)), value_of(&mut rng, tag, len))
        } else if choice < 75 {
            Op::Del(key_of(rng.below(num_keys)))
        } else if choice < 97 {
            let mut entries = vec![];
            for _ in 0..(1 + rng.below(4)) {
                let key = key_of(rng.below(num_keys));
                if rng.below(4) == 0 {
                    entries.push((key, None));
                } else {
                    let len = 1 + rng.below(max_value_len as u64) as usize;
                    entries.push((key, Some(value_of(&mut rng, tag, len))));
                }
            }
            Op::Batch(entries)
        } else {
            Op::CompactAll
        };
        ops.push(op);
    }
    ops
}

#[derive(Clone, Copy, Debug)]
struct Sizes {
    max_memtable_size: usize,
    max_file_size: u64,
    max_block_size: usize,
}

const DB_PATH: &str = "/db";


fn options(fs: Arc<CrashFs>, sizes: Sizes, reuse_log_files: bool) -> DbOptions {
    let fs: Arc<dyn FileSystem> = fs;
    options_at(fs, DB_PATH, sizes, reuse_log_files)
}

fn options_at(
    fs: Arc<dyn FileSystem>,
    db_path: &str,
    sizes: Sizes,
    reuse_log_files: bool,
) -> DbOptions {
    DbOptions {
        db_path: db_path.to_string(),
        max_memtable_size: sizes.max_memtable_size,
        max_file_size: sizes.max_file_size,
        max_block_size: sizes.max_block_size,
        filesystem_provider: fs,
        create_if_missing: true,
        error_if_exists: false,
        reuse_log_files,
        ..DbOptions::default()
    }
}

fn dump(db: &DB, keys: &BTreeSet<Vec<u8>>) -> Result<Model, String> {
    let mut by_iterator = Model::new();
    {
        let mut iter = db
            .new_iterator(ReadOptions::default())
            .map_err(|err| format!("new_iterator failed: {err}"))?;
        iter.seek_to_first()
            .map_err(|err| format!("seek_to_first failed: {err}"))?;
        while iter.is_valid() {
            let (key, value) = iter.current().unwrap();
            by_iterator.insert(key.clone(), value.clone());
            iter.next();
        }
        if let Some(err) = iter.status() {
            return Err(format!("the iterator stopped with the error: {err}"));
        }
    }

    let mut by_get = Model::new();
    for key in keys {
        match db.get(ReadOptions::default(), key) {
            Ok(value) => {
                by_get.insert(key.clone(), value);
            }
            Err(RainDBError::KeyNotFound) => {}
            Err(err) => return Err(format!("get({}) failed: {err}", show(key))),
        }
    }
    for key in by_iterator.keys() {
        if !keys.contains(key) {
            return Err(format!(
                "the iterator returned the key {} that was never written",
                show(key)
            ));
        }
    }
    if by_get != by_iterator {
        return Err(format!(
            "get and the iterator disagree: {}",
            diff(&by_get, &by_iterator)
        ));
    }

    Ok(by_get)
}

fn show(bytes: &[u8]) -> String {
    let text = String::from_utf8_lossy(bytes);
    if text.len() > 24 {
        format!("{}..({} bytes)", &text[..24], bytes.len())
    } else {
        text.to_string()
    }
}

fn diff(left: &Model, right: &Model) -> String {
    let mut parts = vec![];
    let keys: BTreeSet<&Vec<u8>> = left.keys().chain(right.keys()).collect();
    for key in keys {
        let l = left.get(key);
        let r = right.get(key);
        if l != r {
            parts.push(format!(
                "{}: {} vs {}",
                show(key),
                l.map_or("<absent>".to_string(), |v| show(v)),
                r.map_or("<absent>".to_string(), |v| show(v))
            ));
        }
        if parts.len() >= 4 {
            parts.push("...".to_string());
            break;
        }
    }
    parts.join("; ")
}

/// Run the workload on a recording file system and return the crash images.
///
/// `preload` runs (unrecorded) on the same file system before the recorded run and returns the
/// model of what it wrote. If `record_open` is set, the writes of `DB::open` are recorded too.
fn record(
    ops: &[Op],
    sizes: Sizes,
    reuse_log_files: bool,
    record_open: bool,
    preload: &dyn Fn(&Arc<CrashFs>) -> Model,
) -> (Vec<ImageRec>, Model) {
    let fs = Arc::new(CrashFs::new());
    let acked = Arc::clone(&fs.acked);
    let base = preload(&fs);
    {
        if record_open {
            fs.set_recording(true);
        }
        let db = DB::open(options(Arc::clone(&fs), sizes, reuse_log_files)).unwrap();
        fs.set_recording(true);
        for op in ops {
            apply_to_db(&db, op).unwrap();
            acked.fetch_add(1, Ordering::SeqCst);
        }
        fs.set_recording(false);
    }
    if std::env::var("AUDIT_WRITE_LOG").is_ok() {
        let shared = fs.shared.lock().unwrap();
        let mut summary: Vec<String> = vec![];
        for (path, len) in &shared.write_log {
            let name = path.file_name().unwrap().to_string_lossy().to_string();
            if !name.ends_with(".rdb") {
                summary.push(format!("{name}:{len}"));
            }
        }
        println!("writes to logs, manifests and CURRENT: {}", summary.join(" "));
    }
    (fs.take_images(), base)
}

fn no_preload(_fs: &Arc<CrashFs>) -> Model {
    Model::new()
}

/// Run `ops` (unrecorded) in one open/close cycle and fold them into `model`.
fn run_cycle(fs: &Arc<CrashFs>, sizes: Sizes, reuse_log_files: bool, ops: &[Op], model: &mut Model) {
    let db = DB::open(options(Arc::clone(fs), sizes, reuse_log_files)).unwrap();
    for op in ops {
        apply_to_db(&db, op).unwrap();
        apply_to_model(model, op);
    }
}

/// The writes applied after the recovery.
fn second_phase_ops(image_index: usize, style: usize) -> Vec<Op> {
    let mut rng = Rng(0x9e3779b97f4a7c15 ^ (image_index as u64 + 1));
    let mut ops = vec![];
    let count = match style {
        0 => 3,
        1 => 12,
        _ => 40,
    };
    for tag in 0..count {
        let choice = rng.below(10);
        if choice < 6 {
            let len = 1 + rng.below(300) as usize;
            ops.push(Op::Put(
                key_of(rng.below(40)),
                value_of(&mut rng, 100_000 + tag, len),
            ));
        } else if choice < 8 {
            ops.push(Op::Del(key_of(rng.below(40))));
        } else {
            ops.push(Op::Put(
                format!("new{:03}", rng.below(20)).into_bytes(),
                value_of(&mut rng, 200_000 + tag, 50),
            ));
        }
    }
    if style == 2 {
        ops.push(Op::CompactAll);
        ops.push(Op::Put(b"after-compact".to_vec(), b"yes".to_vec()));
    }
    ops
}

/// Check one crash image. Returns a description of the violation if there is one.
fn check_image(
    image: &ImageRec,
    image_index: usize,
    threads: &[Vec<Op>],
    base: &Model,
    sizes: Sizes,
    reuse_on_recovery: bool,
    reuse_on_final_open: bool,
) -> Result<(), String> {
    let on_disk = std::env::var("AUDIT_DISK").is_ok();
    let disk_root = PathBuf::from(env!("CARGO_MANIFEST_DIR"))
        .join("target")
        .join("audit-disk")
        .join(format!(
            "{}-{}-{}-{}",
            std::process::id(),
            image_index,
            reuse_on_recovery,
            reuse_on_final_open
        ));
    let memory_fs = Arc::new(image.materialize());
    let on_crate_memfs = std::env::var("AUDIT_CRATE_MEMFS").is_ok();
    let (fs, db_path): (Arc<dyn FileSystem>, String) = if on_crate_memfs {
        // The in-memory file system of the crate itself
        let crate_fs = InMemoryFileSystem::new();
        let shared = memory_fs.shared.lock().unwrap();
        for (path, buf) in shared.files.iter() {
            let mut file = crate_fs.create_file(path, false).unwrap();
            file.append(&buf.lock().unwrap()).unwrap();
        }
        (Arc::new(crate_fs), DB_PATH.to_string())
    } else if on_disk {
        image.materialize_on_disk(&disk_root);
        (
            Arc::new(raindb::fs::OsFileSystem::new()),
            disk_root.to_string_lossy().to_string(),
        )
    } else {
        (
            Arc::clone(&memory_fs) as Arc<dyn FileSystem>,
            DB_PATH.to_string(),
        )
    };
    struct Cleanup(Option<PathBuf>);
    impl Drop for Cleanup {
        fn drop(&mut self) {
            if let Some(root) = self.0.take() {
                let _ = std::fs::remove_dir_all(root);
            }
        }
    }
    let _cleanup = Cleanup(if on_disk { Some(disk_root.clone()) } else { None });
    let listing = || {
        if on_disk {
            disk_listing(&disk_root)
        } else {
            memory_fs.listing()
        }
    };
    let before = listing();

    let mut keys = BTreeSet::new();
    for ops in threads {
        keys.extend(universe(ops));
    }
    keys.extend(base.keys().cloned());
    let phase_two = second_phase_ops(image_index, image_index % 3);
    keys.extend(universe(&phase_two));

    let context = |stage: &str| {
        format!(
            "[{}; reuse_log_files={} for the recovery, {} for the final open; files in the crash \
            image: {}] {}",
            image.describe(),
            reuse_on_recovery,
            reuse_on_final_open,
            before,
            stage
        )
    };

    // The candidates for the recovered state: for every workload thread, either exactly the
    // acknowledged operations or those plus the one that was in flight.
    let candidates = || -> Vec<Model> {
        let mut result = vec![];
        for choice in 0..(1usize << threads.len()) {
            let mut model = base.clone();
            let mut is_duplicate = false;
            for (thread, ops) in threads.iter().enumerate() {
                let acked = (image.acked >> (16 * thread)) & 0xffff;
                let count = if (choice >> thread) & 1 == 1 {
                    if acked + 1 > ops.len() {
                        is_duplicate = true;
                        break;
                    }
                    acked + 1
                } else {
                    acked
                };
                for op in &ops[..count] {
                    apply_to_model(&mut model, op);
                }
            }
            if !is_duplicate {
                result.push(model);
            }
        }
        result
    };

    // Recovery
    let mut model;
    {
        let db = DB::open(options_at(Arc::clone(&fs), &db_path, sizes, reuse_on_recovery)).map_err(|err| {
            context(&format!(
                "REQUIRED: the database opens after a torn final write. OBSERVED: open failed \
                with: {err}"
            ))
        })?;
        let recovered = dump(&db, &keys).map_err(|err| context(&err))?;
        let candidates = candidates();
        match candidates.iter().find(|candidate| **candidate == recovered) {
            Some(candidate) => model = candidate.clone(),
            None => {
                return Err(context(&format!(
                    "REQUIRED: everything acknowledged before the torn write is kept (and \
                    nothing else appears). OBSERVED after recovery, compared with the \
                    acknowledged state: {}",
                    diff(&candidates[0], &recovered)
                )));
            }
        }

        for op in &phase_two {
            apply_to_db(&db, op).map_err(|err| {
                context(&format!(
                    "REQUIRED: the database is usable after recovery. OBSERVED: {op:?} failed \
                    with: {err}"
                ))
            })?;
            apply_to_model(&mut model, op);
        }
        let after_writes = dump(&db, &keys).map_err(|err| context(&err))?;
        if after_writes != model {
            return Err(context(&format!(
                "REQUIRED: writes acknowledged after the recovery are readable. OBSERVED \
                (expected vs. read): {}",
                diff(&model, &after_writes)
            )));
        }
    }

    // Clean reopen
    for round in 0..2 {
        let db = DB::open(options_at(Arc::clone(&fs), &db_path, sizes, reuse_on_final_open)).map_err(|err| {
            context(&format!(
                "REQUIRED: the database reopens cleanly after the recovery (round {round}). \
                OBSERVED: open failed with: {err}. Files now: {}",
                listing()
            ))
        })?;
        let reopened = dump(&db, &keys).map_err(|err| context(&err))?;
        if reopened != model {
            return Err(context(&format!(
                "REQUIRED: writes acknowledged after the recovery are present after the next \
                clean reopen (round {round}). OBSERVED (expected vs. read): {}",
                diff(&model, &reopened)
            )));
        }
    }

    Ok(())
}

fn check_all(
    name: &str,
    images: Vec<ImageRec>,
    ops: Vec<Op>,
    base: Model,
    sizes: Sizes,
    stride: usize,
) {
    check_all_with(name, images, vec![ops], base, sizes, stride)
}

/// `sizes` are the options used for the recovery and the final reopen.
fn check_all_with(
    name: &str,
    images: Vec<ImageRec>,
    ops: Vec<Vec<Op>>,
    base: Model,
    sizes: Sizes,
    stride: usize,
) {
    let total = images.len();
    println!("{name}: {total} crash images recorded, checking every {stride}. of them");
    let images = Arc::new(images);
    let ops = Arc::new(ops);
    let base = Arc::new(base);
    let next = Arc::new(AtomicUsize::new(0));
    let (sender, receiver) = mpsc::channel::<(usize, Result<(), String>)>();
    let in_flight: Arc<Mutex<BTreeSet<usize>>> = Arc::new(Mutex::new(BTreeSet::new()));
    let num_workers = 6;
    for _ in 0..num_workers {
        let images = Arc::clone(&images);
        let ops = Arc::clone(&ops);
        let base = Arc::clone(&base);
        let next = Arc::clone(&next);
        let sender = sender.clone();
        let in_flight = Arc::clone(&in_flight);
        std::thread::spawn(move || loop {
            let index = next.fetch_add(stride, Ordering::SeqCst);
            if index >= images.len() {
                break;
            }
            in_flight.lock().unwrap().insert(index);
            let mut outcome = Ok(());
            let combos: [(bool, bool); 2] = if all_combos_from_env() {
                if (index / stride) % 2 == 0 {
                    [(true, true), (false, false)]
                } else {
                    [(true, false), (false, true)]
                }
            } else if (index / stride) % 2 == 0 {
                [(true, true), (false, false)]
            } else {
                [(false, false), (true, true)]
            };
            for (reuse_on_recovery, reuse_on_final_open) in combos {
                let result = catch_unwind(AssertUnwindSafe(|| {
                    check_image(
                        &images[index],
                        index,
                        &ops,
                        &base,
                        sizes,
                        reuse_on_recovery,
                        reuse_on_final_open,
                    )
                }));
                let result = match result {
                    Ok(result) => result,
                    Err(panic_value) => {
                        let message = panic_value
                            .downcast_ref::<String>()
                            .cloned()
                            .or_else(|| panic_value.downcast_ref::<&str>().map(|s| s.to_string()))
                            .unwrap_or_else(|| "<non-string panic>".to_string());
                        Err(format!(
                            "[{}; reuse_log_files={} for the recovery, {} for the final open] \
                            REQUIRED: the database opens and stays sound. OBSERVED: a panic: {}",
                            images[index].describe(),
                            reuse_on_recovery,
                            reuse_on_final_open,
                            message
                        ))
                    }
                };
                if result.is_err() {
                    outcome = result;
                    break;
                }
            }
            in_flight.lock().unwrap().remove(&index);
            if sender.send((index, outcome)).is_err() {
                break;
            }
        });
    }
    drop(sender);

    let expected = (total + stride - 1) / stride;
    let mut failures: Vec<(usize, String)> = vec![];
    let mut received = 0;
    while received < expected {
        match receiver.recv_timeout(Duration::from_secs(300)) {
            Ok((index, outcome)) => {
                received += 1;
                if let Err(message) = outcome {
                    failures.push((index, message));
                }
            }
            Err(mpsc::RecvTimeoutError::Timeout) => {
                panic!(
                    "{name}: REQUIRED: recovery terminates. OBSERVED: no progress for 300 s while \
                    checking the images {:?}: {:?}",
                    in_flight.lock().unwrap(),
                    in_flight
                        .lock()
                        .unwrap()
                        .iter()
                        .map(|index| images[*index].describe())
                        .collect::<Vec<_>>()
                );
            }
            Err(mpsc::RecvTimeoutError::Disconnected) => break,
        }
    }
    failures.sort();
    if !failures.is_empty() {
        let mut report = format!(
            "{name}: {} of {} checked crash images violate the property.\n",
            failures.len(),
            expected
        );
        for (index, message) in failures.iter().take(6) {
            report.push_str(&format!("  image {index}: {message}\n"));
        }
        panic!("{report}");
    }
    println!("{name}: all {expected} checked images satisfy the property");
}

fn all_combos_from_env() -> bool {
    std::env::var("AUDIT_MIXED").is_ok()
}

fn stride_from_env(default_stride: usize) -> usize {
    std::env::var("AUDIT_STRIDE")
        .ok()
        .and_then(|value| value.parse().ok())
        .unwrap_or(default_stride)
}

// ---------------------------------------------------------------------------------------------
// Tests
// ---------------------------------------------------------------------------------------------

/// Tiny memtable/file/block sizes: many rotations, flushes, compactions and manifest records.
#[test]
fn torn_writes_small_sizes() {
    let sizes = Sizes {
        max_memtable_size: 2048,
        max_file_size: 1500,
        max_block_size: 256,
    };
    for (seed, reuse) in [(11u64, true), (12u64, false)] {
        let ops = mixed_workload(seed, 220, 40, 200);
        let (images, base) = record(&ops, sizes, reuse, false, &no_preload);
        check_all(
            &format!("small sizes, seed {seed}, reuse_log_files={reuse} in the crashed run"),
            images,
            ops,
            base,
            sizes,
            stride_from_env(9),
        );
    }
}

// ---------------------------------------------------------------------------------------------
// Write-ahead log block boundaries
// ---------------------------------------------------------------------------------------------

const LOG_BLOCK: usize = 32 * 1024;
const LOG_HEADER: usize = 7;

fn varint_len(mut value: usize) -> usize {
    let mut len = 1;
    while value >= 128 {
        value >>= 7;
        len += 1;
    }
    len
}

/// Length of the WAL record of a single put.
fn put_payload_len(key_len: usize, value_len: usize) -> usize {
    8 + 1 + 1 + varint_len(key_len) + key_len + varint_len(value_len) + value_len
}

/// The block offset after appending a record with `payload` bytes at block offset `offset`.
fn advance_log_offset(mut offset: usize, mut payload: usize) -> usize {
    loop {
        if LOG_BLOCK - offset < LOG_HEADER {
            offset = 0;
        }
        let space = LOG_BLOCK - offset - LOG_HEADER;
        let chunk = payload.min(space);
        offset += LOG_HEADER + chunk;
        payload -= chunk;
        if payload == 0 {
            return offset;
        }
    }
}

/// Puts whose records end exactly `remaining` bytes before the end of a block, for every
/// `remaining` in 0..=8, mixed with small and multi-block records.
fn block_boundary_workload() -> Vec<Op> {
    let mut rng = Rng(77);
    let mut ops = vec![];
    let mut offset = 0usize;
    let mut tag = 0usize;
    let mut push_put = |ops: &mut Vec<Op>, offset: &mut usize, rng: &mut Rng, key: Vec<u8>, len: usize| {
        tag += 1;
        *offset = advance_log_offset(*offset, put_payload_len(key.len(), len));
        ops.push(Op::Put(key, value_of(rng, tag, len)));
    };
    for remaining in [3usize, 0, 1, 6, 7, 8, 2, 5, 4] {
        // A small record first so that the engineered record does not start at a block start
        let key = key_of(rng.below(30));
        let small_len = 1 + rng.below(500) as usize;
        push_put(&mut ops, &mut offset, &mut rng, key, small_len);

        // Now fill the block up to `remaining` bytes before its end
        let key = key_of(rng.below(30));
        let room = LOG_BLOCK - offset - remaining;
        // room = LOG_HEADER + payload
        let mut value_len = room - LOG_HEADER - put_payload_len(key.len(), 0);
        // adjust for the varint of the value length
        while LOG_HEADER + put_payload_len(key.len(), value_len) > room {
            value_len -= 1;
        }
        assert_eq!(LOG_HEADER + put_payload_len(key.len(), value_len), room);
        push_put(&mut ops, &mut offset, &mut rng, key, value_len);
        assert_eq!(LOG_BLOCK - offset, remaining);

        // What follows the boundary: small record, record of several blocks, deletion
        match remaining % 3 {
            0 => {
                let key = key_of(rng.below(30));
                push_put(&mut ops, &mut offset, &mut rng, key, 20);
            }
            1 => {
                let key = key_of(rng.below(30));
                push_put(&mut ops, &mut offset, &mut rng, key, 70_000);
            }
            _ => {
                let key = key_of(rng.below(30));
                offset = advance_log_offset(offset, 8 + 1 + 1 + 1 + key.len());
                ops.push(Op::Del(key));
            }
        }
    }
    ops
}

#[test]
fn torn_writes_at_log_block_boundaries() {
    let sizes = Sizes {
        max_memtable_size: 4 * 1024 * 1024,
        max_file_size: 2 * 1024 * 1024,
        max_block_size: 4096,
    };
    for reuse in [true, false] {
        let ops = block_boundary_workload();
        let (images, base) = record(&ops, sizes, reuse, false, &no_preload);
        check_all(
            &format!("log block boundaries, reuse_log_files={reuse} in the crashed run"),
            images,
            ops,
            base,
            sizes,
            stride_from_env(1),
        );
    }
}

// ---------------------------------------------------------------------------------------------
// Manifest records larger than a log block (large keys)
// ---------------------------------------------------------------------------------------------

fn big_key(index: u64, len: usize) -> Vec<u8> {
    let mut key = format!("big{index:03}-").into_bytes();
    while key.len() < len {
        key.push(b'k');
    }
    key
}

#[test]
fn torn_writes_with_multi_block_manifest_records() {
    let sizes = Sizes {
        max_memtable_size: 64 * 1024,
        max_file_size: 2 * 1024 * 1024,
        max_block_size: 4096,
    };
    for reuse in [true, false] {
        let mut rng = Rng(5);
        let mut ops = vec![];
        for tag in 0..70usize {
            let key = big_key(rng.below(25), 9000 + rng.below(3000) as usize);
            if rng.below(5) == 0 {
                ops.push(Op::Del(key));
            } else {
                ops.push(Op::Put(key, value_of(&mut rng, tag, 30)));
            }
            if tag == 45 {
                ops.push(Op::CompactAll);
            }
        }
        let (images, base) = record(&ops, sizes, reuse, false, &no_preload);
        check_all(
            &format!("multi-block manifest records, reuse_log_files={reuse} in the crashed run"),
            images,
            ops,
            base,
            sizes,
            stride_from_env(5),
        );
    }
}

// ---------------------------------------------------------------------------------------------
// Crash while opening (the recovery writes themselves are torn)
// ---------------------------------------------------------------------------------------------

#[test]
fn torn_writes_while_opening() {
    let sizes = Sizes {
        max_memtable_size: 4096,
        max_file_size: 2 * 1024 * 1024,
        max_block_size: 512,
    };
    for (first_reuse, second_reuse) in [(true, true), (false, false), (true, false), (false, true)]
    {
        let preload = move |fs: &Arc<CrashFs>| -> Model {
            let mut model = Model::new();
            // Several open/close cycles so that the manifest and the logs have a history
            let ops = mixed_workload(21, 90, 30, 150);
            run_cycle(fs, sizes, first_reuse, &ops[..40], &mut model);
            run_cycle(fs, sizes, first_reuse, &ops[40..70], &mut model);
            run_cycle(fs, sizes, first_reuse, &ops[70..], &mut model);
            model
        };
        let ops = mixed_workload(22, 25, 30, 150);
        let (images, base) = record(&ops, sizes, second_reuse, true, &preload);
        check_all(
            &format!(
                "crash while opening, history with reuse_log_files={first_reuse}, crashed run \
                with {second_reuse}"
            ),
            images,
            ops,
            base,
            sizes,
            stride_from_env(3),
        );
    }
}

// ---------------------------------------------------------------------------------------------
// Unusual keys and values
// ---------------------------------------------------------------------------------------------

#[test]
fn torn_writes_with_unusual_keys() {
    let sizes = Sizes {
        max_memtable_size: 1024,
        max_file_size: 700,
        max_block_size: 128,
    };
    let special_keys: Vec<Vec<u8>> = vec![
        vec![],
        vec![0],
        vec![0, 0],
        vec![0xff],
        vec![0xff, 0xff],
        vec![0xff, 0xff, 0xff, 0xff, 0xff, 0xff, 0xff, 0xff, 0xff],
        b"a".to_vec(),
        b"a\0".to_vec(),
        b"a\xff".to_vec(),
        b"b".to_vec(),
    ];
    for reuse in [true, false] {
        let mut rng = Rng(99);
        let mut ops = vec![];
        for tag in 0..150usize {
            let key = special_keys[rng.below(special_keys.len() as u64) as usize].clone();
            match rng.below(10) {
                0 => ops.push(Op::Batch(vec![])),
                1 | 2 => ops.push(Op::Del(key)),
                3 => ops.push(Op::Put(key, vec![])),
                4 => ops.push(Op::Batch(vec![
                    (key.clone(), Some(b"first".to_vec())),
                    (key.clone(), None),
                    (key, Some(value_of(&mut rng, tag, 40))),
                ])),
                5 => ops.push(Op::Batch(vec![
                    (key.clone(), Some(b"first".to_vec())),
                    (key, None),
                ])),
                _ => {
                    let len = 1 + rng.below(120) as usize;
                    ops.push(Op::Put(key, value_of(&mut rng, tag, len)));
                }
            }
        }
        let (images, base) = record(&ops, sizes, reuse, true, &no_preload);
        check_all(
            &format!("unusual keys, reuse_log_files={reuse} in the crashed run"),
            images,
            ops,
            base,
            sizes,
            stride_from_env(9),
        );
    }
}

// ---------------------------------------------------------------------------------------------
// Recovery with a much smaller memtable than the crashed run (many flushes during recovery)
// ---------------------------------------------------------------------------------------------

#[test]
fn torn_writes_recovered_with_tiny_memtable() {
    let sizes = Sizes {
        max_memtable_size: 4 * 1024 * 1024,
        max_file_size: 2 * 1024 * 1024,
        max_block_size: 4096,
    };
    let ops = mixed_workload(31, 400, 60, 400);
    let (images, base) = record(&ops, sizes, true, false, &no_preload);
    let recovery_sizes = Sizes {
        max_memtable_size: 300,
        max_file_size: 400,
        max_block_size: 64,
    };
    check_all_with(
        "recovery with a tiny memtable",
        images,
        vec![ops],
        base,
        recovery_sizes,
        stride_from_env(23),
    );
}

// ---------------------------------------------------------------------------------------------
// Longer random runs with several size configurations (sampled)
// ---------------------------------------------------------------------------------------------

#[test]
fn torn_writes_random_configurations() {
    let configurations = [
        (
            41u64,
            Sizes {
                max_memtable_size: 4096,
                max_file_size: 2 * 1024 * 1024,
                max_block_size: 512,
            },
            300usize,
        ),
        (
            42u64,
            Sizes {
                max_memtable_size: 1024,
                max_file_size: 4096,
                max_block_size: 128,
            },
            150usize,
        ),
        (
            43u64,
            Sizes {
                max_memtable_size: 20_000,
                max_file_size: 10_000,
                max_block_size: 1024,
            },
            3000usize,
        ),
    ];
    let seed_offset: u64 = std::env::var("AUDIT_SEED")
        .ok()
        .and_then(|value| value.parse().ok())
        .unwrap_or(0);
    for (seed, sizes, max_value_len) in configurations {
        for reuse in [true, false] {
            let ops = mixed_workload(seed + 1000 * seed_offset + reuse as u64, 350, 50, max_value_len);
            let (images, base) = record(&ops, sizes, reuse, true, &no_preload);
            check_all(
                &format!("random run with {sizes:?}, reuse_log_files={reuse} in the crashed run"),
                images,
                ops,
                base,
                sizes,
                stride_from_env(29),
            );
        }
    }
}

// ---------------------------------------------------------------------------------------------
// Concurrent writers (group commits), a thread that compacts and a thread that reads
// ---------------------------------------------------------------------------------------------

/// Like `record` but every element of `threads` is applied by its own thread. The key sets of
/// the threads must be disjoint.
fn record_concurrent(threads: &[Vec<Op>], sizes: Sizes, reuse_log_files: bool) -> Vec<ImageRec> {
    let fs = Arc::new(CrashFs::new());
    {
        let db = Arc::new(DB::open(options(Arc::clone(&fs), sizes, reuse_log_files)).unwrap());
        fs.set_recording(true);
        let mut handles = vec![];
        for (thread, ops) in threads.iter().cloned().enumerate() {
            let db = Arc::clone(&db);
            let acked = Arc::clone(&fs.acked);
            handles.push(std::thread::spawn(move || {
                for op in &ops {
                    apply_to_db(&db, op).unwrap();
                    acked.fetch_add(1 << (16 * thread), Ordering::SeqCst);
                }
            }));
        }
        // A reader that keeps iterating and looking keys up (seek compactions, version references)
        let stop = Arc::new(std::sync::atomic::AtomicBool::new(false));
        let reader = {
            let db = Arc::clone(&db);
            let stop = Arc::clone(&stop);
            std::thread::spawn(move || {
                let mut index = 0u64;
                while !stop.load(Ordering::SeqCst) {
                    let _ = db.get(ReadOptions::default(), &key_of(index % 40));
                    index += 1;
                    if index % 16 == 0 {
                        let mut iter = db.new_iterator(ReadOptions::default()).unwrap();
                        iter.seek_to_first().unwrap();
                        while iter.is_valid() {
                            iter.next();
                        }
                    }
                }
            })
        };
        for handle in handles {
            handle.join().unwrap();
        }
        stop.store(true, Ordering::SeqCst);
        reader.join().unwrap();
        fs.set_recording(false);
        let db = Arc::try_unwrap(db).ok().expect("all threads are done");
        drop(db);
    }
    fs.take_images()
}

#[test]
fn torn_writes_with_concurrent_writers() {
    let sizes = Sizes {
        max_memtable_size: 3000,
        max_file_size: 2500,
        max_block_size: 256,
    };
    for reuse in [true, false] {
        let mut threads: Vec<Vec<Op>> = vec![];
        for thread in 0..3u64 {
            let mut rng = Rng(500 + thread);
            let mut ops = vec![];
            for tag in 0..120usize {
                let key = key_of(thread * 10 + rng.below(10));
                match rng.below(10) {
                    0 | 1 => ops.push(Op::Del(key)),
                    2 => ops.push(Op::Batch(vec![
                        (key, Some(value_of(&mut rng, tag, 100))),
                        (key_of(thread * 10 + rng.below(10)), None),
                    ])),
                    _ => {
                        let len = 1 + rng.below(250) as usize;
                        ops.push(Op::Put(key, value_of(&mut rng, tag, len)));
                    }
                }
            }
            threads.push(ops);
        }
        // The fourth thread only compacts
        threads.push(vec![Op::CompactAll; 6]);
        let images = record_concurrent(&threads, sizes, reuse);
        check_all_with(
            &format!("concurrent writers, reuse_log_files={reuse} in the crashed run"),
            images,
            threads,
            Model::new(),
            sizes,
            stride_from_env(11),
        );
    }
}
